"""Sow / grow / reap gives exactly what a direct run gives.

Run as:  cd <worktree> && /venv/bin/python /path/to/demo.py

Exercises every path touched by the helper-extracting refactoring of
``xyzpy/gen/cropping.py`` (batch option setting, constants splitting, the
sower driver, the reap prelude / reaper factory / clean-up, the path builders
used by the Sower, ``grow``, ``missing_results`` and the Reaper, and the
"batch is full" predicate) and checks results, file names, file contents and
exceptions.  Prints PASS and exits 0 when everything is as expected.
"""
import os
import sys

sys.path.insert(0, os.getcwd())

import glob
import math
import pickle
import random
import shutil
import subprocess
import tempfile
import warnings

import numpy as np

import xyzpy
from xyzpy import Crop, Runner, Harvester, Sampler, combo_runner, case_runner
from xyzpy.gen.cropping import grow as grow_fn
from xyzpy.gen.farming import XYZError

warnings.filterwarnings("ignore")

FAILURES = []


def check(cond, msg):
    if not cond:
        FAILURES.append(msg)
        print("  problem:", msg)
    return cond


def fn3(a, b, c=0):
    return 10000 * a + 100 * b + c


def fn2(x, y, k=0):
    return 1000 * x + y + 0.5 * k


def same(x, y):
    return np.array_equal(
        np.asarray(x, dtype=float), np.asarray(y, dtype=float), equal_nan=True
    )


def expected_sizes(n, batchsize, num_batches):
    """Independent statement of how n settings are divided into batches."""
    if num_batches is None:
        bs = 1 if batchsize is None else batchsize
        nb = math.ceil(n / bs)
        return [min(bs, n - i * bs) for i in range(nb)]
    nb = min(n, num_batches)
    q, r = divmod(n, nb)
    return [q + 1 if i < r else q for i in range(nb)]


def batch_files(crop):
    return sorted(os.listdir(os.path.join(crop.location, "batches")))


def result_files(crop):
    return sorted(os.listdir(os.path.join(crop.location, "results")))


def load(fname):
    with open(fname, "rb") as f:
        return pickle.load(f)


def partitions(ids, rng):
    """Random permutation of the ids, cut into random groups."""
    ids = list(ids)
    rng.shuffle(ids)
    groups = []
    while ids:
        k = rng.randint(1, len(ids))
        groups.append(tuple(ids[:k]))
        ids = ids[k:]
    return groups


# --------------------------------------------------------------------------- #


def grid_sweep(tdir, rng):
    """Grids: all batch sizes / counts, shuffle at construction or sowing."""
    grids = [
        [("a", [1]), ("b", [7])],
        [("b", [4, 5, 6]), ("a", [1, 2])],
        [("a", [1, 2, 3]), ("b", [4, 5, 6, 7])],
        [("a", [3, 1, 2]), ("b", [2, 9]), ("c", [5, 6, 8])],
    ]
    count = 0
    for gi, combos in enumerate(grids):
        n = 1
        for _, v in combos:
            n *= len(v)
        # (a crop always lays the grid out in the sorted order of the names)
        expected = combo_runner(fn3, sorted(combos), verbosity=0)
        flat_direct = sorted(
            fn3(**dict(zip([k for k, _ in sorted(combos)], vals)))
            for vals in __import__("itertools").product(
                *[v for _, v in sorted(combos)]
            )
        )
        options = [dict()]
        options += [dict(batchsize=b) for b in range(1, n + 2)]
        options += [dict(num_batches=b) for b in range(1, n + 3)]
        for oi, opt in enumerate(options):
            shuffle = rng.choice([False, True, 3, 11])
            how = rng.choice(["ctor", "sow", "sow_opts"])
            name = "g{}_{}".format(gi, oi)
            if how == "ctor":
                crop = Crop(
                    fn=fn3, name=name, parent_dir=tdir, shuffle=shuffle, **opt
                )
                crop.sow_combos(combos, shuffle=None, verbosity=0)
            elif how == "sow":
                crop = Crop(fn=fn3, name=name, parent_dir=tdir, **opt)
                crop.sow_combos(combos, shuffle=shuffle, verbosity=0)
            else:
                # batch options given to the sow call rather than constructor
                crop = Crop(fn=fn3, name=name, parent_dir=tdir)
                crop.sow_combos(combos, shuffle=shuffle, verbosity=0, **opt)

            sizes = expected_sizes(
                n, opt.get("batchsize"), opt.get("num_batches")
            )
            tag = "grid {} {} shuffle={} via {}".format(gi, opt, shuffle, how)

            # same files, with the same names and contents
            check(
                batch_files(crop)
                == sorted("xyz-batch-{}.jbdmp".format(i + 1)
                          for i in range(len(sizes))),
                tag + ": batch file names " + str(batch_files(crop)),
            )
            got_sizes = [
                len(load(os.path.join(crop.location, "batches",
                                      "xyz-batch-{}.jbdmp".format(i + 1))))
                for i in range(len(sizes))
            ]
            check(got_sizes == sizes, tag + ": batch sizes {} != {}".format(
                got_sizes, sizes))
            check(crop.num_batches == len(sizes), tag + ": num_batches")
            info = load(os.path.join(crop.location, "xyz-settings.jbdmp"))
            check(info["shuffle"] == shuffle and
                  info["num_batches"] == len(sizes), tag + ": saved settings")
            sown = [
                kws
                for i in range(len(sizes))
                for kws in load(os.path.join(
                    crop.location, "batches",
                    "xyz-batch-{}.jbdmp".format(i + 1)))
            ]
            check(sorted(fn3(**k) for k in sown) == flat_direct,
                  tag + ": the sown settings are not the grid")

            # not ready yet
            try:
                Crop(name=name, parent_dir=tdir).reap()
                check(False, tag + ": reap before growing did not raise")
            except XYZError:
                pass
            check(os.path.isdir(crop.location), tag + ": crop vanished")

            # grow: any order and grouping, some batches more than once, each
            # call by a Crop that only knows the name and directory
            ids = range(1, len(sizes) + 1)
            style = count % 4
            if style == 0:
                for group in partitions(ids, rng):
                    Crop(name=name, parent_dir=tdir).grow(group, verbosity=0)
            elif style == 1:
                groups = partitions(ids, rng)
                Crop(name=name, parent_dir=tdir).grow(groups[0], verbosity=0)
                fresh = Crop(name=name, parent_dir=tdir)
                check(
                    fresh.missing_results()
                    == tuple(i for i in ids if i not in groups[0]),
                    tag + ": missing_results " + str(fresh.missing_results()),
                )
                fresh.grow_missing(verbosity=0)
                # and again, the first group a second time
                Crop(name=name, parent_dir=tdir).grow(groups[0], verbosity=0)
            elif style == 2:
                for i in reversed(ids):
                    grow_fn(i, crop=Crop(name=name, parent_dir=tdir),
                            verbosity=0)
            else:
                here = os.getcwd()
                os.chdir(crop.location)
                try:
                    for i in ids:
                        # found from the working directory alone
                        grow_fn(i, verbosity=0)
                finally:
                    os.chdir(here)
            check(
                result_files(crop)
                == sorted("xyz-result-{}.jbdmp".format(i) for i in ids),
                tag + ": result file names " + str(result_files(crop)),
            )
            check(not glob.glob(os.path.join(crop.location, "*", "*.tmp")),
                  tag + ": temporary files left behind")
            check(Crop(name=name, parent_dir=tdir).missing_results() == (),
                  tag + ": still missing results")

            reaper = Crop(name=name, parent_dir=tdir)
            keep = (count % 3 == 0)
            got = reaper.reap(clean_up=False) if keep else reaper.reap()
            check(got == expected, tag + ": reaped {} expected {}".format(
                got, expected))
            check(os.path.isdir(crop.location) == keep,
                  tag + ": clean up wrong")
            if keep:
                # reaping twice gives the same again
                check(crop.reap_combos() == expected, tag + ": second reap")
                check(not os.path.isdir(crop.location), tag + ": clean up 2")
            count += 1
    return count


def case_sweep(tdir, rng):
    """Case lists (optionally times a grid), shuffle at construction."""
    cases = [(1, 10), (2, 20), (3, 30), (4, 40), (5, 50), (2, 10), (4, 20)]
    count = 0
    for combos in (None, [("k", [1, 2, 3])]):
        # the flat list of one result per case, and its grid-shaped form
        flat = case_runner(fn2, ("x", "y"), cases, combos=combos, verbosity=0)
        direct = combo_runner(
            fn2, combos, cases=[dict(x=x, y=y) for x, y in cases], verbosity=0
        )
        check(
            np.nansum(np.asarray(direct, dtype=float))
            == np.sum(np.asarray(flat, dtype=float)),
            "direct case runs disagree with each other",
        )
        n = len(cases) * (3 if combos else 1)
        options = [dict()]
        options += [dict(batchsize=b) for b in (1, 2, 3, n, n + 1)]
        options += [dict(num_batches=b) for b in (1, 2, 4, 5, n, n + 2)]
        for oi, opt in enumerate(options):
            shuffle = rng.choice([False, True, 2, 9])
            name = "c{}_{}".format(count, oi)
            via_call = bool(oi % 2)
            if via_call:
                crop = Crop(fn=fn2, name=name, parent_dir=tdir,
                            shuffle=shuffle)
                crop.sow_cases(("x", "y"), cases, combos=combos, verbosity=0,
                               **opt)
            else:
                crop = Crop(fn=fn2, name=name, parent_dir=tdir,
                            shuffle=shuffle, **opt)
                crop.sow_cases(("x", "y"), cases, combos=combos, verbosity=0)
            tag = "cases {} {} shuffle={}".format(bool(combos), opt, shuffle)
            sizes = expected_sizes(
                n, opt.get("batchsize"), opt.get("num_batches")
            )
            got_sizes = [
                len(load(os.path.join(crop.location, "batches", f)))
                for f in sorted(
                    batch_files(crop),
                    key=lambda s: int(s.split("-")[2].split(".")[0]))
            ]
            check(got_sizes == sizes, tag + ": batch sizes {} != {}".format(
                got_sizes, sizes))
            for group in partitions(range(1, len(sizes) + 1), rng):
                Crop(name=name, parent_dir=tdir).grow(group, verbosity=0)
            got = Crop(name=name, parent_dir=tdir).reap()
            check(same(got, direct), tag + ": reaped values differ")
            check(not os.path.isdir(crop.location), tag + ": not cleaned up")
        count += 1
    return count


def runner_and_harvester(tdir, rng):
    """Labelled output: constants given when sowing, datasets, harvesters."""
    runner = Runner(fn3, var_names="out", constants={"c": 2})
    combos = {"a": [1, 2, 3], "b": [5, 6, 7, 8]}
    direct = runner.run_combos(combos, verbosity=0).copy(deep=True)
    for shuffle, opt in [(False, dict(batchsize=5)), (4, dict(num_batches=5)),
                         (True, dict(num_batches=20))]:
        crop = runner.Crop(name="run", parent_dir=tdir, **opt)
        crop.sow_combos(combos, shuffle=shuffle, verbosity=0)
        Crop(name="run", parent_dir=tdir).grow_missing(verbosity=0)
        ds = Crop(name="run", parent_dir=tdir).reap()
        check(ds.identical(direct), "runner crop {} {}: {} != {}".format(
            shuffle, opt, ds, direct))

    # constants at sowing override the runner's, as in a direct run
    direct_c = runner.run_combos(combos, constants={"c": 7},
                                 verbosity=0).copy(deep=True)
    crop = runner.Crop(name="runc", parent_dir=tdir, batchsize=4)
    crop.sow_combos(combos, constants={"c": 7}, shuffle=6, verbosity=0)
    crop.grow((3, 1, 2), verbosity=0)
    ds = crop.reap()
    check(ds.identical(direct_c), "sown constants: {} != {}".format(
        ds, direct_c))

    # cases through a runner
    cases = [(1, 5), (3, 8), (2, 6)]
    direct_cases = runner.run_cases(cases, fn_args=("a", "b"),
                                    verbosity=0).copy(deep=True)
    crop = xyzpy.Crop(farmer=runner, name="runcases", parent_dir=tdir,
                      num_batches=2, shuffle=3)
    crop.sow_cases(("a", "b"), cases, verbosity=0)
    Crop(name="runcases", parent_dir=tdir).grow((2, 1), verbosity=0)
    ds = Crop(name="runcases", parent_dir=tdir).reap()
    check(ds.identical(direct_cases), "runner cases differ")

    # harvester: reap merges into the file; crop removed after
    h_direct = Harvester(Runner(fn3, var_names="out"),
                         os.path.join(tdir, "direct.h5"))
    h_direct.harvest_combos(combos, verbosity=0)
    h_crop = Harvester(Runner(fn3, var_names="out"),
                       os.path.join(tdir, "crop.h5"))
    crop = h_crop.Crop(name="harv", parent_dir=tdir, batchsize=5)
    crop.sow_combos(combos, shuffle=True, verbosity=0)
    crop.grow_missing(verbosity=0)
    crop.reap()
    check(h_crop.full_ds.identical(h_direct.full_ds), "harvested differ")
    check(not os.path.isdir(crop.location), "harvester crop not cleaned up")

    # samples
    sampler = Sampler(Runner(fn3, var_names="out"),
                      default_combos={"a": [1, 2, 3, 4], "b": [5, 6, 7]})
    np.random.seed(7)
    fn_args, cases = sampler.gen_cases_fnargs(9)
    df_direct = sampler.runner.run_cases(cases, fn_args=fn_args, to_df=True,
                                         verbosity=0)
    crop = xyzpy.Crop(farmer=sampler, name="samp", parent_dir=tdir,
                      batchsize=4, shuffle=5)
    np.random.seed(7)
    crop.sow_samples(9, verbosity=0)
    check(len(batch_files(crop)) == 3, "sample batches")
    Crop(name="samp", parent_dir=tdir).grow((3, 2, 1, 2), verbosity=0)
    df = crop.reap()
    check(df.reset_index(drop=True).equals(df_direct.reset_index(drop=True)),
          "sampled dataframe differs:\n{}\n{}".format(df, df_direct))
    check(not os.path.isdir(crop.location), "sampler crop not cleaned up")


def incomplete_and_errors(tdir, rng):
    combos = [("a", [1, 2, 3]), ("b", [4, 5, 6, 7])]
    expected = np.array(combo_runner(fn3, combos, verbosity=0), dtype=float)
    crop = Crop(fn=fn3, name="inc", parent_dir=tdir, num_batches=5)
    crop.sow_combos(combos, verbosity=0)  # sizes 3 3 2 2 2, in grid order
    try:
        crop.reap(allow_incomplete=True)
        check(False, "all-nan without any result did not raise")
    except XYZError:
        pass
    crop.grow((4, 2), verbosity=0)
    got = np.array(Crop(name="inc", parent_dir=tdir).reap(
        allow_incomplete=True), dtype=float)
    flat_e = expected.reshape(-1).copy()
    missing = [0, 1, 2, 6, 7, 10, 11]
    flat_e[missing] = np.nan
    check(same(got.reshape(-1), flat_e),
          "incomplete reap: {} != {}".format(got.reshape(-1), flat_e))
    check(os.path.isdir(crop.location), "incomplete reap cleaned up")
    try:
        crop.reap()
        check(False, "reap with missing results did not raise")
    except XYZError:
        pass
    # to a dataset too
    ds = Crop(name="inc", parent_dir=tdir).reap_combos_to_ds(
        var_names="out", allow_incomplete=True)
    check(same(ds["out"].values.reshape(-1), flat_e), "incomplete dataset")
    crop.grow_missing(verbosity=0)
    ds = crop.reap_combos_to_ds(var_names="out")
    check(same(ds["out"].values, expected), "dataset after grow_missing")
    check(not os.path.isdir(crop.location), "not cleaned up")

    # wait=True when everything is already there
    crop = Crop(fn=fn3, name="w", parent_dir=tdir, batchsize=5)
    crop.sow_combos(combos, shuffle=2, verbosity=0)
    crop.grow_missing(verbosity=0)
    got = np.array(crop.reap(wait=True), dtype=float)
    check(same(got, expected), "wait reap")

    # batch settings that do not multiply up are refused before writing
    crop = Crop(fn=fn3, name="bad", parent_dir=tdir, batchsize=5)
    try:
        crop.sow_combos(combos, num_batches=7, verbosity=0)
        check(False, "inconsistent batch settings accepted")
    except ValueError:
        pass
    check(not os.path.exists(crop.location), "refused sow wrote files")


def parallel_and_processes(tdir, rng):
    combos = [("a", [1, 2, 3]), ("b", [4, 5, 6, 7])]
    expected = combo_runner(fn3, combos, verbosity=0)

    # parallel growing: workers inside grow, and batches in parallel
    crop = Crop(fn=fn3, name="par", parent_dir=tdir, batchsize=5)
    crop.sow_combos(combos, shuffle=True, verbosity=0)
    crop.grow(1, num_workers=2, verbosity=0)
    grow_fn(3, crop=Crop(name="par", parent_dir=tdir), num_workers=2,
            verbosity=0)
    crop.grow_missing(verbosity=0)
    check(crop.reap() == expected, "parallel grow")

    # every step by a fresh process knowing only name and directory
    crop = Crop(fn=fn3, name="proc", parent_dir=tdir, num_batches=5,
                shuffle=8)
    crop.sow_combos(combos, shuffle=None, verbosity=0)
    code = (
        "import os, sys; sys.path.insert(0, os.getcwd());"
        "from xyzpy import Crop;"
        "c = Crop(name='proc', parent_dir={!r});"
        "c.grow({}, verbosity=0)"
    )
    for ids in ((5, 2), (1, 3, 4, 2)):
        subprocess.run(
            [sys.executable, "-c", code.format(tdir, ids)], check=True
        )
    out = os.path.join(tdir, "reaped.pkl")
    code = (
        "import os, sys, pickle; sys.path.insert(0, os.getcwd());"
        "from xyzpy import Crop;"
        "r = Crop(name='proc', parent_dir={!r}).reap();"
        "pickle.dump(r, open({!r}, 'wb'))"
    )
    subprocess.run([sys.executable, "-c", code.format(tdir, out)], check=True)
    check(load(out) == expected, "fresh processes: {} != {}".format(
        load(out), expected))
    check(not os.path.isdir(crop.location), "fresh process did not clean up")


def main():
    here = os.path.abspath(os.getcwd())
    check(os.path.abspath(xyzpy.__file__).startswith(here + os.sep),
          "xyzpy imported from {} not from {}".format(xyzpy.__file__, here))
    rng = random.Random(1234)
    tdir = tempfile.mkdtemp(prefix="xyz-demo-")
    # (progress bars go to stderr: keep the output readable)
    stderr, sys.stderr = sys.stderr, open(os.devnull, "w")
    try:
        n_grid = grid_sweep(tdir, rng)
        n_case = case_sweep(tdir, rng)
        runner_and_harvester(tdir, rng)
        incomplete_and_errors(tdir, rng)
        parallel_and_processes(tdir, rng)
    except Exception:
        import traceback
        traceback.print_exc(file=sys.stdout)
        print("FAIL: unexpected exception (see above)")
        return 1
    finally:
        sys.stderr = stderr
        shutil.rmtree(tdir, ignore_errors=True)
    print("checked {} grid crops, {} case sweeps".format(n_grid, n_case))
    if FAILURES:
        print("FAIL: {} problem(s), first: {}".format(
            len(FAILURES), FAILURES[0]))
        return 1
    print("PASS")
    return 0


if __name__ == "__main__":
    sys.exit(main())
