"""Demo for property C06 (crop attached to a farmer reaps what a direct run
gives).  Run as ``cd <worktree> && /venv/bin/python /path/to/demo.py``.
"""
import os
import sys

sys.path.insert(0, os.getcwd())

import pickle
import subprocess
import tempfile
import warnings

import numpy as np
import pandas as pd
import xarray as xr

import xyzpy
from xyzpy import Runner, Harvester, Sampler, Crop
from xyzpy.gen.farming import XYZError

assert os.path.abspath(xyzpy.__file__).startswith(os.getcwd()), xyzpy.__file__
warnings.simplefilter("ignore")

NCHECK = [0]


def check(cond, msg):
    NCHECK[0] += 1
    if not cond:
        print("FAIL:", msg)
        sys.exit(1)


def fn(a, b, c=1.0, t=None, res=0):
    """Labelled function: one scalar output and one with internal dim 't'."""
    s = a + 10 * b + 100 * c + res
    arr = s + np.asarray(t, dtype=float) ** 2
    return s, arr


def fn_tab(a, b, c=1.0, res=0):
    """Scalar-only outputs, for DataFrames (no internal dimensions)."""
    return a + 10 * b + 100 * c + res, float(a * b) / 7


def fn_flag(a, b):
    """bool + str outputs (non-float dtypes)."""
    return bool((a + b) % 2), "v{}{}".format(a, b)


def make_runner(f=fn):
    if f is fn:
        return Runner(
            f,
            var_names=["s", "arr"],
            fn_args=["a", "b", "c"],
            var_dims={"arr": ["t"]},
            constants={"t": [0.0, 1.0, 2.0], "c": 2.0},
            resources={"res": 1000},
            attrs={"note": "hello", "version": 3},
        )
    if f is fn_tab:
        return Runner(
            f,
            var_names=["s", "p"],
            fn_args=["a", "b", "c"],
            constants={"c": 2.0},
            resources={"res": 1000},
            attrs={"note": "tab"},
        )
    return Runner(f, var_names=["flag", "tag"], attrs={"kind": "flags"})


COMBOS = {"a": [1, 2, 3], "b": [10, 20, 30, 40]}
COMBOS2 = {"a": [3, 4], "b": [40, 50]}  # overlaps COMBOS at (3, 40)
CASES = [(1, 10), (2, 30), (5, 50), (3, 20), (7, 70)]
CASES_D = [{"a": 1, "b": 10}, {"a": 2, "b": 30}, {"a": 9, "b": 90}]


def same_ds(x, y, msg):
    check(isinstance(x, xr.Dataset) and isinstance(y, xr.Dataset), msg + " [type]")
    check(x.identical(y), msg + "\n{}\n---\n{}".format(x, y))
    for v in x.data_vars:
        check(x[v].dtype == y[v].dtype, msg + " [dtype {}]".format(v))
    check(list(x.attrs.items()) == list(y.attrs.items()), msg + " [attrs]")
    check(dict(x.sizes) == dict(y.sizes), msg + " [sizes]")


def same_df(x, y, msg):
    check(isinstance(x, pd.DataFrame) and isinstance(y, pd.DataFrame), msg + " [type]")
    try:
        pd.testing.assert_frame_equal(x, y, check_exact=True)
    except AssertionError as e:
        check(False, msg + "\n" + str(e))
    check(True, msg)


CHILD = r"""
import os, sys, pickle
sys.path.insert(0, os.getcwd())
import warnings; warnings.simplefilter('ignore')
import xyzpy
from xyzpy import Crop
name, parent, action, out = sys.argv[1:5]
crop = Crop(name=name, parent_dir=parent)
assert crop.farmer is not None and crop.farmer.fn is not None
assert crop.farmer.fn is crop.fn
if action == 'grow':
    crop.grow_missing()
elif action == 'growfirst':
    crop.grow(1)
elif action == 'reap':
    data = crop.reap()
    farmer = crop.farmer
    runner = crop.runner
    last_ds = runner._last_ds
    last_df = getattr(runner, '_last_df', None)
    s_last = getattr(farmer, '_last_df', None)
    with open(out, 'wb') as f:
        pickle.dump({'data': data, 'last_ds': last_ds, 'last_df': last_df,
                     'farmer_last_df': s_last,
                     'kind': type(farmer).__name__}, f)
"""


def child(name, parent, action, out="-"):
    subprocess.run(
        [sys.executable, "-c", CHILD, name, parent, action, out],
        check=True,
        cwd=os.getcwd(),
        stdout=subprocess.DEVNULL,
    )


def grow_somehow(crop, how, tmp):
    """Grow all missing batches in one of several ways."""
    if how == "same":
        crop.grow_missing()
    elif how == "reload":
        # reload by name in this process: farmer unpickled, fn re-attached
        c2 = Crop(name=crop.name, parent_dir=crop.parent_dir)
        check(c2.farmer is not None, "reloaded crop has a farmer")
        check(c2.farmer is not crop.farmer, "reloaded farmer is a new object")
        check(c2.farmer.fn is not None, "reloaded farmer has its fn back")
        check(type(c2.farmer) is type(crop.farmer), "reloaded farmer kind")
        c2.grow_missing()
    elif how == "process":
        child(crop.name, crop.parent_dir, "grow")
    else:
        raise ValueError(how)


def section_runner(tmp, hows=("same", "reload", "process")):
    direct = make_runner().run_combos(COMBOS)
    direct_df = make_runner(fn_tab).run_combos(COMBOS, to_df=True)
    direct_cases = make_runner().run_cases(CASES)
    direct_mixed = make_runner().run_cases(
        [(1,), (2,)], fn_args=["a"], combos=(("b", [10, 20, 30]),)
    )
    i = 0
    for how in hows:
        batches = ({}, {"batchsize": 5}, {"num_batches": 5}, {"batchsize": 100})
        if how == "process":
            batches = batches[2:3]
        for batch in batches:
            for shuffle in (False, 7):
                i += 1
                # --- combos -> Dataset
                r = make_runner()
                crop = r.Crop(name="rc{}".format(i), parent_dir=tmp, **batch)
                check(crop.farmer is r and crop.runner is r, "crop.farmer")
                crop.sow_combos(COMBOS, shuffle=shuffle, verbosity=0)
                check(crop.num_sown_batches == crop.num_batches, "sown batches")
                grow_somehow(crop, how, tmp)
                check(crop.is_ready_to_reap(), "ready")
                ds = crop.reap()
                same_ds(ds, direct, "runner combos {} {} {}".format(how, batch, shuffle))
                check(r.last_ds is ds, "runner.last_ds is the reaped ds")
                check(not os.path.exists(crop.location), "crop cleaned up")

        # --- combos -> DataFrame
        r = make_runner(fn_tab)
        crop = r.Crop(name="rdf" + how, parent_dir=tmp, num_batches=5)
        crop.sow_combos(COMBOS, verbosity=0)
        grow_somehow(crop, how, tmp)
        df = crop.reap_runner(r, to_df=True)
        same_df(df, direct_df, "runner to_df " + how)
        check(r._last_df is df, "runner._last_df is the reaped df")
        check(r._last_ds is None, "to_df reap leaves last_ds alone")
        check(not os.path.exists(crop.location), "crop cleaned up (df)")

        # --- cases
        r = make_runner()
        crop = r.Crop(name="rcases" + how, parent_dir=tmp, batchsize=2)
        crop.sow_cases(["a", "b"], CASES, verbosity=0)
        grow_somehow(crop, how, tmp)
        ds = crop.reap()
        same_ds(ds, direct_cases, "runner cases " + how)
        check(r.last_ds is ds, "runner.last_ds (cases)")

        # --- cases x combos, shuffled crop
        r = make_runner()
        crop = r.Crop(name="rmixed" + how, parent_dir=tmp, num_batches=4)
        crop.shuffle = 3
        crop.sow_cases(["a"], [(1,), (2,)], combos=(("b", [10, 20, 30]),), verbosity=0)
        grow_somehow(crop, how, tmp)
        ds = crop.reap()
        same_ds(ds, direct_mixed, "runner cases x combos " + how)

    # --- non float outputs
    r = make_runner(fn_flag)
    direct_flag = make_runner(fn_flag).run_combos(COMBOS)
    crop = r.Crop(name="rflag", parent_dir=tmp, batchsize=5)
    crop.sow_combos(COMBOS, verbosity=0)
    crop.grow_missing()
    same_ds(crop.reap(), direct_flag, "runner bool/str outputs")


def section_runner_reap_elsewhere(tmp):
    """sow here, grow in a 2nd process, reap in a 3rd: compare to direct."""
    direct = make_runner().run_combos(COMBOS)
    r = make_runner()
    crop = r.Crop(name="relse", parent_dir=tmp, num_batches=5)
    crop.sow_combos(COMBOS, verbosity=0)
    child("relse", tmp, "grow")
    out = os.path.join(tmp, "relse.pkl")
    child("relse", tmp, "reap", out)
    with open(out, "rb") as f:
        got = pickle.load(f)
    check(got["kind"] == "Runner", "farmer kind in child")
    same_ds(got["data"], direct, "runner reaped in another process")
    same_ds(got["last_ds"], direct, "runner last_ds in another process")
    check(not os.path.exists(crop.location), "crop cleaned up by child")


def section_incomplete(tmp):
    """allow_incomplete / wait / not-ready paths."""
    direct = make_runner().run_combos(COMBOS)
    r = make_runner()
    crop = r.Crop(name="rinc", parent_dir=tmp, num_batches=5)
    crop.sow_combos(COMBOS, verbosity=0)
    try:
        crop.reap()
        check(False, "reaping an ungrown crop must raise")
    except XYZError:
        check(True, "raises")
    check(r.last_ds is None, "failed reap does not set last_ds")
    crop.grow(1)
    crop.grow((3, 5))
    check(crop.missing_results() == (2, 4), "missing results")
    part = crop.reap(allow_incomplete=True)
    check(r.last_ds is part, "partial reap recorded")
    check(os.path.exists(crop.location), "incomplete reap keeps the crop")
    check(dict(part.sizes) == dict(direct.sizes), "partial sizes")
    notnull = part["s"].notnull()
    check(int(notnull.sum()) == 3 + 2 + 2, "partial count {}".format(int(notnull.sum())))
    check(bool((part["s"].where(notnull) == direct["s"].where(notnull)).where(notnull, True).all()),
          "partial values agree where present")
    check(bool(part["arr"].where(notnull).equals(direct["arr"].astype(float).where(notnull))),
          "partial internal-dim values agree where present")
    check(list(part.attrs.items()) == list(direct.attrs.items()), "partial attrs")
    crop.grow_missing()
    full = crop.reap(wait=True, clean_up=False)
    same_ds(full, direct, "wait=True reap")
    check(os.path.exists(crop.location), "clean_up=False keeps crop")
    again = Crop(name="rinc", parent_dir=tmp).reap()
    same_ds(again, direct, "re-reap from reloaded crop")
    check(not os.path.exists(crop.location), "finally cleaned up")


def _conflicting_runner():
    r = make_runner()
    r.resources = {"res": 2000}   # not recorded, but changes the data
    return r


def section_harvester(tmp, hows=("same", "reload", "process")):
    i = 0
    for how in hows:
        for overwrite in (None, True, False):
            for conflict in (False, True):
                if how == "process" and conflict != (overwrite is not None):
                    continue
                i += 1
                tag = "harvest {} ow={} conflict={}".format(how, overwrite, conflict)
                f1 = os.path.join(tmp, "direct{}.h5".format(i))
                f2 = os.path.join(tmp, "crop{}.h5".format(i))

                # direct
                h1 = Harvester(make_runner(), data_name=f1)
                h1.harvest_combos(COMBOS)
                h1b = Harvester(_conflicting_runner() if conflict else make_runner(), data_name=f1)
                err1 = None
                try:
                    h1b.harvest_combos(COMBOS2, overwrite=overwrite)
                except Exception as e:
                    err1 = type(e)

                # via crops
                h2 = Harvester(make_runner(), data_name=f2)
                crop = h2.Crop(name="hc{}a".format(i), parent_dir=tmp, num_batches=5)
                check(crop.runner is h2.runner, "crop.runner")
                crop.sow_combos(COMBOS, verbosity=0)
                grow_somehow(crop, how, tmp)
                ds = crop.reap()
                same_ds(ds, h1.last_ds, tag + " first ds")
                check(h2.last_ds is ds, tag + " last_ds")
                check(not os.path.exists(crop.location), tag + " cleaned")

                h2b = Harvester(_conflicting_runner() if conflict else make_runner(), data_name=f2)
                crop = h2b.Crop(name="hc{}b".format(i), parent_dir=tmp, batchsize=3)
                crop.sow_combos(COMBOS2, shuffle=2, verbosity=0)
                grow_somehow(crop, how, tmp)
                err2 = None
                try:
                    ds = crop.reap(overwrite=overwrite)
                except Exception as e:
                    err2 = type(e)
                check(err1 is err2, tag + " same error {} {}".format(err1, err2))
                check((err1 is not None) == (conflict and overwrite is None), tag + " error iff conflict")
                same_ds(h2b.last_ds, h1b.last_ds, tag + " second last_ds")
                if err2 is None:
                    check(h2b.last_ds is ds, tag + " second last_ds is ds")
                    check(not os.path.exists(crop.location), tag + " cleaned 2")
                    same_ds(h2b.full_ds, h1b.full_ds, tag + " full_ds")
                else:
                    # failed sync must not have destroyed the sown/grown data
                    check(os.path.exists(crop.location), tag + " crop kept on failed sync")
                    crop.delete_all()
                d1 = xr.load_dataset(f1, engine="h5netcdf")
                d2 = xr.load_dataset(f2, engine="h5netcdf")
                same_ds(d2, d1, tag + " on disk")

    # cases + sync=False + no data_name
    h1 = Harvester(make_runner())
    h1.harvest_cases(CASES)
    h2 = Harvester(make_runner())
    crop = h2.Crop(name="hcases", parent_dir=tmp, batchsize=2)
    crop.sow_cases(["a", "b"], CASES, verbosity=0)
    crop.grow_missing()
    ds = crop.reap(sync=False)
    same_ds(ds, h1.last_ds, "harvester cases sync=False")
    check(h2.last_ds is ds, "last_ds set even if sync=False")
    check(h2._full_ds is None, "sync=False does not touch full_ds")
    check(not os.path.exists(crop.location), "cleaned (sync=False)")

    crop = h2.Crop(name="hcases2", parent_dir=tmp, batchsize=2)
    crop.sow_cases(["a", "b"], CASES, verbosity=0)
    crop.grow_missing()
    ds = crop.reap()
    same_ds(h2.full_ds, h1.full_ds, "in-memory only harvester full_ds")
    check(h2.full_ds is not ds, "full_ds is a distinct copy")


def section_harvester_reap_elsewhere(tmp):
    f1 = os.path.join(tmp, "edirect.h5")
    f2 = os.path.join(tmp, "ecrop.h5")
    h1 = Harvester(make_runner(), data_name=f1)
    h1.harvest_combos(COMBOS)
    h1.harvest_cases(CASES[2:3] + CASES[4:])
    for k, sow in enumerate(("combos", "cases")):
        h2 = Harvester(make_runner(), data_name=f2)
        name = "helse{}".format(k)
        crop = h2.Crop(name=name, parent_dir=tmp, num_batches=2)
        if sow == "combos":
            crop.sow_combos(COMBOS, verbosity=0)
        else:
            crop.sow_cases(["a", "b"], CASES[2:3] + CASES[4:], verbosity=0)
        child(name, tmp, "growfirst")
        child(name, tmp, "grow")
        out = os.path.join(tmp, name + ".pkl")
        child(name, tmp, "reap", out)
        with open(out, "rb") as f:
            got = pickle.load(f)
        check(got["kind"] == "Harvester", "farmer kind in child")
        same_ds(got["data"], got["last_ds"], "child data is last_ds")
        check(not os.path.exists(crop.location), "crop cleaned up by child")
    same_ds(got["data"], h1.last_ds, "harvester reaped in another process")
    same_ds(xr.load_dataset(f2, engine="h5netcdf"),
            xr.load_dataset(f1, engine="h5netcdf"),
            "harvester on-disk data after reaping in another process")


def section_sampler(tmp, hows=("same", "reload", "process")):
    dc = {"a": [1, 2, 3], "b": [10, 20]}
    for k, how in enumerate(hows):
        f1 = os.path.join(tmp, "sdirect{}.pkl".format(k))
        f2 = os.path.join(tmp, "scrop{}.pkl".format(k))
        np.random.seed(42 + k)
        s1 = Sampler(make_runner(fn_tab), data_name=f1, default_combos=dc)
        df1a = s1.sample_combos(7)
        df1b = s1.sample_combos(4, combos={"b": [50, 60]})

        np.random.seed(42 + k)
        s2 = Sampler(make_runner(fn_tab), data_name=f2, default_combos=dc)
        crop = s2.Crop(name="sc{}a".format(k), parent_dir=tmp, batchsize=3)
        crop.sow_samples(7, verbosity=0)
        grow_somehow(crop, how, tmp)
        dfa = crop.reap()
        same_df(dfa, df1a, "sampler first df " + how)
        check(s2.last_df is dfa, "sampler.last_df")
        check(s2.runner._last_df is dfa, "sampler.runner._last_df")
        check(not os.path.exists(crop.location), "sampler crop cleaned")

        crop = s2.Crop(name="sc{}b".format(k), parent_dir=tmp, num_batches=3)
        crop.sow_samples(4, combos={"b": [50, 60]}, verbosity=0)
        grow_somehow(crop, how, tmp)
        dfb = crop.reap()
        same_df(dfb, df1b, "sampler second df " + how)
        check(s2.last_df is dfb, "sampler.last_df 2")
        same_df(s2.full_df, s1.full_df, "sampler full_df " + how)
        same_df(pd.read_pickle(f2), pd.read_pickle(f1), "sampler on disk " + how)
        check(len(s2.full_df) == 11, "sampler accumulated rows")

    # sync=False leaves everything alone, but still returns the frame
    np.random.seed(7)
    s1 = Sampler(make_runner(fn_tab), default_combos=dc)
    d1 = s1.sample_combos(5)
    np.random.seed(7)
    s2 = Sampler(make_runner(fn_tab), default_combos=dc)
    crop = s2.Crop(name="snosync", parent_dir=tmp)
    crop.sow_samples(5, verbosity=0)
    crop.grow_missing()
    d2 = crop.reap(sync=False)
    same_df(d2, d1, "sampler sync=False")
    check(s2._full_df is None and s2.last_df is None, "sync=False: sampler untouched")
    check(not os.path.exists(crop.location), "cleaned (sampler sync=False)")

    # in-memory only sampler, incomplete then complete
    np.random.seed(7)
    crop = s2.Crop(name="smem", parent_dir=tmp, batchsize=2)
    crop.sow_samples(5, verbosity=0)
    crop.grow_missing()
    d3 = crop.reap()
    same_df(d3, d1, "sampler in-memory")
    same_df(s2.full_df, s1.full_df, "sampler in-memory full_df")
    check(s2.full_df is not d3, "full_df distinct from last_df")


def section_sampler_reap_elsewhere(tmp):
    dc = {"a": [1, 2, 3], "b": [10, 20]}
    f1 = os.path.join(tmp, "sedirect.pkl")
    f2 = os.path.join(tmp, "secrop.pkl")
    np.random.seed(5)
    s1 = Sampler(make_runner(fn_tab), data_name=f1, default_combos=dc)
    s1.sample_combos(3)
    d1 = s1.sample_combos(6)
    np.random.seed(5)
    for k, n in enumerate((3, 6)):
        s2 = Sampler(make_runner(fn_tab), data_name=f2, default_combos=dc)
        name = "selse{}".format(k)
        crop = s2.Crop(name=name, parent_dir=tmp, num_batches=2)
        crop.sow_samples(n, verbosity=0)
        child(name, tmp, "grow")
        out = os.path.join(tmp, name + ".pkl")
        child(name, tmp, "reap", out)
        with open(out, "rb") as f:
            got = pickle.load(f)
        check(got["kind"] == "Sampler", "farmer kind in child")
        check(not os.path.exists(crop.location), "crop cleaned by child")
    same_df(got["data"], d1, "sampler reaped in another process")
    same_df(got["farmer_last_df"], d1, "sampler last_df in another process")
    same_df(got["last_df"], d1, "sampler runner last_df in another process")
    same_df(pd.read_pickle(f2), pd.read_pickle(f1), "sampler on-disk, other process")


def section_reaper(tmp):
    """The Reaper itself, and reaps that wait for / tolerate missing results."""
    import threading
    import time
    from xyzpy.gen.cropping import Reaper, write_to_disk, RSLT_NM

    direct = make_runner().run_combos(COMBOS)
    flat = [fn(a, b, c=2.0, t=[0.0, 1.0, 2.0], res=1000)
            for a in COMBOS["a"] for b in COMBOS["b"]]

    def eq(x, y):
        return x[0] == y[0] and np.array_equal(x[1], y[1])

    # --- plain sequential load, batches with a remainder (3, 3, 2, 2, 2)
    r = make_runner()
    crop = r.Crop(name="rp", parent_dir=tmp, num_batches=5)
    crop.sow_combos(COMBOS, verbosity=0)
    check((crop.batchsize, crop._batch_remainder) == (2, 2), "remainder batches")
    crop.grow_missing()
    with Reaper(crop, num_batches=5) as reap_fn:
        got = [reap_fn(a=None) for _ in range(12)]
    check(all(eq(x, y) for x, y in zip(got, flat)), "reaper yields results in sown order")

    # leaving results behind is an error
    try:
        with Reaper(crop, num_batches=5) as reap_fn:
            reap_fn()
        check(False, "unreaped results must raise")
    except XYZError as e:
        check("Not all results reaped" in str(e), "not all reaped message")
    # asking for too many as well
    try:
        with Reaper(crop, num_batches=2) as reap_fn:
            for _ in range(7):
                reap_fn()
        check(False, "too many must raise")
    except StopIteration:
        check(True, "raises")

    # --- default results for each possible set of missing batches
    sentinel = ("missing",)
    sizes = {1: 3, 2: 3, 3: 2, 4: 2, 5: 2}
    resdir = os.path.join(crop.location, "results")
    for missing in ((1,), (2, 3), (5,), (1, 2, 3, 4), (3, 4, 5)):
        for b in missing:
            os.rename(os.path.join(resdir, RSLT_NM.format(b)),
                      os.path.join(tmp, "hold-{}".format(b)))
        check(crop.missing_results() == missing, "missing {}".format(missing))
        for default in (sentinel, None):
            with Reaper(crop, num_batches=5, default_result=default) as reap_fn:
                got = [reap_fn() for _ in range(12)]
            k = 0
            for b in range(1, 6):
                for _ in range(sizes[b]):
                    if b in missing:
                        check(got[k] is default, "default in batch {}".format(b))
                    else:
                        check(eq(got[k], flat[k]), "value in batch {}".format(b))
                    k += 1
        # no default given -> a missing file is an error
        try:
            with Reaper(crop, num_batches=5) as reap_fn:
                [reap_fn() for _ in range(12)]
            check(False, "missing file without default must raise")
        except FileNotFoundError:
            check(True, "raises")
        # whole-crop view: nan filled Dataset
        part = crop.reap(allow_incomplete=True)
        check(r.last_ds is part, "partial recorded")
        n_present = sum(sizes[b] for b in sizes if b not in missing)
        check(int(part["s"].notnull().sum()) == n_present, "present count")
        check(int(part["arr"].notnull().sum()) == 3 * n_present, "present count internal dim")
        mask = part["s"].notnull()
        check(bool((part["s"].where(mask, 0) == direct["s"].where(mask, 0)).all()),
              "present values")
        for b in missing:
            os.rename(os.path.join(tmp, "hold-{}".format(b)),
                      os.path.join(resdir, RSLT_NM.format(b)))

    # --- an empty result file is rejected, with or without waiting
    good = os.path.join(resdir, RSLT_NM.format(2))
    os.rename(good, os.path.join(tmp, "hold"))
    write_to_disk((), good)
    for wait in (False, True):
        try:
            with Reaper(crop, num_batches=5, wait=wait) as reap_fn:
                [reap_fn() for _ in range(12)]
            check(False, "empty result must raise")
        except ValueError as e:
            check("contains no data" in str(e), "empty result message")
    os.remove(good)
    # a directory in place of the file, when waiting
    os.mkdir(good)
    try:
        with Reaper(crop, num_batches=5, wait=True) as reap_fn:
            [reap_fn() for _ in range(12)]
        check(False, "directory must raise")
    except ValueError as e:
        check("is not a file" in str(e), "not a file message")
    os.rmdir(good)
    os.rename(os.path.join(tmp, "hold"), good)
    same_ds(crop.reap(), direct, "after all that, the full reap")

    # --- wait=True while another thread / process grows, all farmer kinds
    dc = {"a": [1, 2, 3], "b": [10, 20]}
    for k, kind in enumerate(("Runner", "Harvester", "Sampler")):
        for grower in ("thread", "process"):
            name = "rw{}{}".format(kind, grower)
            f1 = os.path.join(tmp, name + "-direct")
            f2 = os.path.join(tmp, name + "-crop")
            if kind == "Runner":
                far = make_runner()
                expect = direct
            elif kind == "Harvester":
                h1 = Harvester(make_runner(), data_name=f1 + ".h5")
                h1.harvest_combos(COMBOS)
                expect = h1.last_ds
                far = Harvester(make_runner(), data_name=f2 + ".h5")
            else:
                np.random.seed(k)
                s1 = Sampler(make_runner(fn_tab), data_name=f1 + ".pkl", default_combos=dc)
                expect = s1.sample_combos(9)
                far = Sampler(make_runner(fn_tab), data_name=f2 + ".pkl", default_combos=dc)
            crop = far.Crop(name=name, parent_dir=tmp, num_batches=4)
            if kind == "Sampler":
                np.random.seed(k)
                crop.sow_samples(9, verbosity=0)
            else:
                crop.sow_combos(COMBOS, shuffle=5, verbosity=0)

            if grower == "process":
                # with one result present a nan stand-in can be inferred, but
                # a waiting reap must still wait for the real results
                crop.grow(2)
            if grower == "thread":
                def work(crop=crop):
                    for b in (3, 1, 4, 2):
                        time.sleep(0.15)
                        Crop(name=crop.name, parent_dir=tmp).grow(b)
                th = threading.Thread(target=work)
                th.start()
            else:
                th = subprocess.Popen(
                    [sys.executable, "-c", CHILD, name, tmp, "grow", "-"],
                    cwd=os.getcwd(), stdout=subprocess.DEVNULL)
            check(not crop.is_ready_to_reap(), "not ready when the waiting reap starts")
            # allow_incomplete must not cut a waiting reap short
            data = crop.reap(wait=True, allow_incomplete=(grower == "process"),
                             clean_up=True)
            if grower == "thread":
                th.join()
            else:
                check(th.wait() == 0, "grower process ok")
            if kind == "Sampler":
                same_df(data, expect, name)
                check(far.last_df is data, name + " last_df")
                same_df(pd.read_pickle(f2 + ".pkl"), pd.read_pickle(f1 + ".pkl"), name + " disk")
            else:
                same_ds(data, expect, name)
                check(far.last_ds is data, name + " last_ds")
                if kind == "Harvester":
                    same_ds(xr.load_dataset(f2 + ".h5", engine="h5netcdf"),
                            xr.load_dataset(f1 + ".h5", engine="h5netcdf"), name + " disk")
            check(not os.path.exists(crop.location), name + " cleaned")

    # --- incomplete harvest / sample: nan rows make it in exactly as sized
    h = Harvester(make_runner(), data_name=os.path.join(tmp, "inc.h5"))
    crop = h.Crop(name="rpinc", parent_dir=tmp, num_batches=5)
    crop.sow_combos(COMBOS, verbosity=0)
    crop.grow((3, 4, 5))
    part = crop.reap(allow_incomplete=True)
    check(int(part["s"].notnull().sum()) == 6, "harvester partial count")
    check(os.path.exists(crop.location), "harvester partial keeps crop")
    same_ds(xr.load_dataset(h.data_name, engine="h5netcdf"), part, "partial on disk")
    crop.grow_missing()
    full = crop.reap(overwrite=True)
    same_ds(full, direct, "harvester completed")
    same_ds(xr.load_dataset(h.data_name, engine="h5netcdf"), direct, "completed on disk")

    np.random.seed(3)
    s1 = Sampler(make_runner(fn_tab), default_combos=dc)
    d1 = s1.sample_combos(7)
    np.random.seed(3)
    s2 = Sampler(make_runner(fn_tab), default_combos=dc)
    crop = s2.Crop(name="rpsinc", parent_dir=tmp, num_batches=3)  # sizes 3, 2, 2
    crop.sow_samples(7, verbosity=0)
    crop.grow((2, 3))
    part = crop.reap(allow_incomplete=True)
    present = [not np.isnan(float(x)) for x in part["s"]]
    check(len(part) == 7 and present == [False] * 3 + [True] * 4, "sampler partial")
    check(list(part["a"]) == list(d1["a"]) and list(part["b"]) == list(d1["b"]), "sampler partial coords")
    same_df(part.iloc[3:].reset_index(drop=True).astype(d1.dtypes.to_dict()),
            d1.iloc[3:].reset_index(drop=True), "sampler partial rows")
    same_df(s2.full_df, part, "sampler partial full_df")
    check(s2.last_df is part, "sampler partial last_df")


if __name__ == "__main__":
    with tempfile.TemporaryDirectory() as tmp:
        section_reaper(tmp)
        section_runner(tmp, hows=("same", "process"))
        section_runner_reap_elsewhere(tmp)
        section_incomplete(tmp)
        section_harvester(tmp, hows=("same", "process"))
        section_harvester_reap_elsewhere(tmp)
        section_sampler(tmp, hows=("same", "process"))
        section_sampler_reap_elsewhere(tmp)
    print("checks:", NCHECK[0])
    print("PASS")
