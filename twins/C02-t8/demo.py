"""Demo for the t8 twin of C02 (sparse cases): behaviour checks that must pass
both on the unmodified tree and with the helper-extracting refactoring of
``combo_runner_core`` applied.

Run as:  cd <worktree> && /venv/bin/python /path/to/demo.py
"""
import os
import sys

sys.path.insert(0, os.getcwd())

import itertools
import math
import random
import shutil
import tempfile
import warnings
from concurrent.futures import ThreadPoolExecutor

import numpy as np
import xarray as xr

import xyzpy
from xyzpy.gen import combo_runner as cr
from xyzpy.gen.combo_runner import combo_runner_core

warnings.filterwarnings("ignore")

assert os.path.abspath(xyzpy.__file__).startswith(os.getcwd()), xyzpy.__file__

FAILURES = []


def check(cond, msg):
    if not cond:
        FAILURES.append(msg)


def is_missing(x):
    if x is None:
        return True
    if isinstance(x, str):
        return False
    try:
        return bool(np.all(np.isnan(np.asarray(x, dtype=float))))
    except (TypeError, ValueError):
        return False


class Recorder:
    """Wrap a function, recording every call's keyword arguments."""

    def __init__(self, fn):
        self.fn = fn
        self.calls = []

    def __call__(self, **kws):
        self.calls.append(dict(kws))
        return self.fn(**kws)


def requested_settings(cases, combos):
    names = list(combos)
    out = []
    for case in cases:
        for vals in itertools.product(*(combos[n] for n in names)):
            out.append({**case, **dict(zip(names, vals))})
    return out


def same_calls(calls, expected):
    def key(d):
        return tuple(sorted((k, repr(v)) for k, v in d.items()))

    return sorted(map(key, calls)) == sorted(map(key, expected))


# --------------------------------------------------------------------------- #
# 1. raw nested output, cases (+ sub-grid), every result kind, shuffled or not


def f_num(a, b, c=0):
    return 100 * a + 10 * b + c


def f_bool(a, b, c=0):
    return (a + b + c) % 2 == 0


def f_str(a, b, c=0):
    return f"{a}-{b}-{c}"


def f_list(a, b, c=0):
    return [[a, b, c], [c, b, a]]


def f_tuple(a, b, c=0):
    return f_num(a, b, c), f_bool(a, b, c), f_str(a, b, c)


CASES = [{"a": 3, "b": 1}, {"b": 2, "a": 1}, {"a": 2, "b": 2}]  # mixed order
GRID = {"c": [7, 5]}


def nested_get(res, idx):
    for i in idx:
        res = res[i]
    return res


def check_nested(res, fn, axes, asked, tag):
    names = [n for n, _ in axes]
    for idx in itertools.product(*(range(len(v)) for _, v in axes)):
        point = {n: v[i] for (n, v), i in zip(axes, idx)}
        got = nested_get(res, idx)
        if any(point == s for s in asked):
            want = fn(**point)
            ok = (got == want)
            check(ok, f"{tag}: wrong value at {point}: {got!r} != {want!r}")
        else:
            check(is_missing(got), f"{tag}: {point} should be missing: {got!r}")
            # shaped like a real result
            if fn is f_list:
                check(np.shape(got) == (2, 3), f"{tag}: bad blank shape")
            if fn in (f_bool, f_str):
                check(got is None, f"{tag}: blank should be None: {got!r}")
    return names


for shuffle in (False, True, 7):
    for grid in ({}, GRID):
        asked = requested_settings(CASES, grid)
        axes = [("a", [1, 2, 3]), ("b", [1, 2])] + [
            (k, list(v)) for k, v in grid.items()
        ]
        for fn in (f_num, f_bool, f_str, f_list):
            rec = Recorder(fn)
            res = xyzpy.combo_runner(
                rec, combos=grid, cases=CASES, shuffle=shuffle, verbosity=0
            )
            tag = f"nested[{fn.__name__}, grid={bool(grid)}, sh={shuffle}]"
            check(same_calls(rec.calls, asked), f"{tag}: wrong set of calls")
            check(len(rec.calls) == len(asked), f"{tag}: call count")
            check_nested(res, fn, axes, asked, tag)

        # split tuple output: one nested grid per output
        rec = Recorder(f_tuple)
        outs = xyzpy.combo_runner(
            rec, combos=grid, cases=CASES, split=True, shuffle=shuffle,
            verbosity=0,
        )
        check(len(outs) == 3, "split: three outputs expected")
        check(len(rec.calls) == len(asked), "split: call count")
        for out, fn in zip(outs, (f_num, f_bool, f_str)):
            check_nested(out, fn, axes, asked, f"split[{fn.__name__}]")

# call order when not shuffled: cases outermost, sub-grid innermost
rec = Recorder(f_num)
xyzpy.combo_runner(rec, combos=GRID, cases=CASES, verbosity=0)
check(rec.calls == requested_settings(CASES, GRID), "unshuffled call order")

# constants are passed to every call and win over nothing else
rec = Recorder(f_num)
xyzpy.combo_runner(rec, cases=CASES, constants={"c": 4}, verbosity=0)
check(all(k["c"] == 4 for k in rec.calls) and len(rec.calls) == 3,
      "constants not passed")

# --------------------------------------------------------------------------- #
# 2. shuffling: call order and the global random state it leaves behind

for shuffle in (True, 2, 11):
    asked = requested_settings(CASES, GRID)
    random.seed(int(shuffle))
    order = list(range(len(asked)))
    random.shuffle(order)
    next_random = random.random()

    rec = Recorder(f_num)
    flat = xyzpy.case_runner(
        rec, None, CASES, combos=GRID, shuffle=shuffle, verbosity=0
    )
    check(random.random() == next_random, "random state after shuffle")
    check(rec.calls == [asked[i] for i in order], "shuffled call order")
    check(flat == tuple(f_num(**s) for s in asked),
          "flat results must come back in requested order")

# --------------------------------------------------------------------------- #
# 3. flat / info / dataframe labelling

info = {}
rec = Recorder(f_num)
flat = combo_runner_core(
    rec, combos=(("c", [7, 5]),), constants={}, cases=CASES, flat=True,
    shuffle=3, verbosity=0, info=info,
)
asked = requested_settings(CASES, GRID)
check(list(info) == ["settings"], f"flat info keys: {list(info)}")
check(list(info["settings"]) == asked, "flat info settings order")
check(flat == tuple(f_num(**s) for s in asked), "flat results order")

info = {}
combo_runner_core(
    f_num, combos=(("c", [7, 5]),), constants={}, cases=CASES,
    verbosity=0, info=info,
)
check(info == {"fn_args": ("a", "b", "c"),
               "all_combo_values": ([1, 2, 3], [1, 2], [7, 5])},
      f"nested info: {info}")

for shuffle in (False, 5):
    df = xyzpy.case_runner_to_df(
        f_tuple, ("a", "b"), [(3, 1), (1, 2), (2, 2)], combos=GRID,
        var_names=["n", "even", "s"], shuffle=shuffle, verbosity=0,
    )
    check(len(df) == 6, "df rows")
    for _, row in df.iterrows():
        want = f_tuple(int(row["a"]), int(row["b"]), int(row["c"]))
        check((row["n"], bool(row["even"]), row["s"]) == want,
              f"df row mislabelled (shuffle={shuffle}): {dict(row)}")

# --------------------------------------------------------------------------- #
# 4. datasets: numbers / bool / str / inner dims / dict results


def check_ds(ds, asked, tag):
    axes = [(d, list(ds[d].values)) for d in ("a", "b", "c") if d in ds.dims]
    for vals in itertools.product(*(v for _, v in axes)):
        point = {n: (v.item() if hasattr(v, "item") else v)
                 for (n, _), v in zip(axes, vals)}
        sel = ds.sel(point)
        hit = any(point == s for s in asked)
        n, even, s = f_tuple(**point)
        if hit:
            check(sel["n"].item() == n, f"{tag}: n at {point}")
            check(sel["even"].item() is even, f"{tag}: even at {point}")
            check(sel["s"].item() == s, f"{tag}: s at {point}")
        else:
            check(math.isnan(sel["n"].item()), f"{tag}: n blank at {point}")
            check(sel["even"].item() is None, f"{tag}: even blank at {point}")
            # (xarray itself stores a missing str in an object array as nan)
            check(is_missing(sel["s"].item()), f"{tag}: s blank at {point}")


for shuffle in (False, 4):
    rec = Recorder(f_tuple)
    ds = xyzpy.case_runner_to_ds(
        rec, None, CASES, combos=GRID, var_names=["n", "even", "s"],
        shuffle=shuffle, verbosity=0,
    )
    asked = requested_settings(CASES, GRID)
    check(same_calls(rec.calls, asked), "ds: wrong set of calls")
    check(list(ds["a"].values) == [1, 2, 3], "ds: a is the sorted union")
    check(list(ds["b"].values) == [1, 2], "ds: b is the sorted union")
    check(list(ds["c"].values) == [7, 5], "ds: grid order kept")
    check(ds["even"].dtype == object and ds["s"].dtype == object, "ds dtypes")
    check_ds(ds, asked, f"ds[sh={shuffle}]")


def f_inner(a, b):
    return a + b, [a * t + b for t in (0.0, 0.5, 1.0)]


r = xyzpy.Runner(
    f_inner, var_names=["sum", "ts"], var_dims={"ts": ["t"]},
    var_coords={"t": [0.0, 0.5, 1.0]},
)
ds = r.run_cases([{"a": 1, "b": 10}, {"b": 20, "a": 2}], verbosity=0)
check(ds["ts"].shape == (2, 2, 3), "inner-dim shape")
check(np.allclose(ds["ts"].sel(a=2, b=20).values, [20, 21, 22]), "ts value")
check(np.isnan(ds["ts"].sel(a=1, b=20).values).all(), "ts blank")
check(float(ds["sum"].sel(a=1, b=10)) == 11 and
      np.isnan(float(ds["sum"].sel(a=2, b=10))), "sum with inner dims")


def f_dict(a, b):
    return {"x": a * b, "y": ("t", [a, b, a + b])}


ds = xyzpy.case_runner_to_ds(
    f_dict, None, [{"a": 1, "b": 5}, {"a": 2, "b": 6}], var_names=None,
    verbosity=0,
)
check(float(ds["x"].sel(a=2, b=6)) == 12, "dict result value")
check(np.isnan(float(ds["x"].sel(a=1, b=6))), "dict result blank")
check(np.isnan(ds["y"].sel(a=2, b=5).values).all()
      and ds["y"].sel(a=2, b=5).shape == (3,), "dict result blank shape")
check(list(ds["y"].sel(a=1, b=5).values) == [1, 5, 6], "dict result array")

# --------------------------------------------------------------------------- #
# 5. union of unsortable case values, four case arguments


def f4(a, b, c, d):
    return f"{a}{b}{c}{d}"


info = {}
res = combo_runner_core(
    f4, combos=(), constants={}, verbosity=0, info=info,
    cases=[{"a": "x", "b": 1, "c": 1.5, "d": None},
           {"a": 2, "b": 1, "c": 2.5, "d": None}],
)
av, bv, cv, dv = info["all_combo_values"]
check(sorted(map(str, av)) == ["2", "x"] and isinstance(av, list), "mixed a")
check(bv == [1] and cv == [1.5, 2.5] and dv == [None], "other unions")
for i, a in enumerate(av):
    for k, c in enumerate(cv):
        got = res[i][0][k][0]
        if (a, c) in (("x", 1.5), (2, 2.5)):
            check(got == f4(a, 1, c, None), "4-arg value")
        else:
            check(got is None, "4-arg blank")

# --------------------------------------------------------------------------- #
# 6. an argument in both cases and grid is rejected before anything runs

for kwargs in (
    dict(combos={"b": [1, 2]}, cases=[{"a": 1, "b": 1}]),
    dict(combos={"a": [1], "c": [1]}, cases=[{"a": 1, "b": 1}]),
):
    rec = Recorder(f_num)
    try:
        xyzpy.combo_runner(rec, verbosity=0, **kwargs)
        check(False, "overlap not rejected")
    except ValueError as e:
        check("both" in str(e), f"overlap message: {e}")
    check(rec.calls == [], "function ran although overlap was rejected")

rec = Recorder(f_num)
try:
    xyzpy.case_runner_to_ds(rec, ("a", "b"), [(1, 1)], combos={"a": [1]},
                            var_names="n", verbosity=0)
    check(False, "overlap not rejected (to_ds)")
except ValueError:
    pass
check(rec.calls == [], "function ran although overlap was rejected (to_ds)")

# a later case lacking an argument -> KeyError before anything runs
rec = Recorder(f_num)
try:
    xyzpy.combo_runner(rec, cases=[{"a": 1, "b": 1}, {"a": 2}], verbosity=0)
    check(False, "missing case key not rejected")
except KeyError:
    pass
check(rec.calls == [], "function ran although a case was incomplete")

# --------------------------------------------------------------------------- #
# 7. pools: custom executor, and how the default pool is sized

with ThreadPoolExecutor(2) as pool:
    rec = Recorder(f_num)
    res = xyzpy.combo_runner(
        rec, combos=GRID, cases=CASES, executor=pool, shuffle=2, verbosity=0
    )
    asked = requested_settings(CASES, GRID)
    check(same_calls(rec.calls, asked), "executor: calls")
    check_nested(res, f_num, [("a", [1, 2, 3]), ("b", [1, 2]), ("c", [7, 5])],
                 asked, "executor")

asked_workers = []
orig_get = cr.get_reusable_executor
with ThreadPoolExecutor(2) as pool:

    def fake_get(n=None):
        asked_workers.append(n)
        return pool

    cr.get_reusable_executor = fake_get
    try:
        for par, nw in ((2, None), (True, None), (True, 3), (2, 3), (0, 4),
                        (False, 5)):
            res = xyzpy.combo_runner(
                f_num, cases=CASES, parallel=par, num_workers=nw, verbosity=0
            )
            check(res[2][0] == f_num(3, 1) and res[0][1] == f_num(1, 2)
                  and is_missing(res[0][0]), "pool results")
    finally:
        cr.get_reusable_executor = orig_get
check(asked_workers == [2, None, 3, 3, 4, 5], f"pool sizes: {asked_workers}")


class NoPool:
    pass


try:
    xyzpy.combo_runner(f_num, cases=CASES, executor=NoPool(), verbosity=0)
    check(False, "bad executor accepted")
except TypeError:
    pass

# --------------------------------------------------------------------------- #
# 8. on-disk crop with sparse cases: sow -> grow -> reap

tmp = tempfile.mkdtemp()
try:
    runner = xyzpy.Runner(f_tuple, var_names=["n", "even", "s"])
    crop = runner.Crop(name="sparse", parent_dir=tmp, batchsize=2)
    crop.sow_combos(GRID, cases=CASES, shuffle=3, verbosity=0)
    check(crop.num_batches == 3, f"num_batches {crop.num_batches}")
    batch_files = sorted(os.listdir(os.path.join(crop.location, "batches")))
    check(len(batch_files) == 3, f"batch files: {batch_files}")
    crop.grow_missing(verbosity=0)
    ds = crop.reap(clean_up=True)
    check_ds(ds, requested_settings(CASES, GRID), "crop")
    check(not os.path.exists(crop.location), "crop not cleaned up")

    # overlap: nothing is sown
    crop2 = runner.Crop(name="clash", parent_dir=tmp, batchsize=2)
    try:
        crop2.sow_combos({"a": [1]}, cases=[{"a": 1, "b": 2}], verbosity=0)
        check(False, "crop overlap not rejected")
    except ValueError:
        pass
    bdir = os.path.join(crop2.location, "batches")
    check(not os.path.isdir(bdir) or os.listdir(bdir) == [],
          "batches written although overlap was rejected")
finally:
    shutil.rmtree(tmp, ignore_errors=True)

# --------------------------------------------------------------------------- #

if FAILURES:
    print("FAIL")
    for m in FAILURES[:20]:
        print("  -", m)
    sys.exit(1)

print("PASS")
