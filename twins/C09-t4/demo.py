"""Demo / check for property C09 (partial reaps), aimed at the ``Reaper`` class
of ``xyzpy/gen/cropping.py`` (the stateful function which hands out the results
of finished batches and stand-ins for unfinished ones).

Run as:  cd <worktree> && /venv/bin/python /path/to/demo.py
Prints PASS and exits 0 if everything behaves as the property says.
"""

import os
import sys

sys.path.insert(0, os.getcwd())

import itertools
import pickle
import shutil
import tempfile
import threading
import time
import traceback

import numpy as np
import xarray as xr

import xyzpy
from xyzpy import Crop, combo_runner, combo_runner_to_ds
from xyzpy.gen import cropping
from xyzpy.gen.cropping import Reaper
from xyzpy.utils import XYZError

assert os.path.dirname(os.path.abspath(xyzpy.__file__)) == os.path.join(
    os.path.abspath(os.getcwd()), "xyzpy"
), xyzpy.__file__


# ------------------------------ functions --------------------------------- #


def f_scalar(a, b):
    return 10 * a + b


def f_float(a, b):
    return a / 4 + b


def f_array(a, b):
    return np.arange(3) * a + b


def f_bool(a, b):
    return (a + b) % 2 == 0


def f_str(a, b):
    return "{}-{}".format(a, b)


def f_multi(a, b):
    return a + b, np.arange(2.0) * a - b


def f_ds(a, b):
    return xr.Dataset({"x": ("t", np.arange(3) * a + b)})


NAN0 = np.broadcast_to(np.nan, ())

# fn -> (placeholder in a raw reap, var_names, var_dims, DataFrame possible)
FNS = {
    f_scalar: (np.nan, "x", None, True),
    f_float: (np.nan, "x", None, True),
    f_array: ((NAN0, NAN0, NAN0), "x", {"x": ["t"]}, False),
    f_bool: (None, "x", None, True),
    f_str: (None, "x", None, True),
    f_multi: (
        (NAN0, np.broadcast_to(np.nan, (2,))),
        ["s", "v"],
        {"v": ["t"]},
        False,
    ),
    f_ds: (
        xr.Dataset({"x": ("t", np.full(3, np.nan))}),
        None,
        None,
        False,
    ),
}

A = [1, 2]
B = [10, 20, 30]
COMBOS = (("a", A), ("b", B))
B7 = [10, 20, 30, 40, 50, 60, 70]

NCHECKS = [0]


def check(cond, msg="check failed"):
    NCHECKS[0] += 1
    if not cond:
        raise AssertionError(msg)


# ------------------------------- helpers ---------------------------------- #


def same(x, y):
    """Deep, type-strict, nan-aware equality."""
    if isinstance(x, xr.Dataset) or isinstance(y, xr.Dataset):
        return (
            isinstance(x, xr.Dataset)
            and isinstance(y, xr.Dataset)
            and x.identical(y)
            and all(x[k].dtype == y[k].dtype for k in x.data_vars)
        )
    if isinstance(x, (tuple, list)) or isinstance(y, (tuple, list)):
        return (
            type(x) is type(y)
            and len(x) == len(y)
            and all(same(p, q) for p, q in zip(x, y))
        )
    if x is None or y is None:
        return x is None and y is None
    if isinstance(x, str) or isinstance(y, str):
        return type(x) is type(y) and x == y
    xa, ya = np.asarray(x), np.asarray(y)
    if isinstance(x, np.ndarray) != isinstance(y, np.ndarray):
        return False
    if not isinstance(x, np.ndarray) and type(x) is not type(y):
        return False
    return (
        xa.shape == ya.shape
        and xa.dtype == ya.dtype
        and bool(np.array_equal(xa, ya, equal_nan=xa.dtype.kind == "f"))
    )


def snapshot(location):
    """Every file under the crop directory with its exact contents."""
    snap = {}
    for root, dirs, files in os.walk(location):
        for d in dirs:
            snap[os.path.relpath(os.path.join(root, d), location) + "/"] = None
        for f in files:
            p = os.path.join(root, f)
            with open(p, "rb") as fh:
                snap[os.path.relpath(p, location)] = fh.read()
    return snap


def batch_of_each_setting(crop):
    """Map (a, b) -> batch number, read off the sown batch files."""
    where = {}
    for i in range(1, crop.num_batches + 1):
        fname = os.path.join(
            crop.location, "batches", "xyz-batch-{}.jbdmp".format(i)
        )
        with open(fname, "rb") as fh:
            for kws in pickle.load(fh):
                where[kws["a"], kws["b"]] = i
    return where


def subsets(n, proper=True):
    ids = range(1, n + 1)
    for k in range(1, n if proper else n + 1):
        yield from itertools.combinations(ids, k)


def expected_raw(fn, where, finished, bs=B):
    missing = FNS[fn][0]
    return tuple(
        tuple(fn(a, b) if where[a, b] in finished else missing for b in bs)
        for a in A
    )


def check_ds(ds, fn, where, finished, bs=B):
    ds_full = combo_runner_to_ds(
        fn, (("a", A), ("b", bs)), FNS[fn][1], var_dims=FNS[fn][2],
        verbosity=0,
    )
    check(set(ds.data_vars) == set(ds_full.data_vars))
    check(list(ds["a"].values) == A and list(ds["b"].values) == bs)
    for a in A:
        for b in bs:
            got = ds.sel(a=a, b=b)
            exp = ds_full.sel(a=a, b=b)
            for v in ds_full.data_vars:
                if where[a, b] in finished:
                    check(
                        np.array_equal(got[v].values, exp[v].values),
                        "wrong finished value in dataset",
                    )
                else:
                    check(
                        bool(got[v].isnull().all()),
                        "unfinished position not missing in dataset",
                    )
    return ds_full


def check_df(df, fn, where, finished, bs=B):
    check(list(df.columns) == ["a", "b", "x"])
    check(len(df) == len(A) * len(bs))
    rows = {(r.a, r.b): r.x for r in df.itertuples()}
    check(sorted(rows) == sorted(itertools.product(A, bs)))
    for (a, b), x in rows.items():
        if where[a, b] in finished:
            check(x == fn(a, b), "wrong finished value in dataframe")
        else:
            check(
                x is None or (isinstance(x, float) and np.isnan(x)),
                "unfinished position not missing in dataframe",
            )


def new_crop(fn, tdir, bs=B, shuffle=False, **kws):
    crop = Crop(fn=fn, parent_dir=tdir, **kws)
    crop.sow_combos((("a", A), ("b", bs)), shuffle=shuffle, verbosity=0)
    return crop


def grow(crop, ids):
    for i in ids:
        crop.grow(i, verbosity=0)


# -------------------------------- checks ---------------------------------- #


def partial_reaps_exhaustive():
    """All non-empty proper subsets of finished batches, several ways of
    dividing the settings into batches (with / without remainder), shuffled
    or not, raw / Dataset / DataFrame.
    """
    configs = [
        (B, dict(batchsize=1)),  # 6 batches
        (B, dict(batchsize=2)),  # 3 batches
        (B, dict(batchsize=4)),  # 2 batches, remainder
        (B, dict(num_batches=4)),  # 4 batches, sizes 2, 2, 1, 1
        (B, dict(num_batches=3)),
        (B7, dict(num_batches=7)),  # 7 batches of 2
        (B7, dict(batchsize=3)),  # 5 batches, last one short
        (B7, dict(num_batches=4)),  # sizes 4, 4, 3, 3
    ]
    for (bs, kws), shuffle in itertools.product(configs, [False, True, 3]):
        full = tuple(tuple(f_scalar(a, b) for b in bs) for a in A)
        with tempfile.TemporaryDirectory() as tdir:
            probe = new_crop(f_scalar, tdir, bs, shuffle, **kws)
            nb = probe.num_batches
            probe.delete_all()
        all_subsets = list(subsets(nb))
        if nb == 7:
            # all 126 subsets for the unshuffled crop, every 3rd otherwise
            all_subsets = all_subsets[:: (1 if shuffle is False else 3)]
        for finished in all_subsets:
            with tempfile.TemporaryDirectory() as tdir:
                crop = new_crop(f_scalar, tdir, bs, shuffle, **kws)
                where = batch_of_each_setting(crop)
                check(len(where) == len(A) * len(bs))
                grow(crop, finished)
                before = snapshot(crop.location)
                check(
                    crop.missing_results()
                    == tuple(i for i in range(1, nb + 1) if i not in finished)
                )

                # refused without allow_incomplete, nothing touched
                try:
                    crop.reap_combos()
                except XYZError as e:
                    check(str(e).startswith("This crop is not ready to reap"))
                else:
                    check(False, "incomplete crop was not refused")
                check(snapshot(crop.location) == before)

                # raw
                got = crop.reap_combos(allow_incomplete=True)
                check(
                    same(got, expected_raw(f_scalar, where, finished, bs)),
                    "raw partial reap wrong: {} {} {}".format(
                        kws, shuffle, finished
                    ),
                )
                check(snapshot(crop.location) == before)

                # Dataset
                ds = crop.reap_combos_to_ds(
                    var_names="x", allow_incomplete=True
                )
                ds_full = check_ds(ds, f_scalar, where, finished, bs)
                check(snapshot(crop.location) == before)

                # DataFrame
                df = crop.reap_combos_to_ds(
                    var_names="x", allow_incomplete=True, to_df=True
                )
                check_df(df, f_scalar, where, finished, bs)
                check(snapshot(crop.location) == before)

                # growing continues, a later full reap is exact
                crop.grow_missing(verbosity=0)
                check(crop.missing_results() == ())
                ds2 = crop.reap_combos_to_ds(
                    var_names="x", allow_incomplete=True
                )
                check(ds2.identical(ds_full))
                check(os.path.isdir(crop.location))
                check(same(crop.reap_combos(), full))
                check(not os.path.exists(crop.location))


def partial_reaps_result_kinds():
    """scalar / array / bool / str / multi-output / Dataset results."""
    for fn, (missing, var_names, var_dims, df_ok) in FNS.items():
        full = tuple(tuple(fn(a, b) for b in B) for a in A)
        for kws, shuffle in [
            (dict(batchsize=1), False),
            (dict(batchsize=4), True),
            (dict(num_batches=4), 7),
        ]:
            with tempfile.TemporaryDirectory() as tdir:
                probe = new_crop(fn, tdir, B, shuffle, **kws)
                nb = probe.num_batches
            for finished in list(subsets(nb))[::3]:
                with tempfile.TemporaryDirectory() as tdir:
                    crop = new_crop(fn, tdir, B, shuffle, **kws)
                    where = batch_of_each_setting(crop)
                    grow(crop, finished)
                    before = snapshot(crop.location)

                    got = crop.reap(allow_incomplete=True)
                    check(
                        same(got, expected_raw(fn, where, finished)),
                        "raw partial reap wrong for {}".format(fn.__name__),
                    )
                    check(snapshot(crop.location) == before)

                    ds = crop.reap_combos_to_ds(
                        var_names=var_names,
                        var_dims=var_dims,
                        allow_incomplete=True,
                    )
                    ds_full = check_ds(ds, fn, where, finished)
                    check(snapshot(crop.location) == before)

                    if df_ok:
                        df = crop.reap_combos_to_ds(
                            var_names=var_names,
                            allow_incomplete=True,
                            to_df=True,
                        )
                        check_df(df, fn, where, finished)
                        check(snapshot(crop.location) == before)

                    crop.grow_missing(verbosity=0)
                    ds2 = crop.reap_combos_to_ds(
                        var_names=var_names,
                        var_dims=var_dims,
                        allow_incomplete=True,
                    )
                    check(ds2.identical(ds_full))
                    check(same(crop.reap(), full))
                    check(not os.path.exists(crop.location))


def cases_crop():
    """A crop sown from cases rather than combos."""
    cases = [(1, 10), (2, 30), (1, 30), (2, 20), (2, 10)]
    for finished in subsets(3):
        with tempfile.TemporaryDirectory() as tdir:
            crop = Crop(fn=f_scalar, parent_dir=tdir, batchsize=2)
            crop.sow_cases(("a", "b"), cases, verbosity=0)
            check(crop.num_batches == 3)
            where = batch_of_each_setting(crop)
            grow(crop, finished)
            before = snapshot(crop.location)
            got = crop.reap(allow_incomplete=True)
            # raw results of cases come as the grid over the values seen,
            # with nan also where there was no case at all
            exp = tuple(
                tuple(
                    f_scalar(a, b)
                    if where.get((a, b), None) in finished
                    else np.nan
                    for b in B
                )
                for a in A
            )
            check(same(got, exp), "cases partial reap wrong")
            check(snapshot(crop.location) == before)
            crop.grow_missing(verbosity=0)
            exp = tuple(
                tuple(f_scalar(a, b) if (a, b) in where else np.nan for b in B)
                for a in A
            )
            check(same(crop.reap(), exp))
            check(not os.path.exists(crop.location))


def reaper_directly():
    """Drive the ``Reaper`` object itself."""
    no_default = cropping._NO_DEFAULT
    with tempfile.TemporaryDirectory() as tdir:
        crop = new_crop(f_scalar, tdir, batchsize=4)  # batches of 4 and 2
        grow(crop, [1])
        before = snapshot(crop.location)

        # a non-integer number of batches is refused on construction
        for bad in (None, "2", 2.0):
            try:
                Reaper(crop, num_batches=bad)
            except TypeError:
                check(True)
            else:
                check(False, "Reaper accepted num_batches={!r}".format(bad))

        # constructing it looks at nothing - the crop can even not exist
        ghost = Crop(name="ghost", parent_dir=os.path.join(tdir, "nowhere"))
        r = Reaper(ghost, num_batches=3, default_result=np.nan)
        check(r.crop is ghost)
        try:
            r()
        except FileNotFoundError:
            check(True)
        else:
            check(False)

        # stand-ins sized like the sown batch
        with Reaper(crop, num_batches=2, default_result="MISSING") as r:
            check(r.__enter__() is r)
            got = [r(a=None, b=None), r(), r(x=1), r(), r(), r()]
            check(got == [20, 30, 40, 30, "MISSING", "MISSING"])
            try:
                r()
            except StopIteration:
                check(True)
            else:
                check(False)

        # ``None`` is a valid stand-in
        with Reaper(crop, num_batches=2, default_result=None) as r:
            check([r() for _ in range(6)] == [20, 30, 40, 30, None, None])

        # no default: the missing file is an error when it is reached, and
        # (since that was the last batch) the error itself propagates
        try:
            with Reaper(crop, num_batches=2) as r:
                check([r() for _ in range(4)] == [20, 30, 40, 30])
                r()
        except FileNotFoundError as e:
            check(e.filename.endswith("xyz-result-2.jbdmp"))
        else:
            check(False)
        try:
            with Reaper(crop, 2, False, no_default) as r:
                [r() for _ in range(5)]
        except FileNotFoundError:
            check(True)
        else:
            check(False)

        # not consuming everything is reported on exit
        for n in (0, 3, 5):
            try:
                with Reaper(crop, num_batches=2, default_result=np.nan) as r:
                    for _ in range(n):
                        r()
            except XYZError as e:
                check(str(e) == "Not all results reaped!")
            else:
                check(False, "left-over results not reported")

        # files are only looked for when their turn comes: a batch finished
        # after the Reaper was made, but before it is reached, is read
        with Reaper(crop, num_batches=2, default_result=np.nan) as r:
            first = [r() for _ in range(4)]
            grow(crop, [2])
            rest = [r(), r()]
        check(first == [20, 30, 40, 30] and rest == [40, 50])
        os.remove(os.path.join(crop.location, "results", "xyz-result-2.jbdmp"))
        check(snapshot(crop.location) == before)

        # the location is looked up afresh for every file
        other = new_crop(f_float, os.path.join(tdir, "other"), batchsize=4)
        grow(other, [2])
        with Reaper(crop, num_batches=2, default_result=np.nan) as r:
            first = [r() for _ in range(4)]
            crop.location, old = other.location, crop.location
            rest = [r(), r()]
            crop.location = old
        check(first == [20, 30, 40, 30] and rest == [20.5, 30.5])
        check(snapshot(crop.location) == before)


def bad_result_files():
    """Empty / ``None`` results are reported, with the file named."""
    msg = "Something not right: result {} contains no data upon read from disk."
    for bad, allow in itertools.product([(), [], None], [False, True]):
        with tempfile.TemporaryDirectory() as tdir:
            crop = new_crop(f_scalar, tdir, batchsize=2)
            grow(crop, [1, 2] if allow else [1, 2, 3])
            # (the stand-in is inferred from whichever result file is found
            # first, and then remembered - do that while all are still good)
            check(np.isnan(crop.all_nan_result))
            # the ValueError itself is seen, even with stand-ins left over
            last = 2 if allow else 3
            fname = os.path.join(
                crop.location, "results", "xyz-result-{}.jbdmp".format(last)
            )
            with open(fname, "wb") as fh:
                pickle.dump(bad, fh)
            before = snapshot(crop.location)
            try:
                crop.reap_combos(allow_incomplete=allow)
            except ValueError as e:
                check(type(e) is ValueError)
                check(str(e) == msg.format(fname), str(e))
            else:
                check(False, "bad result not reported")
            check(snapshot(crop.location) == before)

    # an empty *batch* file gives empty stand-ins, reported the same way
    with tempfile.TemporaryDirectory() as tdir:
        crop = new_crop(f_scalar, tdir, batchsize=2)
        grow(crop, [1, 2])
        bname = os.path.join(crop.location, "batches", "xyz-batch-3.jbdmp")
        with open(bname, "wb") as fh:
            pickle.dump([], fh)
        fname = os.path.join(crop.location, "results", "xyz-result-3.jbdmp")
        try:
            crop.reap_combos(allow_incomplete=True)
        except ValueError as e:
            check(type(e) is ValueError and str(e) == msg.format(fname))
        else:
            check(False)

    # a missing *batch* file for an unfinished batch
    with tempfile.TemporaryDirectory() as tdir:
        crop = new_crop(f_scalar, tdir, batchsize=2)
        grow(crop, [1, 3])
        bname = os.path.join(crop.location, "batches", "xyz-batch-2.jbdmp")
        os.remove(bname)
        try:
            crop.reap_combos(allow_incomplete=True)
        except FileNotFoundError as e:
            check(e.filename == bname)
        else:
            check(False)


def odd_locations():
    """Crop directories whose own path looks like a result file name."""
    for finished in subsets(3):
        with tempfile.TemporaryDirectory() as tdir:
            parent = os.path.join(tdir, "xyz-result-2.jbdmp", "sub dir {}")
            os.makedirs(parent)
            crop = Crop(
                fn=f_scalar,
                name="xyz-result-3.jbdmp",
                parent_dir=parent,
                batchsize=2,
            )
            crop.sow_combos(COMBOS, verbosity=0)
            where = batch_of_each_setting(crop)
            grow(crop, finished)
            before = snapshot(crop.location)
            got = crop.reap_combos(allow_incomplete=True)
            check(same(got, expected_raw(f_scalar, where, finished)))
            check(snapshot(crop.location) == before)


def waiting():
    """``wait=True`` blocks for the unfinished batches instead."""
    full = tuple(tuple(f_scalar(a, b) for b in B) for a in A)

    for allow in (False, True):
        with tempfile.TemporaryDirectory() as tdir:
            crop = new_crop(f_scalar, tdir, batchsize=2)
            grow(crop, [2])

            def later():
                time.sleep(0.5)
                xyzpy.Crop(name=crop.name, parent_dir=tdir).grow(
                    3, verbosity=0
                )
                time.sleep(0.3)
                xyzpy.Crop(name=crop.name, parent_dir=tdir).grow(
                    1, verbosity=0
                )

            t = threading.Thread(target=later)
            t0 = time.time()
            t.start()
            try:
                got = crop.reap_combos(wait=True, allow_incomplete=allow)
            finally:
                t.join()
            check(time.time() - t0 >= 0.7, "did not wait")
            # waited for the real values, no stand-ins
            check(same(got, full), "waited reap wrong")
            # clean up only by default when not allow_incomplete
            check(os.path.exists(crop.location) == allow)

    # when waiting, something which is not a file is an error
    with tempfile.TemporaryDirectory() as tdir:
        crop = new_crop(f_scalar, tdir, batchsize=2)
        grow(crop, [1, 2])
        fname = os.path.join(crop.location, "results", "xyz-result-3.jbdmp")
        os.mkdir(fname)
        before = snapshot(crop.location)
        for allow in (False, True):
            try:
                crop.reap_combos(wait=True, allow_incomplete=allow)
            except ValueError as e:
                check(type(e) is ValueError)
                check(str(e) == "{} is not a file.".format(fname), str(e))
            else:
                check(False, "directory accepted as result")
            check(snapshot(crop.location) == before)
        # ... also with the results of later batches left over
        shutil.rmtree(fname)
        grow(crop, [3])
        fname = os.path.join(crop.location, "results", "xyz-result-1.jbdmp")
        os.remove(fname)
        os.mkdir(fname)
        try:
            crop.reap_combos(wait=True)
        except ValueError as e:
            check(type(e) is ValueError)
            check(str(e) == "{} is not a file.".format(fname))
        else:
            check(False)
        # when not waiting, the directory just is not a finished result
        crop2 = new_crop(f_scalar, os.path.join(tdir, "two"), batchsize=2)
        grow(crop2, [1, 3])
        check(np.isnan(crop2.all_nan_result))
        os.mkdir(
            os.path.join(crop2.location, "results", "xyz-result-2.jbdmp")
        )
        got = crop2.reap_combos(allow_incomplete=True, clean_up=False)
        where = batch_of_each_setting(crop2)
        check(same(got, expected_raw(f_scalar, where, (1, 3))))


def no_finished_batches():
    with tempfile.TemporaryDirectory() as tdir:
        crop = new_crop(f_scalar, tdir, batchsize=2)
        before = snapshot(crop.location)
        for kws in (dict(), dict(allow_incomplete=True)):
            try:
                crop.reap(**kws)
            except XYZError as e:
                check(
                    str(e).startswith(
                        "To infer an all-nan result requires"
                        if kws
                        else "This crop is not ready to reap yet"
                    )
                )
            else:
                check(False)
            check(snapshot(crop.location) == before)


def main():
    partial_reaps_exhaustive()
    partial_reaps_result_kinds()
    cases_crop()
    reaper_directly()
    bad_result_files()
    odd_locations()
    waiting()
    no_finished_batches()


if __name__ == "__main__":
    # progress bars go to stderr - keep the output readable
    real_stderr = sys.stderr
    sys.stderr = open(os.devnull, "w")
    try:
        main()
    except BaseException:
        sys.stderr = real_stderr
        traceback.print_exc(file=sys.stdout)
        print("FAIL")
        sys.exit(1)
    sys.stderr = real_stderr
    print("PASS ({} checks)".format(NCHECKS[0]))
