"""Demo for C08 / refactoring 1 (Crop.calc_progress, Crop.missing_results and
the path helpers): model-based check that the reported progress of a crop
always equals what is on disk.

Run as:  cd <worktree> && /venv/bin/python /path/to/demo.py
"""
import os
import sys

sys.path.insert(0, os.getcwd())

import glob
import pickle
import random
import tempfile

import xyzpy
from xyzpy.gen import cropping
from xyzpy.gen.cropping import Crop

assert os.path.abspath(xyzpy.__file__).startswith(os.getcwd()), xyzpy.__file__


def fn(a, b=0):
    return 10 * a + b


def make_failing(bad):
    def failing(a, b=0):
        if a in bad:
            raise RuntimeError("boom on a={}".format(a))
        return 10 * a + b

    return failing


CHECKS = [0]


def check(cond, msg):
    CHECKS[0] += 1
    if not cond:
        raise AssertionError(msg)


def result_files_on_disk(crop):
    return sorted(os.listdir(os.path.join(crop.location, "results")))


def read_pickle(fname):
    with open(fname, "rb") as f:
        return pickle.load(f)


def check_progress(crop, n, finished, tag):
    """Compare everything the crop reports with the model / the disk."""
    expected_missing = tuple(i for i in range(1, n + 1) if i not in finished)

    # the disk really contains exactly the modelled result files
    check(
        result_files_on_disk(crop)
        == sorted("xyz-result-{}.jbdmp".format(i) for i in finished),
        "{}: result files {} != model {}".format(
            tag, result_files_on_disk(crop), sorted(finished)
        ),
    )
    check(
        len(os.listdir(os.path.join(crop.location, "batches"))) == n,
        tag + ": wrong number of batch files",
    )

    check(crop.num_sown_batches == n, tag + ": num_sown_batches")
    check(crop.num_results == len(finished), tag + ": num_results")
    check(
        crop.missing_results() == expected_missing,
        "{}: missing {} != {}".format(
            tag, crop.missing_results(), expected_missing
        ),
    )
    check(
        type(crop.missing_results()) is tuple, tag + ": missing is a tuple"
    )
    check(
        crop.is_ready_to_reap() == (len(expected_missing) == 0),
        tag + ": is_ready_to_reap",
    )
    check(crop.is_ready_to_reap() is (len(finished) == n), tag + ": ready")

    # the private counters that calc_progress maintains
    crop.calc_progress()
    check(crop._num_sown_batches == n, tag + ": _num_sown_batches")
    check(crop._num_results == len(finished), tag + ": _num_results")
    check(crop.num_batches == n, tag + ": num_batches")

    # the string summary reports the same progress
    s = str(crop)
    check(
        "{} / {} batches of size {} completed".format(
            len(finished), n, crop.batchsize
        )
        in s,
        tag + ": __str__ : " + s,
    )
    pct = 100 * len(finished) / n
    check("{:.1f}%".format(pct) in s, tag + ": percentage in __str__")
    bars = int(pct * 20 / 100)
    check(
        "[" + "#" * bars + " " * (20 - bars) + "]" in s,
        tag + ": bar in __str__",
    )


def run_sequence(seed, n, batchsize, remainder_mode, tmp):
    rng = random.Random(seed)
    name = "crop_{}_{}_{}_{}".format(seed, n, batchsize, int(remainder_mode))

    if remainder_mode:
        # choose the number of batches, with unevenly sized batches
        ncases = n * batchsize + rng.randrange(0, n)
        kws = dict(num_batches=n)
    else:
        ncases = n * batchsize
        kws = dict(batchsize=batchsize)
    combos = {"a": list(range(ncases))}

    crop = Crop(fn=fn, name=name, parent_dir=tmp, **kws)

    # nothing on disk yet
    check(not crop.is_prepared(), "fresh crop is not prepared")
    check(crop.num_sown_batches == -1, "unsown: num_sown_batches == -1")
    check(crop.num_results == -1, "unsown: num_results == -1")
    check(not crop.is_ready_to_reap(), "unsown: not ready to reap")
    check("Not yet sown" in str(crop), "unsown: __str__")

    crop.sow_combos(combos, verbosity=0)
    finished = set()
    expected = {}  # batch id -> expected tuple of results
    for i in range(1, n + 1):
        cases = read_pickle(
            os.path.join(
                crop.location, "batches", "xyz-batch-{}.jbdmp".format(i)
            )
        )
        expected[i] = tuple(fn(**c) for c in cases)
    check(sum(map(len, expected.values())) == ncases, "all cases sown")
    check_progress(crop, n, finished, name + " after sow")

    for step in range(12):
        op = rng.choice(
            [
                "resow",
                "grow_one",
                "grow_subset",
                "grow_missing",
                "grow_failing",
                "delete",
                "check_bad",
                "reload",
                "query",
            ]
        )
        tag = "{} step {} ({})".format(name, step, op)
        before = {
            f: open(os.path.join(crop.location, "results", f), "rb").read()
            for f in result_files_on_disk(crop)
        }

        if op == "resow":
            crop.sow_combos(combos, verbosity=0)
        elif op == "grow_one":
            i = rng.randint(1, n)
            crop.grow(i, verbosity=0)
            finished.add(i)
        elif op == "grow_subset":
            ids = rng.sample(range(1, n + 1), rng.randint(0, n))
            crop.grow(tuple(ids), verbosity=0)
            finished.update(ids)
        elif op == "grow_missing":
            missing_before = crop.missing_results()
            check(
                set(missing_before) == set(range(1, n + 1)) - finished,
                tag + ": missing before grow_missing",
            )
            crop.grow_missing(verbosity=0)
            finished.update(missing_before)
            check(len(finished) == n, tag + ": model complete")
            check(crop.is_ready_to_reap(), tag + ": ready after grow_missing")
            check(crop.missing_results() == (), tag + ": nothing missing")
            # only the missing ones were (re)written
            for f, content in before.items():
                now = open(
                    os.path.join(crop.location, "results", f), "rb"
                ).read()
                check(now == content, tag + ": existing result kept")
        elif op == "grow_failing":
            i = rng.randint(1, n)
            cases = read_pickle(
                os.path.join(
                    crop.location, "batches", "xyz-batch-{}.jbdmp".format(i)
                )
            )
            bad_a = rng.choice(cases)["a"]
            had = i in finished
            try:
                cropping.grow(
                    i, crop=crop, fn=make_failing({bad_a}), verbosity=0
                )
            except RuntimeError as e:
                check("boom" in str(e), tag + ": right error")
            else:
                raise AssertionError(tag + ": failing grow did not raise")
            # a failed grow never records (or removes) a result
            check((i in finished) == had, tag)
        elif op == "delete":
            i = rng.randint(1, n)
            f = os.path.join(
                crop.location, "results", "xyz-result-{}.jbdmp".format(i)
            )
            if os.path.exists(f):
                os.remove(f)
            finished.discard(i)
        elif op == "check_bad":
            check(crop.check_bad() == (), tag + ": no bad results")
        elif op == "reload":
            crop = Crop(name=name, parent_dir=tmp)
            check(crop.num_batches == n, tag + ": reloaded num_batches")
        elif op == "query":
            pass

        check_progress(crop, n, finished, tag)

        # contents of finished results are right and only expected files exist
        for i in finished:
            res = read_pickle(
                os.path.join(
                    crop.location, "results", "xyz-result-{}.jbdmp".format(i)
                )
            )
            check(res == expected[i], tag + ": content of result " + str(i))

    # finally: growing the missing ones makes the crop ready, then reap
    missing = crop.missing_results()
    crop.grow_missing(verbosity=0)
    finished.update(missing)
    check_progress(crop, n, finished, name + " final")
    check(crop.is_ready_to_reap(), name + ": final ready")
    out = crop.reap(clean_up=True)
    flat = tuple(out)
    check(flat == tuple(fn(a) for a in range(ncases)), name + ": reaped")
    check(not os.path.exists(crop.location), name + ": cleaned up")
    check(crop.num_results == -1, name + ": num_results after reap")
    check(not crop.is_ready_to_reap(), name + ": not ready after reap")


def main():
    with tempfile.TemporaryDirectory() as tmp:
        seed = 0
        for n in range(1, 9):
            for batchsize in (1, 3):
                for remainder_mode in (False, True):
                    for _ in range(2):
                        seed += 1
                        run_sequence(seed, n, batchsize, remainder_mode, tmp)

        # incomplete crop refuses a plain reap
        crop = Crop(fn=fn, name="incomplete", parent_dir=tmp, batchsize=2)
        crop.sow_combos({"a": range(6)}, verbosity=0)
        crop.grow(2, verbosity=0)
        check(crop.missing_results() == (1, 3), "incomplete: missing")
        try:
            crop.reap()
        except xyzpy.gen.farming.XYZError:
            pass
        else:
            raise AssertionError("reap of an incomplete crop must raise")
        check(crop.missing_results() == (1, 3), "incomplete: still missing")
        check(
            glob.glob(os.path.join(crop.location, "results", "*"))
            == [
                os.path.join(crop.location, "results", "xyz-result-2.jbdmp")
            ],
            "incomplete: only result 2 on disk",
        )

    print("checks:", CHECKS[0])
    print("PASS")


if __name__ == "__main__":
    main()
