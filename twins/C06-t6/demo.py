"""Demo for C06 (crop attached to a Runner / Harvester / Sampler), focused on
the persistence / reload bookkeeping of the crop: what ``save_info`` writes,
what ``_sync_info_from_disk`` / ``load_function`` / ``parse_fn_farmer`` restore,
and that a crop reloaded by name (same process and another process) still
reaps exactly what a direct run gives.

Run as:  cd <worktree> && /venv/bin/python /path/to/demo.py
"""
import os
import sys

sys.path.insert(0, os.getcwd())

import pickle
import shutil
import subprocess
import tempfile
import warnings

import numpy as np
import pandas as pd
import xarray as xr

import xyzpy
from xyzpy import Runner, Harvester, Sampler, Crop
from xyzpy.gen import cropping
from xyzpy.gen.cropping import (
    parse_fn_farmer, read_from_disk, from_pickle, INFO_NM, FNCT_NM,
)
from xyzpy.gen.prepare import XYZError

HERE = os.getcwd()
assert os.path.dirname(os.path.dirname(os.path.abspath(xyzpy.__file__))) == \
    HERE, (xyzpy.__file__, HERE)


# ------------------------------ the functions ------------------------------ #

def fn_vec(a, b, n=3, scale=1.0, off=0.0):
    return float(a + 10 * b + off), scale * (a + b) * np.arange(n)


def fn_sd(x, y, shift=0):
    return x + y + shift, x - y


def other_fn(a, b, n=3, scale=1.0, off=0.0):
    return -1.0, np.zeros(n)


def make_runner():
    return Runner(
        fn_vec,
        var_names=["s", "v"],
        fn_args=["a", "b"],
        var_dims={"v": ["t"]},
        var_coords={"t": [10, 20, 30]},
        constants={"n": 3, "off": 0.5},
        resources={"scale": 2.0},
        attrs={"note": "demo"},
    )


def make_sd_runner():
    return Runner(fn_sd, var_names=["sum", "diff"], constants={"shift": 2})


COMBOS = {"a": [0.5, 1.5], "b": [1, 2, 3]}
CASES = [(1, 2), (3, 4), (5, 6)]


def same_ds(x, y):
    assert isinstance(x, xr.Dataset) and isinstance(y, xr.Dataset)
    assert x.identical(y), (x, y)
    assert list(x.data_vars) == list(y.data_vars)
    assert list(x.coords) == list(y.coords)
    assert dict(x.attrs) == dict(y.attrs)
    assert list(x.attrs) == list(y.attrs)
    for k in x.variables:
        assert x[k].dtype == y[k].dtype, k
        assert x[k].dims == y[k].dims, k


def same_df(x, y):
    assert isinstance(x, pd.DataFrame) and isinstance(y, pd.DataFrame)
    pd.testing.assert_frame_equal(x, y, check_exact=True)


CHILD = r'''
import os, sys, pickle
sys.path.insert(0, os.getcwd())
import xyzpy
assert os.path.dirname(os.path.dirname(os.path.abspath(xyzpy.__file__))) \
    == os.getcwd()
from xyzpy import Crop
name, parent, action, out = sys.argv[1:5]
crop = Crop(name=name, parent_dir=parent)
info = {
    "farmer_type": type(crop.farmer).__name__,
    "fn_name": getattr(crop.fn, "__name__", None),
    "farmer_fn_is_crop_fn": crop.farmer.fn is crop.fn,
    "batchsize": crop.batchsize,
    "num_batches": crop.num_batches,
    "remainder": crop._batch_remainder,
}
if action == "grow":
    crop.grow_missing(verbosity=0)
elif action == "reap":
    res = crop.reap()
    info["res"] = res
    f = crop.farmer
    if info["farmer_type"] == "Sampler":
        info["is_last"] = (f.last_df is res) and (f.runner._last_df is res)
    else:
        info["is_last"] = f.last_ds is res
    info["gone"] = not os.path.exists(crop.location)
with open(out, "wb") as fh:
    pickle.dump(info, fh)
'''


def child(tdir, name, action):
    script = os.path.join(tdir, "child.py")
    with open(script, "w") as fh:
        fh.write(CHILD)
    out = os.path.join(tdir, "child-{}-{}.pkl".format(name, action))
    subprocess.run(
        [sys.executable, "-W", "ignore", script, name, tdir, action, out],
        check=True, cwd=HERE, stdout=subprocess.DEVNULL,
    )
    with open(out, "rb") as fh:
        return pickle.load(fh)


# --------------------------- parse_fn_farmer ---------------------------- #

def check_parse_fn_farmer():
    r = make_runner()

    with warnings.catch_warnings(record=True) as w:
        warnings.simplefilter("always")
        assert parse_fn_farmer(None, None) == (None, None)
        assert parse_fn_farmer(fn_sd, None) == (fn_sd, None)
        fn, farmer = parse_fn_farmer(None, r)
        assert fn is fn_vec and farmer is r
        assert len(w) == 0

    with warnings.catch_warnings(record=True) as w:
        warnings.simplefilter("always")
        fn, farmer = parse_fn_farmer(fn_sd, r)
        assert fn is fn_vec and farmer is r
        assert len(w) == 1
        assert "'fn' is ignored" in str(w[0].message)

    # a harvester / sampler hands over its runner's function
    h = Harvester(r)
    assert parse_fn_farmer(None, h) == (fn_vec, h)
    r.fn = None
    assert parse_fn_farmer(None, h) == (None, h)

    # the warning is raised before the farmer's function is looked up
    class NoFn:
        @property
        def fn(self):
            raise RuntimeError("looked up")

    with warnings.catch_warnings(record=True) as w:
        warnings.simplefilter("always")
        try:
            parse_fn_farmer(fn_sd, NoFn())
        except RuntimeError as e:
            assert str(e) == "looked up"
        else:
            raise AssertionError
        assert len(w) == 1


# ------------------------------ save_info ------------------------------- #

SETTINGS_KEYS = [
    "combos", "cases", "fn_args", "constants", "batchsize", "num_batches",
    "_batch_remainder", "shuffle", "farmer",
]


def check_saved_settings(tdir):
    # --- crop with no farmer: 'farmer' entry is None
    c0 = Crop(fn=fn_sd, name="plain", parent_dir=tdir, batchsize=2)
    assert not c0.is_prepared()
    try:
        c0.load_info()
    except XYZError as e:
        assert str(e) == "Settings can't be found at {}.".format(
            os.path.join(c0.location, INFO_NM))
    else:
        raise AssertionError
    c0.sow_combos({"x": [1, 2, 3], "y": [4]}, constants={"shift": 1},
                  verbosity=0)
    assert c0.is_prepared()
    s0 = c0.load_info()
    assert list(s0) == SETTINGS_KEYS
    assert s0["farmer"] is None
    assert s0["combos"] == [("x", [1, 2, 3]), ("y", [4])]
    assert s0["cases"] == ()
    assert s0["constants"] == {"shift": 1}
    assert (s0["batchsize"], s0["num_batches"], s0["_batch_remainder"]) == \
        (2, 2, 0)
    assert s0["shuffle"] is False
    assert sorted(os.listdir(c0.location)) == sorted(
        ["batches", "results", INFO_NM, FNCT_NM])
    # the raw file is a plain pickle of that dict
    with open(os.path.join(c0.location, INFO_NM), "rb") as fh:
        assert list(pickle.load(fh)) == SETTINGS_KEYS
    # reloading: no farmer, function re-attached
    c0b = Crop(name="plain", parent_dir=tdir)
    assert c0b.farmer is None and c0b.runner is None
    assert c0b.fn(1, 2) == (3, -1)
    assert (c0b.batchsize, c0b.num_batches, c0b._batch_remainder) == (2, 2, 0)
    c0b.grow_missing(verbosity=0)
    assert c0b.reap() == (((6, -3),), ((7, -2),), ((8, -1),))
    assert not os.path.exists(c0.location)

    # --- crop with each farmer kind: farmer pickled without its function,
    #     the live farmer keeps its function, and is not the pickled object
    for kind in ("runner", "harvester", "sampler"):
        r = make_runner()
        if kind == "runner":
            farmer = r
        elif kind == "harvester":
            farmer = Harvester(r, data_name=os.path.join(tdir, "x.h5"))
        else:
            farmer = Sampler(r, data_name=os.path.join(tdir, "x.pkl"),
                             default_combos={"a": [1, 2], "b": [3]})
        crop = farmer.Crop(name="k-" + kind, parent_dir=tdir, num_batches=4)
        assert crop.farmer is farmer and crop.runner is r
        assert crop.fn is fn_vec
        crop.sow_combos(COMBOS, constants={"off": 1.5}, shuffle=3,
                        verbosity=0)
        assert farmer.fn is fn_vec and r.fn is fn_vec

        s = crop.load_info()
        assert list(s) == SETTINGS_KEYS
        assert s["shuffle"] == 3
        assert s["constants"] == {"off": 1.5}
        assert s["fn_args"] is None
        assert s["combos"] == [("a", [0.5, 1.5]), ("b", [1, 2, 3])]
        assert (s["batchsize"], s["num_batches"], s["_batch_remainder"]) == \
            (1, 4, 2)
        assert isinstance(s["farmer"], bytes)
        saved = from_pickle(s["farmer"])
        assert type(saved) is type(farmer)
        assert saved is not farmer
        assert saved.fn is None
        saved_r = saved if kind == "runner" else saved.runner
        assert saved_r.fn is None
        for attr in ("_var_names", "_fn_args", "_var_dims", "_var_coords",
                     "_constants", "_resources", "_attrs",
                     "default_runner_settings"):
            assert getattr(saved_r, attr) == getattr(r, attr), attr
        if kind != "runner":
            assert saved.data_name == farmer.data_name
            assert saved.engine == farmer.engine
        if kind == "sampler":
            assert saved.default_combos == farmer.default_combos

        # function saved next to the settings
        assert from_pickle(read_from_disk(
            os.path.join(crop.location, FNCT_NM)))(1, 1, n=2)[0] == 11.0

        # save_fn=False: no function file is written, settings still are
        r2 = make_runner()
        crop2 = r2.Crop(name="nofn-" + kind, parent_dir=tdir, save_fn=False)
        crop2.sow_combos(COMBOS, verbosity=0)
        assert sorted(os.listdir(crop2.location)) == sorted(
            ["batches", "results", INFO_NM])
        assert from_pickle(crop2.load_info()["farmer"]).fn is None
        crop2.delete_all()
        crop.delete_all()


# -------------------- _sync_info_from_disk / load_function ----------------- #

def check_sync_and_load_function(tdir):
    r = make_runner()
    h = Harvester(r, data_name=os.path.join(tdir, "sync.h5"))
    crop = h.Crop(name="sync", parent_dir=tdir, batchsize=4)
    crop.sow_combos(COMBOS, verbosity=0)
    assert (crop.batchsize, crop.num_batches, crop._batch_remainder) == \
        (4, 2, 0)

    # (1) reload by name with nothing given: farmer comes from disk and gets
    #     the function loaded from disk
    c1 = Crop(name="sync", parent_dir=tdir)
    assert isinstance(c1.farmer, Harvester) and c1.farmer is not h
    assert c1.farmer.fn is c1.fn and c1.fn is not None
    assert c1.fn is not fn_vec and c1.fn.__name__ == "fn_vec"
    assert c1.runner is c1.farmer.runner
    assert c1.farmer.data_name == h.data_name
    assert (c1.batchsize, c1.num_batches, c1._batch_remainder) == (4, 2, 0)
    assert c1.save_fn is True

    # (2) a crop made again from the live farmer keeps that farmer (and the
    #     function it already has: nothing is loaded)
    c2 = h.Crop(name="sync", parent_dir=tdir, batchsize=99, num_batches=77)
    assert c2.farmer is h and c2.fn is fn_vec and h.fn is fn_vec
    # ... but the batch settings are taken from disk
    assert (c2.batchsize, c2.num_batches, c2._batch_remainder) == (4, 2, 0)

    # (3) only_missing=False replaces the farmer by the one on disk; the crop
    #     still has its function so nothing is re-attached to the new farmer
    c2._sync_info_from_disk(only_missing=False)
    assert c2.farmer is not h and isinstance(c2.farmer, Harvester)
    assert c2.farmer.fn is None and c2.fn is fn_vec
    # repeated default syncs keep whatever farmer is now there
    kept = c2.farmer
    c2._sync_info_from_disk()
    assert c2.farmer is kept

    # (4) autoload=False: nothing is read
    c3 = Crop(name="sync", parent_dir=tdir, autoload=False)
    assert c3.farmer is None and c3.fn is None and c3.batchsize is None
    # explicit sync then loads both
    c3._sync_info_from_disk()
    assert isinstance(c3.farmer, Harvester) and c3.farmer.fn is c3.fn
    assert c3.fn.__name__ == "fn_vec"

    # (5) load_function on a crop whose farmer already has a function
    msg = None
    try:
        c3.load_function()
    except XYZError as e:
        msg = str(e)
    assert msg is not None and msg.startswith(
        "Trying to load this Crop's function, <function fn_vec")
    assert "but its farmer already has a function set: <function fn_vec" \
        in msg
    # ... the crop's own function was replaced before the check
    assert c3.fn is not c3.farmer.fn and c3.fn.__name__ == "fn_vec"

    # (6) load_function with a farmer lacking its function re-attaches it
    c3.farmer.fn = None
    c3.load_function()
    assert c3.farmer.fn is c3.fn and c3.farmer.runner.fn is c3.fn

    # (7) load_function without any farmer only sets the crop's function
    c4 = Crop(name="sync", parent_dir=tdir, autoload=False)
    c4.load_function()
    assert c4.farmer is None and c4.fn.__name__ == "fn_vec"

    # (8) a function given explicitly along with a reload from disk: the
    #     farmer from disk is used, its function stays unset because the crop
    #     has one already
    c5 = Crop(fn=other_fn, name="sync", parent_dir=tdir)
    assert c5.fn is other_fn
    assert isinstance(c5.farmer, Harvester) and c5.farmer.fn is None

    # (9) settings missing a key: the error is the KeyError of that key, and
    #     earlier keys were already applied
    info_file = os.path.join(crop.location, INFO_NM)
    good = read_from_disk(info_file)
    bad = {k: v for k, v in good.items() if k != "farmer"}
    bad["batchsize"] = 40
    with open(info_file, "wb") as fh:
        pickle.dump(bad, fh)
    c6 = Crop(name="sync", parent_dir=tdir, autoload=False)
    try:
        c6._sync_info_from_disk()
    except KeyError as e:
        assert e.args == ("farmer",)
    else:
        raise AssertionError
    assert (c6.batchsize, c6.num_batches, c6._batch_remainder) == (40, 2, 0)
    assert c6.farmer is None and c6.fn is None
    with open(info_file, "wb") as fh:
        pickle.dump(good, fh)

    # (10) function file missing: reload by name fails with the open error,
    #      after the farmer was taken from disk
    fn_file = os.path.join(crop.location, FNCT_NM)
    os.rename(fn_file, fn_file + ".away")
    c7 = Crop(name="sync", parent_dir=tdir, autoload=False)
    try:
        c7._sync_info_from_disk()
    except FileNotFoundError as e:
        assert e.filename == fn_file
    else:
        raise AssertionError
    assert isinstance(c7.farmer, Harvester) and c7.farmer.fn is None
    os.rename(fn_file + ".away", fn_file)

    # progress queries re-sync without disturbing the live farmer
    assert crop.num_sown_batches == 2 and crop.num_results == 0
    assert crop.missing_results() == (1, 2)
    assert crop.farmer is h and h.fn is fn_vec
    crop.delete_all()
    assert not crop.is_prepared()


# --------------- the property itself, with reloads in between -------------- #

def check_runner_reload(tdir):
    for to_sow, shuffle in (("combos", False), ("combos", 7), ("cases", None)):
        direct = make_runner()
        if to_sow == "combos":
            expected = direct.run_combos(COMBOS, constants={"off": 1.5})
        else:
            expected = direct.run_cases(CASES, constants={"off": 1.5})

        r = make_runner()
        name = "rr-{}-{}".format(to_sow, shuffle)
        crop = r.Crop(name=name, parent_dir=tdir, batchsize=2)
        if to_sow == "combos":
            crop.sow_combos(COMBOS, constants={"off": 1.5}, shuffle=shuffle,
                            verbosity=0)
        else:
            crop.sow_cases(None, CASES, constants={"off": 1.5}, verbosity=0)

        # grow half in a reloaded crop in this process, rest in another
        c_same = Crop(name=name, parent_dir=tdir)
        assert isinstance(c_same.farmer, Runner) and c_same.farmer is not r
        c_same.grow(1, verbosity=0)
        info = child(tdir, name, "grow")
        assert info["farmer_type"] == "Runner"
        assert info["fn_name"] == "fn_vec" and info["farmer_fn_is_crop_fn"]
        assert (info["batchsize"], info["num_batches"]) == \
            (crop.batchsize, crop.num_batches)
        assert info["remainder"] == crop._batch_remainder

        # reap with the original crop: recorded on the original runner
        assert crop.is_ready_to_reap()
        ds = crop.reap(clean_up=False)
        same_ds(ds, expected)
        assert r.last_ds is ds
        # reap again with a crop reloaded by name: recorded on *its* runner
        c_again = Crop(name=name, parent_dir=tdir)
        ds2 = c_again.reap(clean_up=False)
        same_ds(ds2, expected)
        assert c_again.farmer.last_ds is ds2 and r.last_ds is ds
        # and in another process, which also cleans up
        info = child(tdir, name, "reap")
        same_ds(info["res"], expected)
        assert info["is_last"] and info["gone"]
        assert not os.path.exists(crop.location)


def check_harvester_reload(tdir):
    first = {"a": [0.5, 1.5], "b": [1, 2]}
    second = {"a": [1.5, 2.5], "b": [2, 3]}

    for overwrite in (None, True, False):
        tag = "hv-{}".format(overwrite)
        f_direct = os.path.join(tdir, tag + "-direct.h5")
        f_crop = os.path.join(tdir, tag + "-crop.h5")

        hd = Harvester(make_runner(), data_name=f_direct)
        hd.harvest_combos(first)
        # the second harvest overlaps the first; make the overlap conflict
        # when an overwrite policy is given
        consts = {} if overwrite is None else {"off": 9.0}
        hd.runner._constants = {**hd.runner._constants, **consts}
        hd.harvest_combos(second, overwrite=overwrite)
        expected_last = hd.last_ds

        hc = Harvester(make_runner(), data_name=f_crop)
        crop = hc.Crop(name=tag + "-1", parent_dir=tdir, num_batches=3)
        crop.sow_combos(first, verbosity=0)
        child(tdir, tag + "-1", "grow")
        info = child(tdir, tag + "-1", "reap")
        assert info["farmer_type"] == "Harvester"
        assert info["is_last"] and info["gone"]

        hc.runner._constants = {**hc.runner._constants, **consts}
        crop = hc.Crop(name=tag + "-2", parent_dir=tdir, num_batches=3)
        crop.sow_combos(second, verbosity=0)
        # reloaded crop in this process, grown and reaped there
        c2 = Crop(name=tag + "-2", parent_dir=tdir)
        assert isinstance(c2.farmer, Harvester) and c2.farmer is not hc
        assert c2.farmer.data_name == f_crop
        c2.grow_missing(verbosity=0)
        ds = c2.reap(overwrite=overwrite)
        same_ds(ds, expected_last)
        assert c2.farmer.last_ds is ds
        assert not os.path.exists(c2.location)

        with xyzpy.load_ds(f_direct) as d1, xyzpy.load_ds(f_crop) as d2:
            same_ds(d2.load(), d1.load())
        same_ds(c2.farmer.full_ds, hd.full_ds)
        c2.farmer.full_ds.close()
        hd.full_ds.close()
        assert sorted(x for x in os.listdir(tdir) if x.startswith(tag)) == \
            sorted([tag + "-direct.h5", tag + "-crop.h5"])


def check_sampler_reload(tdir):
    combos = {"x": [1, 2, 3, 4], "y": lambda: 10}
    f_direct = os.path.join(tdir, "sm-direct.pkl")
    f_crop = os.path.join(tdir, "sm-crop.pkl")

    sd = Sampler(make_sd_runner(), data_name=f_direct,
                 default_combos={"x": [0], "y": [0]})
    np.random.seed(11)
    sd.sample_combos(5, combos)
    np.random.seed(12)
    exp2 = sd.sample_combos(4)

    sc = Sampler(make_sd_runner(), data_name=f_crop,
                 default_combos={"x": [0], "y": [0]})
    crop = sc.Crop(name="sm-1", parent_dir=tdir, batchsize=2)
    np.random.seed(11)
    crop.sow_samples(5, combos, verbosity=0)
    child(tdir, "sm-1", "grow")
    info = child(tdir, "sm-1", "reap")
    assert info["farmer_type"] == "Sampler"
    assert info["is_last"] and info["gone"]
    same_df(info["res"], sd.full_df.iloc[:5].reset_index(drop=True)[
        list(info["res"].columns)])

    crop = sc.Crop(name="sm-2", parent_dir=tdir, batchsize=3)
    np.random.seed(12)
    crop.sow_samples(4, verbosity=0)
    c2 = Crop(name="sm-2", parent_dir=tdir)
    assert isinstance(c2.farmer, Sampler) and c2.farmer is not sc
    assert c2.farmer.default_combos == {"x": [0], "y": [0]}
    c2.grow_missing(verbosity=0)
    df = c2.reap()
    same_df(df, exp2)
    assert c2.farmer.last_df is df and c2.farmer.runner._last_df is df
    assert not os.path.exists(c2.location)

    same_df(pd.read_pickle(f_crop), pd.read_pickle(f_direct))
    same_df(c2.farmer.full_df, sd.full_df)
    assert len(sd.full_df) == 9
    assert sorted(x for x in os.listdir(tdir) if x.startswith("sm-")) == \
        ["sm-crop.pkl", "sm-direct.pkl"]


def main():
    check_parse_fn_farmer()
    tdir = tempfile.mkdtemp(prefix="c06-t6-")
    try:
        check_saved_settings(tdir)
        check_sync_and_load_function(tdir)
        check_runner_reload(tdir)
        check_harvester_reload(tdir)
        check_sampler_reload(tdir)
        leftovers = [x for x in os.listdir(tdir) if x.startswith(".xyz-")]
        assert leftovers == [], leftovers
    finally:
        shutil.rmtree(tdir, ignore_errors=True)
    print("PASS")


if __name__ == "__main__":
    main()
