"""Demo for twin 1 (C17): the per-series data generators in xyzpy/plot/core.py
(``Plotter.prepare_xy_vals_lineplot`` / ``Plotter.prepare_x_vals_histogram``).

Run as ``cd <worktree> && /venv/bin/python /path/to/demo.py``.
"""
import os
import sys

sys.path.insert(0, os.getcwd())
os.environ.setdefault("MPLBACKEND", "Agg")

import shutil
import tempfile
import warnings

import numpy as np
import xarray as xr
import matplotlib

matplotlib.use("Agg")
import matplotlib.pyplot as plt
from matplotlib.collections import LineCollection, PathCollection

import xyzpy
from xyzpy.plot import core
from xyzpy.plot.color import xyz_colormaps
from xyzpy.plot.plotter_matplotlib import (
    LinePlot, Scatter, Histogram,
    lineplot, scatter, histogram,
    auto_lineplot, auto_scatter, auto_histogram,
)

assert os.path.dirname(os.path.dirname(os.path.abspath(xyzpy.__file__))) \
    == os.path.abspath(os.getcwd()), xyzpy.__file__

warnings.filterwarnings("ignore")
import logging
logging.getLogger("matplotlib.font_manager").setLevel(logging.ERROR)
NCHECK = [0]


def check(cond, msg=""):
    NCHECK[0] += 1
    if not cond:
        raise AssertionError(msg)


def same(a, b, msg=""):
    a, b = np.asarray(a), np.asarray(b)
    check(a.shape == b.shape and a.dtype.kind == b.dtype.kind and
          np.array_equal(a, b), "{}: {!r} != {!r}".format(msg, a, b))


def data_lines(ax):
    """The lines that carry series data (not spans, not errorbar caps)."""
    return [ln for ln in ax.get_lines() if not ln.get_label().startswith("_")
            or ln.get_label().startswith("_child")]


def make_ds(seed=0, nx=7, nz=4, nw=1, zvals=None, with_w=False):
    rng = np.random.RandomState(seed)
    x = np.linspace(1.0, 4.0, nx)
    z = np.arange(nz) * 1.5 + 0.5 if zvals is None else np.asarray(zvals)
    shape = (nx, nz, nw) if with_w else (nx, nz)
    dims = ("x", "z", "w") if with_w else ("x", "z")
    y = rng.uniform(1, 2, shape)
    y2 = rng.uniform(3, 5, shape)
    ye = rng.uniform(0.01, 0.1, shape)
    xe = rng.uniform(0.01, 0.1, shape)
    # NaN / inf pattern: scattered holes, an all-NaN series, an inf
    y[1, 0] = np.nan
    y[3, 1] = np.inf
    y[5, 1] = -np.inf
    if nz > 2:
        y[:, 2] = np.nan
    y2[0, 0] = np.nan
    coords = {"x": x, "z": z}
    if with_w:
        coords["w"] = np.arange(nw) + 10
    ds = xr.Dataset(
        coords=coords,
        data_vars={
            "y": (dims, y),
            "y2": (dims, y2),
            "ye": (dims, ye),
            "xe": (dims, xe),
            "cz": (("z",), rng.uniform(0, 10, nz)),
            "cp": (dims, rng.uniform(-1, 1, shape)),
        },
    )
    return ds


def expected_pairs(xda, yda, *others):
    """Reference: broadcast, flatten, keep pairs where both are finite."""
    arrs = xr.broadcast(xda, yda, *others)
    flat = [a.values.flatten() for a in arrs]
    ok = np.isfinite(flat[0]) & np.isfinite(flat[1])
    return [f[ok] for f in flat]


def run(cls, ds, *args, **kwargs):
    before = ds.copy(deep=True)
    P = cls(ds, *args, **kwargs)
    fig = P()
    check(ds.identical(before), "dataset was modified by plotting")
    check(fig is P._fig)
    return P, fig


# --------------------------------------------------------------------------- #
# lineplot: one series per z, in order, labelled, exactly the finite pairs
# --------------------------------------------------------------------------- #

def test_lineplot_z():
    for kw in ({}, {"xlog": True, "ylog": True}, {"markers": False},
               {"colors": True}, {"legend": False}, {"lines": False}):
        ds = make_ds(1)
        P, fig = run(LinePlot, ds, "x", "y", "z", **kw)
        lines = P._axes.get_lines()
        check(len(lines) == ds.z.size, "one line per z")
        for i, (zv, ln) in enumerate(zip(ds.z.values, lines)):
            ex, ey = expected_pairs(ds["x"], ds["y"].isel(z=i))
            same(ln.get_xdata(), ex, "x of series")
            same(ln.get_ydata(), ey, "y of series")
            check(ln.get_label() == str(zv), "label")
        # all-NaN series is drawn, empty
        check(len(lines[2].get_xdata()) == 0)
        check(list(P._legend_labels) == [str(z) for z in ds.z.values])


def test_lineplot_str_z_and_nondim_z():
    ds = make_ds(2, zvals=["a", "b", "c", "d"])
    P, fig = run(LinePlot, ds, "x", "y", "z", colors=True)
    lines = P._axes.get_lines()
    cmap = xyz_colormaps(None)
    for i, ln in enumerate(lines):
        ex, ey = expected_pairs(ds["x"], ds["y"].isel(z=i))
        same(ln.get_xdata(), ex)
        same(ln.get_ydata(), ey)
        check(ln.get_label() == "abcd"[i])
        check(matplotlib.colors.to_rgba(ln.get_color()) ==
              matplotlib.colors.to_rgba(cmap(np.linspace(0, 1, 4)[i])))

    # z given by a non-index coordinate: positional indexing fails with a
    # ValueError and label based ``.loc`` selection is used instead
    ds = make_ds(3).swap_dims({"z": "k"}).reset_coords("z").set_coords("z")
    ds = ds.set_xindex("z")
    P, fig = run(LinePlot, ds, "x", "y", "z")
    lines = P._axes.get_lines()
    check(len(lines) == ds.z.size)
    for i, ln in enumerate(lines):
        ex, ey = expected_pairs(ds["x"], ds["y"].isel(k=i))
        same(ln.get_xdata(), ex)
        same(ln.get_ydata(), ey)
        check(ln.get_label() == str(ds.z.values[i]))


def test_lineplot_no_z_and_multivar():
    ds = make_ds(4).isel(z=0)
    P, fig = run(LinePlot, ds, "x", "y")
    (ln,) = P._axes.get_lines()
    ex, ey = expected_pairs(ds["x"], ds["y"])
    same(ln.get_xdata(), ex)
    same(ln.get_ydata(), ey)

    # single series with c / y_err / x_err but no z
    P, fig = run(LinePlot, ds, "x", "y", c="cz", y_err="ye", x_err="xe")
    check(P._c_cols == [ds["cz"].values.item()])
    cont = P._axes.containers[0]
    ex, ey, eye, exe = expected_pairs(ds["x"], ds["y"], ds["ye"], ds["xe"])
    same(cont.lines[0].get_xdata(), ex)
    same(cont.lines[0].get_ydata(), ey)

    # several variables instead of z
    ds = make_ds(5).isel(z=1)
    P, fig = run(LinePlot, ds, "x", ["y", "y2"])
    lines = P._axes.get_lines()
    check([ln.get_label() for ln in lines] == ["y", "y2"])
    for var, ln in zip(["y", "y2"], lines):
        ex, ey = expected_pairs(ds["x"], ds[var])
        same(ln.get_xdata(), ex)
        same(ln.get_ydata(), ey)

    # multi-var with errors / c is refused, when the first series is drawn
    for bad in ({"y_err": "ye"}, {"x_err": "xe"}, {"c": "cz"}):
        try:
            LinePlot(ds, "x", ("y", "y2"), **bad)()
        except ValueError as e:
            check(str(e) == "Multi-var errors/c not implemented.", str(e))
        else:
            check(False, "expected ValueError")
    # ... but a missing variable is reported first
    try:
        LinePlot(ds, "x", ("nope", "y2"), y_err="ye", legend=False)()
    except KeyError:
        check(True)
    else:
        check(False, "expected KeyError")
    plt.close("all")


def segs(coll):
    return np.array(coll.get_segments())


def test_lineplot_errors_and_c():
    ds = make_ds(6)
    P, fig = run(LinePlot, ds, "x", "y", "z", y_err="ye", x_err="xe", c="cz",
                 colormap="viridis")
    conts = P._axes.containers
    check(len(conts) == ds.z.size)
    cmap = xyz_colormaps("viridis")
    norm = matplotlib.colors.Normalize(vmin=float(ds.cz.min()),
                                       vmax=float(ds.cz.max()))
    same(P._c_cols, [c for c in ds.cz.values])
    for i, cont in enumerate(conts):
        sub = ds.isel(z=i)
        ex, ey, eye, exe = expected_pairs(sub["x"], sub["y"], sub["ye"],
                                          sub["xe"])
        ln = cont.lines[0]
        same(ln.get_xdata(), ex)
        same(ln.get_ydata(), ey)
        check(cont.get_label() == str(ds.z.values[i]))
        check(matplotlib.colors.to_rgba(ln.get_color()) ==
              matplotlib.colors.to_rgba(cmap(norm(ds.cz.values[i]))))
        xbars, ybars = cont.lines[2]
        if len(ex):
            sx, sy = segs(xbars), segs(ybars)
            check(np.allclose(sx[:, 0, 0], ex - exe) and
                  np.allclose(sx[:, 1, 0], ex + exe) and
                  np.allclose(sx[:, 0, 1], ey))
            check(np.allclose(sy[:, 0, 1], ey - eye) and
                  np.allclose(sy[:, 1, 1], ey + eye) and
                  np.allclose(sy[:, 0, 0], ex))
        else:
            check(len(xbars.get_segments()) == 0)

    # only y_err, in a 3d dataset with a singlet extra dimension
    ds = make_ds(7, with_w=True)
    P, fig = run(LinePlot, ds, "x", "y", "z", y_err="ye")
    for i, cont in enumerate(P._axes.containers):
        sub = ds.isel(z=i)
        ex, ey, eye = expected_pairs(sub["x"], sub["y"], sub["ye"])
        same(cont.lines[0].get_xdata(), ex)
        same(cont.lines[0].get_ydata(), ey)
        check(len(cont.lines[2]) == 1)
        if len(ex):
            sy = segs(cont.lines[2][0])
            check(np.allclose(sy[:, 0, 1], ey - eye))

    # too many non-singlet dims
    ds = make_ds(8, with_w=True, nw=2)
    try:
        LinePlot(ds, "x", "y", "z")()
    except ValueError as e:
        check("too many non-singlet" in str(e))
    else:
        check(False)
    plt.close("all")


def test_jitter():
    ds = make_ds(9)
    for xlog, ylog in [(False, False), (True, False), (False, True),
                       (True, True)]:
        for xj, yj in [(0.05, None), (None, 0.02), (0.03, 0.04)]:
            np.random.seed(1234)
            P, fig = run(LinePlot, ds, "x", "y", "z", xjitter=xj, yjitter=yj,
                         xlog=xlog, ylog=ylog)
            got = [(ln.get_xdata(), ln.get_ydata())
                   for ln in P._axes.get_lines()]
            np.random.seed(1234)
            for i in range(ds.z.size):
                ex, ey = expected_pairs(ds["x"], ds["y"].isel(z=i))
                if xj:
                    if xlog:
                        ex = ex * np.random.normal(loc=1, scale=xj,
                                                   size=ex.shape)
                    else:
                        ex = ex + np.random.normal(loc=0, scale=xj,
                                                   size=ex.shape)
                if yj:
                    if ylog:
                        ey = ey * np.random.normal(loc=1, scale=yj,
                                                   size=ey.shape)
                    else:
                        ey = ey + np.random.normal(loc=0, scale=yj,
                                                   size=ey.shape)
                same(got[i][0], ex, "jittered x")
                same(got[i][1], ey, "jittered y")
            # the random stream has been advanced by exactly the same amount
            a = np.random.uniform()
            np.random.seed(1234)
            P, fig = run(LinePlot, ds, "x", "y", "z", xjitter=xj, yjitter=yj,
                         xlog=xlog, ylog=ylog)
            check(a == np.random.uniform())


# --------------------------------------------------------------------------- #
# the generator itself
# --------------------------------------------------------------------------- #

def test_generator_direct():
    ds = make_ds(10)
    for mode, cls in (("lineplot", LinePlot), ("scatter", Scatter)):
        P = cls(ds, "x", "y", "z", c="cp" if mode == "scatter" else "cz",
                y_err="ye", x_err="xe")
        P.prepare_z_vals(mode=mode)
        P.prepare_xy_vals_lineplot(mode=mode)
        out = list(P._gen_xy())
        check(len(out) == ds.z.size)
        for i, data in enumerate(out):
            sub = ds.isel(z=i)
            if mode == "scatter":
                check(list(data) == ["x", "y", "c", "ye", "xe"])
                ex, ey, ec, eye, exe = expected_pairs(
                    sub["x"], sub["y"], sub["cp"], sub["ye"], sub["xe"])
                same(data["c"], ec)
            else:
                check(list(data) == ["x", "y", "ye", "xe"])
                ex, ey, eye, exe = expected_pairs(
                    sub["x"], sub["y"], sub["ye"], sub["xe"])
            same(data["x"], ex)
            same(data["y"], ey)
            same(data["ye"], eye)
            same(data["xe"], exe)
        if mode == "lineplot":
            same(P._c_cols, list(ds.cz.values))
            # generator is restartable and appends again
            list(P._gen_xy())
            check(len(P._c_cols) == 2 * ds.z.size)
        else:
            check(P._c_cols == [])

    # 'c' that is not a scalar per line cannot be used for a lineplot
    P = LinePlot(ds, "x", "y", "z", c="cp")
    P.prepare_z_vals()
    P.prepare_xy_vals_lineplot()
    try:
        next(P._gen_xy())
    except ValueError:
        check(True)
    else:
        check(False)

    # mode that is neither: c is silently not collected
    P = LinePlot(ds, "x", "y", "z", c="cz")
    P.prepare_z_vals()
    P.prepare_xy_vals_lineplot(mode="histogram")
    out = list(P._gen_xy())
    check(all(list(d) == ["x", "y"] for d in out) and P._c_cols == [])

    # non-numeric y cannot be tested for finiteness
    ds2 = xr.Dataset(coords={"x": [1.0, 2.0]},
                     data_vars={"y": ("x", ["a", "b"])})
    P = LinePlot(ds2, "x", "y")
    P.prepare_z_vals()
    P.prepare_xy_vals_lineplot()
    try:
        next(P._gen_xy())
    except TypeError:
        check(True)
    else:
        check(False)

    # x that depends on z as well (2d x): broadcasting + flattening
    x2 = np.arange(12.0).reshape(3, 4)
    x2[1, 1] = np.nan
    y2 = x2[::-1].copy() ** 2
    y2[0, 0] = np.inf
    ds3 = xr.Dataset(data_vars={"y": (["z", "_x"], y2),
                                "x": (["z", "_x"], x2)},
                     coords={"z": [3, 1, 2]})
    P, fig = run(LinePlot, ds3, "x", "y", "z")
    for i, ln in enumerate(P._axes.get_lines()):
        ex, ey = expected_pairs(ds3["x"].isel(z=i), ds3["y"].isel(z=i))
        same(ln.get_xdata(), ex)
        same(ln.get_ydata(), ey)
        check(ln.get_label() == str(ds3.z.values[i]))


# --------------------------------------------------------------------------- #
# scatter
# --------------------------------------------------------------------------- #

def test_scatter():
    ds = make_ds(11)
    for kw in ({}, {"c": "cp"}, {"c": "cz"}, {"colors": True},
               {"xlog": True}):
        P, fig = run(Scatter, ds, "x", "y", "z", **kw)
        colls = [c for c in P._axes.collections
                 if isinstance(c, PathCollection)]
        check(len(colls) == ds.z.size)
        for i, coll in enumerate(colls):
            sub = ds.isel(z=i)
            if "c" in kw:
                ex, ey, ec = expected_pairs(sub["x"], sub["y"], sub[kw["c"]])
                same(np.asarray(coll.get_array()), ec)
            else:
                ex, ey = expected_pairs(sub["x"], sub["y"])
            offs = np.asarray(coll.get_offsets())
            same(offs[:, 0], ex)
            same(offs[:, 1], ey)
            check(coll.get_label() == str(ds.z.values[i]))
        check(P._legend_labels == [str(z) for z in ds.z.values])

    # no z, multi-var
    ds1 = ds.isel(z=0)
    P, fig = run(Scatter, ds1, "x", ("y", "y2"))
    colls = P._axes.collections
    check([c.get_label() for c in colls] == ["y", "y2"])
    for var, coll in zip(("y", "y2"), colls):
        ex, ey = expected_pairs(ds1["x"], ds1[var])
        offs = np.asarray(coll.get_offsets())
        same(offs[:, 0], ex)
        same(offs[:, 1], ey)
    P, fig = run(Scatter, ds1, "x", "y", c="cp")
    (coll,) = P._axes.collections
    ex, ey, ec = expected_pairs(ds1["x"], ds1["y"], ds1["cp"])
    same(np.asarray(coll.get_array()), ec)
    same(np.asarray(coll.get_offsets())[:, 1], ey)


# --------------------------------------------------------------------------- #
# histogram
# --------------------------------------------------------------------------- #

def hist_reference(series, bins, stacked=False):
    fig = plt.figure()
    ax = fig.add_axes((0.1, 0.1, 0.8, 0.8))
    _, _, patches = ax.hist(tuple(series), bins=bins, density=True,
                            histtype="stepfilled", fill=True, stacked=stacked)
    if len(series) == 1:
        patches = [patches]
    out = [[p.get_xy().copy() for p in ps] for ps in patches]
    plt.close(fig)
    return out


def hist_polys(ax):
    # matplotlib adds 'stepfilled' polygons to the axes last series first
    from matplotlib.patches import Polygon
    return [p for p in ax.patches if isinstance(p, Polygon)][::-1]


def test_histogram():
    rng = np.random.RandomState(12)
    v = rng.normal(size=(50, 3))
    v[3, 0] = np.nan
    v[4, 1] = np.inf
    v[5, 1] = -np.inf
    v[10:20, 2] = np.nan
    w = rng.uniform(size=(50, 3))
    w[0, :] = np.nan
    ds = xr.Dataset(coords={"z": [10, 20, 30]},
                    data_vars={"v": (("n", "z"), v), "w": (("n", "z"), w)})

    # the generator: exactly the finite values of each series, in z order
    P = Histogram(ds, "v", z="z")
    P.prepare_z_vals(mode="histogram")
    P.prepare_x_vals_histogram()
    out = list(P._gen_xy())
    check(len(out) == 3 and all(list(d) == ["x"] for d in out))
    for i, d in enumerate(out):
        col = v[:, i]
        same(d["x"], col[np.isfinite(col)])

    for kw in ({}, {"bins": 7}, {"stacked": True}):
        P, fig = run(Histogram, ds, "v", z="z", **kw)
        series = [v[:, i][np.isfinite(v[:, i])] for i in range(3)]
        ref = hist_reference(series, kw.get("bins", 30),
                             kw.get("stacked", False))
        polys = hist_polys(P._axes)
        check(len(polys) == 3)
        tab10 = matplotlib.cm.tab10.colors
        for i, (p, r) in enumerate(zip(polys, ref)):
            same(p.get_xy(), r[0], "histogram polygon")
            check(np.allclose(p.get_facecolor(), tab10[i] + (0.25,)))
            check(np.allclose(p.get_edgecolor(), tab10[i] + (1.0,)))
        check(tuple(P._legend_labels) == ("10", "20", "30"))

    # several variables
    P, fig = run(Histogram, ds, ("v", "w"))
    series = [a.flatten()[np.isfinite(a.flatten())] for a in (v, w)]
    ref = hist_reference(series, 30)
    polys = hist_polys(P._axes)
    check(len(polys) == 2)
    for p, r in zip(polys, ref):
        same(p.get_xy(), r[0])
    check(tuple(P._legend_labels) == ("v", "w"))

    # single variable, no z
    P, fig = run(Histogram, ds, "w")
    ref = hist_reference(series[1:], 30)
    (poly,) = hist_polys(P._axes)
    same(poly.get_xy(), ref[0][0])

    # missing z label -> KeyError from the label based selection
    P = Histogram(ds, "v", z="z")
    P.prepare_z_vals(mode="histogram")
    P._z_vals = np.array([10, 99])
    P.prepare_x_vals_histogram()
    g = P._gen_xy()
    next(g)
    try:
        next(g)
    except KeyError:
        check(True)
    else:
        check(False)


# --------------------------------------------------------------------------- #
# grids, auto variants, rendering
# --------------------------------------------------------------------------- #

def test_grid_and_auto(tmpdir):
    ds = make_ds(13, with_w=True, nw=3)
    before = ds.copy(deep=True)
    fig = lineplot(ds, "x", "y", "z", col="w", y_err="ye")
    check(ds.identical(before))
    axes = fig.axes
    check(len(axes) == 3)
    for j, ax in enumerate(axes):
        check(ax.get_title() == "w = {}".format(ds.w.values[j]))
        conts = ax.containers
        check(len(conts) == ds.z.size)
        for i, cont in enumerate(conts):
            sub = ds.isel(z=i, w=j)
            ex, ey, eye = expected_pairs(sub["x"], sub["y"], sub["ye"])
            same(cont.lines[0].get_xdata(), ex)
            same(cont.lines[0].get_ydata(), ey)
    fig.savefig(os.path.join(tmpdir, "grid.png"))

    fig = scatter(ds, "x", "y", "z", row="w", c="cp")
    check(ds.identical(before))
    for j, ax in enumerate(fig.axes[:3]):
        check(ax.get_ylabel() == "w = {}".format(ds.w.values[j]))
        for i, coll in enumerate(ax.collections):
            sub = ds.isel(z=i, w=j)
            ex, ey, ec = expected_pairs(sub["x"], sub["y"], sub["cp"])
            offs = np.asarray(coll.get_offsets())
            same(offs[:, 0], ex)
            same(offs[:, 1], ey)
            same(np.asarray(coll.get_array()), ec)

    fig = histogram(ds, "y2", z="z", col="w")
    check(ds.identical(before))
    for j, ax in enumerate(fig.axes):
        check(ax.get_title() == "w = {}".format(ds.w.values[j]))
        series = []
        for i in range(ds.z.size):
            a = ds["y2"].isel(z=i, w=j).values.flatten()
            series.append(a[np.isfinite(a)])
        ref = hist_reference(series, 30)
        for p, r in zip(hist_polys(ax), ref):
            same(p.get_xy(), r[0])

    # auto variants
    x = np.linspace(0, 1, 6)
    yz = np.random.RandomState(3).uniform(size=(3, 6))
    yz[1, 2] = np.nan
    yz[2, :] = np.nan
    fig = auto_lineplot(x, yz)
    lines = fig.axes[0].get_lines()
    check(len(lines) == 3)
    for i, ln in enumerate(lines):
        ok = np.isfinite(yz[i])
        same(ln.get_xdata(), x[ok])
        same(ln.get_ydata(), yz[i][ok])
        check(ln.get_label() == str(i))
    fig = auto_scatter(x, yz)
    for i, coll in enumerate(fig.axes[0].collections):
        ok = np.isfinite(yz[i])
        offs = np.asarray(coll.get_offsets())
        same(offs[:, 0], x[ok])
        same(offs[:, 1], yz[i][ok])
    fig = auto_histogram(yz)
    (poly,) = hist_polys(fig.axes[0])
    flat = yz.flatten()
    same(poly.get_xy(), hist_reference([flat[np.isfinite(flat)]], 30)[0][0])
    fig.savefig(os.path.join(tmpdir, "auto.png"))


def main():
    tmpdir = tempfile.mkdtemp(prefix="c17_t1_demo_")
    try:
        test_lineplot_z()
        test_lineplot_str_z_and_nondim_z()
        test_lineplot_no_z_and_multivar()
        test_lineplot_errors_and_c()
        test_jitter()
        test_generator_direct()
        test_scatter()
        test_histogram()
        test_grid_and_auto(tmpdir)
    finally:
        plt.close("all")
        shutil.rmtree(tmpdir, ignore_errors=True)
    print("checks:", NCHECK[0])
    print("PASS")


if __name__ == "__main__":
    main()
