"""Demo for C15 (sampling only ever appends correct rows) -- Sampler side.

Run as ``cd <worktree> && /venv/bin/python /path/to/demo.py``.
Exercises ``Sampler.gen_cases_fnargs``, ``Sampler.add_df``,
``Sampler.load_full_df``, ``Sampler.save_full_df``, ``Sampler.sample_combos``
and the crop based ``sow_samples`` / ``grow`` / ``reap`` route.
"""
import os
import sys

sys.path.insert(0, os.getcwd())

import shutil
import tempfile
import warnings
from unittest import mock

import numpy as np
import pandas as pd
from pandas.testing import assert_frame_equal

import xyzpy
from xyzpy import Runner, Sampler
from xyzpy.manage import load_df

assert os.path.dirname(os.path.dirname(os.path.abspath(xyzpy.__file__))) \
    == os.path.abspath(os.getcwd()), xyzpy.__file__

warnings.simplefilter("ignore")

A_CHOICES = (1, 2, 3, 4, 5)
A_OVERRIDE = (100, 200)
B_LO, B_HI = 10, 20
C_CONST = 42


def fn(a, b, c):
    return a + b, a - b, a % b == 0, c


def make_runner(constants=None):
    return Runner(
        fn,
        var_names=["sum", "diff", "divisor", "const"],
        constants={"c": C_CONST} if constants is None else constants,
    )


def gen_b():
    return np.random.randint(B_LO, B_HI)


DEFAULT_COMBOS = (("a", A_CHOICES), ("b", gen_b))


def check_rows(df, a_choices, c=C_CONST):
    """Each row's arguments are allowed and outputs are fn(arguments)."""
    for row in df.to_dict("records"):
        a, b = int(row["a"]), int(row["b"])
        assert a in a_choices, (a, a_choices)
        assert B_LO <= b < B_HI, b
        assert int(row["c"]) == c
        s, d, dv, cc = fn(a, b, c)
        assert int(row["sum"]) == s
        assert int(row["diff"]) == d
        assert bool(row["divisor"]) == bool(dv)
        assert int(row["const"]) == cc


def same_table(x, y, exact=True):
    x = x.reset_index(drop=True)
    y = y.reset_index(drop=True)
    assert sorted(x.columns) == sorted(y.columns), (x.columns, y.columns)
    cols = sorted(x.columns)
    assert_frame_equal(x[cols], y[cols], check_dtype=exact)


def reference_cases(default_combos, n, combos):
    """The documented drawing order: sample by sample, argument by argument,
    in the order of default combos updated with the overrides."""
    combos = {} if combos is None else dict(combos)
    combos = {**dict(default_combos), **combos}
    cases = tuple(
        tuple(
            v() if callable(v) else np.random.choice(v)
            for v in combos.values()
        )
        for _ in range(n)
    )
    return tuple(combos.keys()), cases


# --------------------------------------------------------------------------- #


def test_gen_cases_fnargs():
    s = Sampler(make_runner(), default_combos=DEFAULT_COMBOS)

    for n, combos in [
        (0, None),
        (1, None),
        (7, None),
        (5, {"a": A_OVERRIDE}),
        (5, (("a", A_OVERRIDE),)),
        (4, {"b": lambda: 11, "a": [3]}),
        (3, {"z": ("p", "q")}),
        (np.int64(3), None),
    ]:
        np.random.seed(1234)
        fn_args, cases = s.gen_cases_fnargs(n, combos)
        state_after = np.random.get_state()[1].copy()
        np.random.seed(1234)
        ref_args, ref_cases = reference_cases(DEFAULT_COMBOS, n, combos)
        ref_state_after = np.random.get_state()[1].copy()

        assert isinstance(fn_args, tuple) and isinstance(cases, tuple)
        assert all(isinstance(c, tuple) for c in cases)
        assert fn_args == ref_args, (fn_args, ref_args)
        assert cases == ref_cases, (cases, ref_cases)
        assert len(cases) == n
        # exactly the same number of random draws were consumed
        assert (state_after == ref_state_after).all()

    # overriding a default keeps its position, new keys go last
    fn_args, _ = s.gen_cases_fnargs(1, {"q": (1,), "a": (9,)})
    assert fn_args == ("a", "b", "q")

    # default combos are never modified by overrides
    s.gen_cases_fnargs(2, {"a": A_OVERRIDE, "new": (1,)})
    assert s.default_combos == dict(DEFAULT_COMBOS)

    # no defaults and no combos -> n empty cases
    s0 = Sampler(make_runner())
    assert s0.gen_cases_fnargs(3) == ((), ((), (), ()))

    # the order of calls to the generators is sample-major
    calls = []
    s1 = Sampler(make_runner(), default_combos={
        "a": lambda: calls.append("a") or 1,
        "b": lambda: calls.append("b") or 2,
    })
    assert s1.gen_cases_fnargs(3) == (("a", "b"), ((1, 2),) * 3)
    assert calls == ["a", "b"] * 3

    # bad n fails before anything is drawn
    calls.clear()
    for bad in (2.5, None, "3"):
        try:
            s1.gen_cases_fnargs(bad)
        except TypeError:
            pass
        else:
            raise AssertionError("expected TypeError")
    assert calls == []

    # a non-mapping ``default_combos`` attribute is still rejected
    s2 = Sampler(make_runner())
    s2.default_combos = DEFAULT_COMBOS
    try:
        s2.gen_cases_fnargs(1)
    except TypeError:
        pass
    else:
        raise AssertionError("expected TypeError")

    # an exception in a generator propagates
    def boom():
        raise RuntimeError("boom")
    try:
        s1.gen_cases_fnargs(1, {"b": boom})
    except RuntimeError as e:
        assert str(e) == "boom"
    else:
        raise AssertionError("expected RuntimeError")


def run_sequence(tmpdir, engine, fname):
    path = os.path.join(tmpdir, fname)
    expected_len = 0
    previous = None
    allowed = set(A_CHOICES) | set(A_OVERRIDE)

    plan = [
        ("direct", 3, None),
        ("direct", 1, {"a": A_OVERRIDE}),
        ("crop", 4, None, 2),
        ("direct", 5, (("a", A_OVERRIDE),)),
        ("crop", 3, {"a": A_OVERRIDE}, 1),
        ("crop", 5, None, 10),
        ("direct", 2, None),
    ]

    for i, step in enumerate(plan):
        # a fresh sampler on the same file continues from it
        s = Sampler(make_runner(), path, default_combos=DEFAULT_COMBOS,
                    engine=engine)
        kind, n, combos = step[:3]
        a_choices = A_CHOICES if combos is None else A_OVERRIDE

        if kind == "direct":
            last = s.sample_combos(n, combos)
        else:
            crop = s.Crop(name="crop{}".format(i), parent_dir=tmpdir,
                          batchsize=step[3])
            crop.sow_samples(n, combos, verbosity=0)
            assert crop.num_sown_batches == -(-n // step[3])
            crop.grow_missing()
            last = crop.reap()
            assert not os.path.exists(crop.location)

        expected_len += n
        assert last is s.last_df
        assert len(last) == n
        check_rows(last, a_choices)

        full = s.full_df
        assert len(full) == expected_len
        assert list(full.index) == list(range(expected_len))
        check_rows(full, allowed)

        # last rows of the table are the new rows
        same_table(full.iloc[-n:], last, exact=False)

        # earlier rows unchanged
        if previous is not None:
            same_table(full.iloc[:len(previous)], previous, exact=False)

        # on disk table equals the in memory one
        on_disk = load_df(path, engine=engine)
        same_table(on_disk, full, exact=(engine == "pickle"))

        # and no temporary file is left behind
        assert sorted(f for f in os.listdir(tmpdir)
                      if not os.path.isdir(os.path.join(tmpdir, f))) \
            == [fname]

        # a fresh sampler lazily loads the very same table
        s_new = Sampler(make_runner(), path, engine=engine)
        assert s_new._full_df is None
        same_table(s_new.full_df, on_disk)
        assert s_new.last_df is None

        previous = on_disk

    return previous


def test_sequences():
    for engine, fname in [("pickle", "tbl.pkl"), ("csv", "tbl.csv"),
                          (None, "tbl_default.pkl")]:
        tmpdir = tempfile.mkdtemp()
        try:
            np.random.seed(7)
            final = run_sequence(tmpdir, engine or "pickle", fname) \
                if engine else None
            if engine is None:
                # engine=None means pickle
                s = Sampler(make_runner(), os.path.join(tmpdir, fname),
                            default_combos=DEFAULT_COMBOS, engine=None)
                assert s.engine == "pickle"
                s.sample_combos(2)
                same_table(pd.read_pickle(s.data_name), s.full_df)
            else:
                assert len(final) == 23
        finally:
            shutil.rmtree(tmpdir)


def test_engine_override_and_constants():
    tmpdir = tempfile.mkdtemp()
    try:
        path = os.path.join(tmpdir, "t.csv")
        # sampler default engine is pickle, but each run says csv
        s = Sampler(make_runner(), path, default_combos=DEFAULT_COMBOS)
        s.sample_combos(3, engine="csv")
        s.sample_combos(2, engine="csv")
        same_table(pd.read_csv(path), s.full_df, exact=False)
        assert len(s.full_df) == 5

        # constants supplied at sow time label the rows
        s2 = Sampler(make_runner(), os.path.join(tmpdir, "t2.pkl"),
                     default_combos=DEFAULT_COMBOS)
        crop = s2.Crop(name="cc", parent_dir=tmpdir, batchsize=2)
        crop.sow_samples(3, constants={"c": 7}, verbosity=0)
        crop.grow_missing()
        df = crop.reap()
        assert len(df) == 3
        check_rows(df, A_CHOICES, c=7)
        same_table(pd.read_pickle(s2.data_name), s2.full_df)
    finally:
        shutil.rmtree(tmpdir)


def test_add_df_paths():
    # no data_name: purely in memory
    s = Sampler(make_runner(), default_combos=DEFAULT_COMBOS)
    first = s.sample_combos(3)
    assert s.full_df is not first
    same_table(s.full_df, first)
    # deep copy: modifying last_df must not touch full_df
    before = s.full_df.copy(deep=True)
    first.loc[0, "sum"] = -999
    same_table(s.full_df, before)
    s.sample_combos(2)
    assert len(s.full_df) == 5
    same_table(s.full_df.iloc[:3], before)
    assert list(s.full_df.index) == [0, 1, 2, 3, 4]

    # add_df with a dict, columns get sorted on concat, NaN for missing
    s.add_df({"a": [1], "extra": [5.0]})
    assert len(s.full_df) == 6
    assert list(s.full_df.columns) == sorted(s.full_df.columns)
    assert s.full_df["extra"].isna().sum() == 5
    assert s.full_df["sum"].isna().sum() == 1

    tmpdir = tempfile.mkdtemp()
    try:
        path = os.path.join(tmpdir, "x.pkl")
        s = Sampler(make_runner(), path, default_combos=DEFAULT_COMBOS)

        # file does not exist: loading does nothing
        s.load_full_df()
        assert s._full_df is None and s.full_df is None
        assert not os.path.exists(path)

        # sync=False never touches the disk
        for falsy in (False, 0, None):
            s.add_df({"a": [1, 2]}, sync=falsy)
        assert not os.path.exists(path)
        assert len(s.full_df) == 6

        # sync=True appends to what is *on disk*, not what is in memory
        pd.DataFrame({"a": [10, 20, 30]}).to_pickle(path)
        s.add_df({"a": [40]}, sync=True)
        assert list(s.full_df["a"]) == [10, 20, 30, 40]
        assert list(pd.read_pickle(path)["a"]) == [10, 20, 30, 40]
        assert os.listdir(tmpdir) == ["x.pkl"]

        # truthy non-bool sync
        s.add_df({"a": [50]}, sync=1)
        assert list(pd.read_pickle(path)["a"]) == [10, 20, 30, 40, 50]

        # a failed save leaves memory and disk alone and can be retried
        mem_before = s._full_df
        try:
            s.add_df({"a": [60]}, engine="not_an_engine")
        except AttributeError as e:
            assert "not_an_engine" in str(e)
        else:
            raise AssertionError("expected AttributeError")
        # (the load with the bogus engine fails first)
        assert s._full_df is mem_before
        assert list(pd.read_pickle(path)["a"]) == [10, 20, 30, 40, 50]

        calls = []
        import xyzpy.gen.farming as farming
        real_save = farming.save_df

        def failing_save(df, name, engine="pickle", **kw):
            calls.append((len(df), os.path.basename(name), engine))
            raise IOError("disk full")

        with mock.patch.object(farming, "save_df", failing_save):
            try:
                s.add_df({"a": [60]})
            except IOError as e:
                assert str(e) == "disk full"
            else:
                raise AssertionError("expected IOError")
        assert calls == [(6, "x.pkl.tmp", "pickle")]
        assert list(s._full_df["a"]) == [10, 20, 30, 40, 50]
        assert list(pd.read_pickle(path)["a"]) == [10, 20, 30, 40, 50]
        assert farming.save_df is real_save
        s.add_df({"a": [60]})
        assert list(pd.read_pickle(path)["a"]) == [10, 20, 30, 40, 50, 60]

        # save_full_df with no argument rewrites the current table
        s.save_full_df()
        assert list(pd.read_pickle(path)["a"]) == [10, 20, 30, 40, 50, 60]
        assert os.listdir(tmpdir) == ["x.pkl"]

        # exists but is not writable -> OSError with the file name, and the
        # order of the checks is access first, then isfile
        seen = []
        real_isfile = os.path.isfile

        def no_access(p, mode):
            seen.append(("access", p, mode))
            return False

        def isfile(p):
            seen.append(("isfile", p))
            return real_isfile(p)

        with mock.patch.object(farming.os, "access", no_access), \
                mock.patch.object(farming.os.path, "isfile", isfile):
            try:
                s.add_df({"a": [70]})
            except OSError as e:
                assert str(e) == ("The file '{}' exists but cannot be "
                                  "written to".format(path)), str(e)
                assert type(e) is OSError
            else:
                raise AssertionError("expected OSError")
            assert seen == [("access", path, os.W_OK), ("isfile", path)]

            # not accessible and not a file -> silently nothing
            del seen[:]
            s3 = Sampler(make_runner(), os.path.join(tmpdir, "nope.pkl"))
            s3.load_full_df()
            assert s3._full_df is None
            assert [x[0] for x in seen] == ["access", "isfile"]
        assert list(pd.read_pickle(path)["a"]) == [10, 20, 30, 40, 50, 60]

        # a directory is 'accessible', so loading is attempted and fails
        s4 = Sampler(make_runner(), tmpdir)
        try:
            s4.load_full_df()
        except Exception as e:
            assert isinstance(e, OSError), type(e)
        else:
            raise AssertionError("expected an error")

        # data_name None with explicit load -> TypeError from os.access
        s5 = Sampler(make_runner())
        try:
            s5.load_full_df()
        except TypeError:
            pass
        else:
            raise AssertionError("expected TypeError")
    finally:
        shutil.rmtree(tmpdir)


def test_full_df_preset():
    # a supplied full_df is the starting table, nothing is read from disk
    start = pd.DataFrame({"a": [1], "b": [11], "c": [42], "sum": [12],
                          "diff": [-10], "divisor": [False], "const": [42]})
    s = Sampler(make_runner(), default_combos=DEFAULT_COMBOS, full_df=start)
    s.sample_combos(4)
    assert len(s.full_df) == 5
    same_table(s.full_df.iloc[:1], start, exact=False)
    check_rows(s.full_df, A_CHOICES)
    assert len(start) == 1


if __name__ == "__main__":
    test_gen_cases_fnargs()
    test_sequences()
    test_engine_override_and_constants()
    test_add_df_paths()
    test_full_df_preset()
    print("PASS")
