"""Demo / check for the colour pipeline of the classic matplotlib plots.

Run as ``cd <worktree> && python /path/to/demo.py``.  Exercises
``Plotter.calc_color_norm`` / ``calc_line_colors`` / ``prepare_colors`` and
``Scatter.plot_scatter`` through lineplot, scatter, histogram, heatmap, the
auto_* variants and row/col grids, and checks that what is drawn is exactly
the data, coloured by the colormap evaluated at the normalised value.
"""
import os
import sys
import shutil
import tempfile
import warnings

sys.path.insert(0, os.getcwd())

import matplotlib  # noqa: E402

matplotlib.use("Agg")
warnings.filterwarnings("ignore")

import matplotlib.pyplot as plt  # noqa: E402
import numpy as np  # noqa: E402
import xarray as xr  # noqa: E402

import xyzpy  # noqa: E402
from xyzpy.plot.color import xyz_colormaps  # noqa: E402
from xyzpy.plot.plotter_matplotlib import (  # noqa: E402
    lineplot, scatter, histogram, heatmap,
    auto_lineplot, auto_scatter, auto_histogram, auto_heatmap,
)

assert os.path.dirname(os.path.dirname(os.path.abspath(xyzpy.__file__))) \
    == os.path.abspath(os.getcwd()), xyzpy.__file__

N_CHECKS = [0]


def check(cond, msg):
    N_CHECKS[0] += 1
    if not cond:
        raise AssertionError(msg)


def close(a, b):
    return np.allclose(np.asarray(a, dtype=float), np.asarray(b, dtype=float),
                       rtol=0, atol=1e-12, equal_nan=True)


class Unchanged:
    """Context manager: the dataset passed in is not modified."""

    def __init__(self, ds):
        self.ds = ds

    def __enter__(self):
        self.copy = self.ds.copy(deep=True)
        return self.ds

    def __exit__(self, et, ev, tb):
        if et is None:
            check(self.ds.identical(self.copy), "dataset was modified")
            for k in self.ds.variables:
                check(self.ds[k].dtype == self.copy[k].dtype, "dtype changed")
        return False


def lin(v, lo, hi):
    if hi == lo:
        return 0.0
    return (v - lo) / (hi - lo)


def log(v, lo, hi):
    return (np.log(v) - np.log(lo)) / (np.log(hi) - np.log(lo))


def series_points(ds, x, y, sel):
    """The finite (x, y) pairs of one series, in flattened order."""
    sub = ds.isel(sel) if sel else ds
    bx, by = xr.broadcast(sub[x], sub[y])
    fx, fy = bx.values.flatten(), by.values.flatten()
    ok = np.isfinite(fx) & np.isfinite(fy)
    return fx[ok], fy[ok], ok


def check_lines(ax, ds, x, y, z, cols=None, labels=None):
    zs = ds[z].values
    lines = list(ax.lines)
    check(len(lines) == len(zs), "one line per z: %d != %d"
          % (len(lines), len(zs)))
    for i, (zv, ln) in enumerate(zip(zs, lines)):
        ex, ey, _ = series_points(ds, x, y, {z: i})
        check(close(ln.get_xdata(), ex) and close(ln.get_ydata(), ey),
              "points of line %d" % i)
        lbl = str(zv) if labels is None else labels[i]
        check(ln.get_label() == lbl, "label of line %d" % i)
        if cols is not None:
            check(close(ln.get_color(), cols[i]),
                  "colour of line %d: %r != %r" % (i, ln.get_color(), cols[i]))


def make_lines_ds(zvals, nx=6, seed=0, c=None):
    rng = np.random.default_rng(seed)
    nz = len(zvals)
    y = rng.random((nz, nx)) + 0.5
    if nz > 1:
        y[1, 2] = np.nan
        y[0, nx - 1] = np.inf
    if nz > 2:
        y[2, :] = np.nan  # all-NaN series
    ds = xr.Dataset(coords={'x': np.arange(1.0, nx + 1), 'z': zvals},
                    data_vars={'y': (('z', 'x'), y),
                               'ye': (('z', 'x'), rng.random((nz, nx)) / 10),
                               'xe': (('z', 'x'), rng.random((nz, nx)) / 10)})
    if c is not None:
        ds['cv'] = ('z', np.asarray(c))
    return ds


def test_line_colors_from_z():
    for zvals in ([3.0], [1.0, 5.0], [1, 2, 4], [0.5, 1.0, 2.0, 8.0],
                  list(np.arange(1.0, 14.0))):
        ds = make_lines_ds(zvals, seed=len(zvals))
        zs = np.asarray(zvals, dtype=float)
        lo, hi = zs.min(), zs.max()
        # default colormap, linear norm
        cmap = xyz_colormaps(None)
        with Unchanged(ds):
            fig = lineplot(ds, 'x', 'y', 'z', colors=True)
        check_lines(fig.axes[0], ds, 'x', 'y', 'z',
                    cols=[cmap(lin(v, lo, hi)) for v in zs])
        # many lines and colors=True -> colorbar instead of a legend
        check(len(fig.axes) == (2 if len(zvals) > 10 or len(zvals) == 1
                                else 1), "colorbar only when no legend")
        # named colormap, reversed, log norm
        cmap = xyz_colormaps('viridis', reverse=True)
        with Unchanged(ds):
            P = lineplot(ds, 'x', 'y', 'z', colors=True, colormap='viridis',
                         colormap_reverse=True, colormap_log=True,
                         call='both')
        if hi > lo:
            check_lines(P._fig.axes[0], ds, 'x', 'y', 'z',
                        cols=[cmap(log(v, lo, hi)) for v in zs])
        check(type(P.mappable.norm).__name__ == 'LogNorm', "log norm")
        check(P.mappable.cmap is P.cmap and P.cmap.name == cmap.name,
              "colorbar uses the plot's colormap")
        check((P.vmin, P.vmax) == (lo, hi), "vmin, vmax from the data")
        # explicit zlims widen the norm, vmin / vmax override it
        cmap = xyz_colormaps('plasma')
        with Unchanged(ds):
            P = lineplot(ds, 'x', 'y', 'z', colors=True, colormap='plasma',
                         zlims=(0.0, 20.0), call='both')
        check_lines(P._fig.axes[0], ds, 'x', 'y', 'z',
                    cols=[cmap(lin(v, 0.0, 20.0)) for v in zs])
        check((P._zmin, P._zmax) == (0.0, 20.0), "zlims taken")
        with Unchanged(ds):
            P = lineplot(ds, 'x', 'y', 'z', colors=True, colormap='plasma',
                         zlims=(None, 20.0), vmin=-1.0, call='both')
        check_lines(P._fig.axes[0], ds, 'x', 'y', 'z',
                    cols=[cmap(lin(v, -1.0, 20.0)) for v in zs])
        check((P._zmin, P._zmax) == (lo, 20.0), "half-given zlims")
        check(type(P._zmin) in (int, float), "python scalar from the data")


def test_line_colors_str_z_and_explicit():
    zvals = ['b', 'a', 'c', 'dd']
    ds = make_lines_ds(zvals, seed=7)
    cmap = xyz_colormaps('viridis')
    with Unchanged(ds):
        P = lineplot(ds, 'x', 'y', 'z', colors=True, colormap='viridis',
                     zlims=None, call='both')  # zlims unused for str z
    check_lines(P._fig.axes[0], ds, 'x', 'y', 'z',
                cols=[cmap(r) for r in np.linspace(0, 1, 4)])
    check((P._zmin, P._zmax, P.vmin, P.vmax) == (0.0, 1.0, 0.0, 1.0),
          "unit range for str z")
    # explicit colours are cycled
    from matplotlib.colors import to_rgba
    given = ['red', 'b', (0.0, 1.0, 0.0)]
    with Unchanged(ds):
        fig = lineplot(ds, 'x', 'y', 'z', colors=given,
                       zlabels=['A', 'B', 'C', 'D'])
    check_lines(fig.axes[0], ds, 'x', 'y', 'z',
                cols=[to_rgba(given[i % 3]) for i in range(4)],
                labels=['A', 'B', 'C', 'D'])
    # default: the tab10 sequence
    tab = matplotlib.cm.tab10.colors
    with Unchanged(ds):
        fig = lineplot(ds, 'x', 'y', 'z')
    check_lines(fig.axes[0], ds, 'x', 'y', 'z',
                cols=[tuple(tab[i]) + (1.0,) for i in range(4)])
    # no z at all: colors=True cannot be resolved, when a line is drawn
    ds1 = ds.isel(z=0, drop=True)
    try:
        lineplot(ds1, 'x', 'y', colors=True)
    except AttributeError as e:
        check('_color_norm' in str(e), "missing norm reported")
    else:
        check(False, "expected AttributeError")
    finally:
        plt.close('all')  # a failed plot leaves its figure open
    fig = lineplot(ds1, 'x', 'y')
    check(len(fig.axes[0].lines) == 1
          and fig.axes[0].lines[0].get_label().startswith('_'),
          "single unlabelled line")


def test_line_colors_from_c():
    zvals = [1.0, 2.0, 3.0, 4.0]
    cv = [10.0, 2.5, 40.0, 6.0]
    ds = make_lines_ds(zvals, seed=3, c=cv)
    for opts, nrm, lohi in (
        ({}, lin, (2.5, 40.0)),
        ({'colormap_log': True}, log, (2.5, 40.0)),
        ({'zlims': (0.0, 50.0)}, lin, (0.0, 50.0)),
        ({'vmin': 5.0, 'vmax': 20.0}, lin, (5.0, 20.0)),
    ):
        cmap = xyz_colormaps('magma')
        with Unchanged(ds):
            P = lineplot(ds, 'x', 'y', 'z', c='cv', colormap='magma',
                         call='both', **opts)
        exp = [cmap(float(np.clip(nrm(v, *lohi), -1, 2))) for v in cv]
        check_lines(P._fig.axes[0], ds, 'x', 'y', 'z', cols=exp)
        check(len(P._fig.axes) == 2, "c gives a colorbar")
        check(P._fig.axes[1].get_title() == 'cv', "colorbar titled with c")
        check((P.mappable.norm.vmin, P.mappable.norm.vmax) == lohi,
              "colorbar norm")
    # errorbars keep the colours too
    with Unchanged(ds):
        fig = lineplot(ds, 'x', 'y', 'z', c='cv', y_err='ye', x_err='xe',
                       colormap='magma')
    cmap = xyz_colormaps('magma')
    conts = fig.axes[0].containers
    check(len(conts) == 4, "one errorbar container per z")
    for i, cont in enumerate(conts):
        ex, ey, ok = series_points(ds, 'x', 'y', {'z': i})
        check(close(cont[0].get_xdata(), ex) and close(cont[0].get_ydata(), ey),
              "errorbar points")
        check(close(cont[0].get_color(), cmap(lin(cv[i], 2.5, 40.0))),
              "errorbar colour")
        check(cont.get_label() == str(zvals[i]), "errorbar label")
    # colours and c exclude each other, multi-var has no c
    for bad, kws, exc in (
        (('x', 'y', 'z'), {'c': 'cv', 'colors': True}, ValueError),
        (('x', ['y', 'ye']), {'c': 'cv'}, ValueError),
        (('x', 'y', 'z'), {'colors': True, 'zlims': None}, TypeError),
        (('x', 'y', 'z'), {'colors': True, 'zlims': (1.0,)}, IndexError),
    ):
        try:
            lineplot(ds, *bad, **kws)
        except exc:
            check(True, "")
        else:
            check(False, "expected %s for %r" % (exc.__name__, kws))
        finally:
            plt.close('all')


def test_multi_var_colors():
    ds = make_lines_ds([1.0, 2.0, 3.0], seed=5).isel(z=1, drop=True)
    names = ['y', 'ye', 'xe']
    cmap = xyz_colormaps(None)
    with Unchanged(ds):
        fig = lineplot(ds, 'x', names, colors=True)
    lines = fig.axes[0].lines
    check(len(lines) == 3, "one line per variable")
    for i, (nm, ln) in enumerate(zip(names, lines)):
        ex, ey, _ = series_points(ds, 'x', nm, None)
        check(close(ln.get_xdata(), ex) and close(ln.get_ydata(), ey),
              "multi-var points")
        check(ln.get_label() == nm, "multi-var label")
        check(close(ln.get_color(), cmap(np.linspace(0, 1, 3)[i])),
              "multi-var colour")


def make_scatter_ds(zvals, n=9, seed=0):
    rng = np.random.default_rng(seed)
    nz = len(zvals)
    a, b, w = (rng.random((nz, n)) for _ in range(3))
    a[0, 1] = np.nan
    b[nz - 1, 3] = -np.inf
    if nz > 2:
        b[1, :] = np.nan
    return xr.Dataset(coords={'z': zvals},
                      data_vars={'a': (('z', 'n'), a), 'b': (('z', 'n'), b),
                                 'w': (('z', 'n'), 10 * w + 1)})


def test_scatter_colors():
    for zvals in ([2.0], [1.0, 3.0], [1, 2, 4, 8], ['u', 'v', 'w'],
                  list(np.arange(12.0))):
        ds = make_scatter_ds(zvals, seed=len(zvals))
        nz = len(zvals)
        wlo, whi = float(ds['w'].min()), float(ds['w'].max())
        # per-point colours from c, one norm for the whole plot
        for log_norm in (False, True):
            cmap = xyz_colormaps('viridis')
            with Unchanged(ds):
                P = scatter(ds, 'a', 'b', 'z', c='w', colormap='viridis',
                            colormap_log=log_norm, call='both')
            colls = P._fig.axes[0].collections
            check(len(colls) == nz, "one collection per z")
            check(list(P._legend_handles) == list(colls)
                  and list(P._legend_labels) == [str(z) for z in zvals],
                  "legend entries in z order")
            for i, coll in enumerate(colls):
                ex, ey, ok = series_points(ds, 'a', 'b', {'z': i})
                off = np.asarray(coll.get_offsets(), dtype=float)
                check(close(off.reshape(-1, 2)[:, 0], ex)
                      and close(off.reshape(-1, 2)[:, 1], ey),
                      "scatter points")
                ew = ds['w'].values[i][ok]
                check(close(coll.get_array(), ew), "c values of the points")
                check(coll.norm is P._color_norm is P.mappable.norm,
                      "shared norm")
                check((coll.norm.vmin, coll.norm.vmax) == (wlo, whi),
                      "norm spans all of c")
                check(coll.cmap is P.cmap and coll.cmap.name == cmap.name,
                      "colormap of the points")
                nrm = log if log_norm else lin
                if len(ew):
                    check(close(coll.to_rgba(coll.get_array()),
                                cmap(nrm(ew, wlo, whi))), "point colours")
                check(coll.get_label() == str(zvals[i]), "scatter label")
            check(P._fig.axes[-1].get_title() == 'w' and len(P._fig.axes) == 2,
                  "colorbar for c")
        # one colour per series from z
        cmap = xyz_colormaps(None)
        with Unchanged(ds):
            fig = scatter(ds, 'a', 'b', 'z', colors=True, marker_alpha=0.5)
        if isinstance(zvals[0], str):
            rv = np.linspace(0, 1, nz)
        else:
            zz = np.asarray(zvals, dtype=float)
            rv = [lin(v, zz.min(), zz.max()) for v in zz]
        for i, coll in enumerate(fig.axes[0].collections):
            fc = coll.get_facecolor()
            check(fc.shape == (1, 4) and close(fc[0, :3], cmap(rv[i])[:3])
                  and close(fc[0, 3], 0.5), "series colour")
            check(coll.get_array() is None, "no per-point values")
    # explicit colours and default sequence
    ds = make_scatter_ds([1, 2, 3])
    fig = scatter(ds, 'a', 'b', 'z', colors=['g', 'k'])
    fcs = [c.get_facecolor()[0] for c in fig.axes[0].collections]
    check(close(fcs[0], (0, 0.5, 0, 1)) and close(fcs[1], (0, 0, 0, 1))
          and close(fcs[2], fcs[0]), "explicit colours cycle")
    fig = scatter(ds, 'a', 'b', 'z')
    fcs = [c.get_facecolor()[0] for c in fig.axes[0].collections]
    check(all(close(fcs[i][:3], matplotlib.cm.tab10.colors[i])
              for i in range(3)), "default colours")


def hist_polys(ax):
    return {p.get_label(): p for p in ax.patches}


def test_histogram_colors():
    rng = np.random.default_rng(11)
    zvals = [1.0, 2.0, 4.0]
    v = rng.normal(size=(3, 40))
    v[0, :5] = np.nan
    v[2, 7] = np.inf
    ds = xr.Dataset(coords={'z': zvals}, data_vars={'v': (('z', 'n'), v)})
    cmap = xyz_colormaps('viridis')
    with Unchanged(ds):
        P = histogram(ds, 'v', z='z', colors=True, colormap='viridis',
                      bins=7, marker_alpha=0.8, call='both')
    polys = hist_polys(P._fig.axes[0])
    check(sorted(polys) == sorted(str(z) for z in zvals), "one patch per z")
    fin = [row[np.isfinite(row)] for row in v]
    rnge = (min(f.min() for f in fin), max(f.max() for f in fin))
    for zv, f in zip(zvals, fin):
        col = cmap(lin(zv, 1.0, 4.0))
        p = polys[str(zv)]
        check(close(p.get_edgecolor(), col[:3] + (0.8,))
              and close(p.get_facecolor(), col[:3] + (0.2,)),
              "histogram colours")
        dens, edges = np.histogram(f, bins=7, range=rnge, density=True)
        xy = p.get_xy()
        check(close(xy[0:15:2, 0], edges) and close(xy[1:15:2, 1], dens),
              "histogram bins exactly the finite values")
    check(list(P._legend_labels) == [str(z) for z in zvals]
          and isinstance(P._legend_labels, tuple), "histogram legend labels")
    # a histogram has no per-line c values
    try:
        histogram(ds, 'v', z='z', c='v')
    except RuntimeError as e:
        check('StopIteration' in str(e), "no colours left")
    else:
        check(False, "expected RuntimeError")
    finally:
        plt.close('all')


def test_heatmap_colors():
    rng = np.random.default_rng(2)
    h = rng.random((4, 5)) + 0.1
    h[1, 2] = np.nan
    ds = xr.Dataset(coords={'x': [0.0, 1.0, 2.0, 3.0, 4.0],
                            'y': [10.0, 20.0, 30.0, 40.0]},
                    data_vars={'h': (('y', 'x'), h)})
    lo, hi = np.nanmin(h), np.nanmax(h)
    for opts, lohi, nname, cname in (
        ({}, (lo, hi), 'Normalize', 'inferno'),
        ({'colormap_log': True}, (lo, hi), 'LogNorm', 'inferno'),
        ({'vmin': 0.3, 'vmax': 0.8, 'colormap': 'viridis'}, (0.3, 0.8),
         'Normalize', 'viridis'),
        ({'zlims': (0.0, 2.0)}, (0.0, 2.0), 'Normalize', 'inferno'),
    ):
        with Unchanged(ds):
            P = heatmap(ds, 'x', 'y', 'h', call='both', **opts)
        mesh = P._fig.axes[0].collections[0]
        arr = np.ma.masked_invalid(h)
        got = np.ma.asarray(mesh.get_array()).reshape(4, 5)
        check(np.array_equal(np.ma.getmaskarray(got), np.ma.getmaskarray(arr))
              and close(got.filled(0), arr.filled(0)),
              "heat map shows exactly the z values")
        co = mesh.get_coordinates()
        check(close(co[0, :, 0], np.arange(-0.5, 5.0))
              and close(co[:, 0, 1], np.arange(5.0, 50.0, 10.0)),
              "heat map mesh")
        check(type(mesh.norm).__name__ == nname
              and (mesh.norm.vmin, mesh.norm.vmax) == lohi, "heat map norm")
        check(mesh.cmap.name == cname, "heat map colormap")
        check(len(P._fig.axes) == 2 and P._fig.axes[1].get_title() == 'h',
              "heat map colorbar")
        check(P.mappable.norm is mesh.norm, "colorbar shares the norm")


def test_grids():
    rng = np.random.default_rng(4)
    zvals = [1.0, 2.0, 4.0]
    ds = xr.Dataset(coords={'x': np.arange(5.0), 'z': zvals,
                            'r': [0.1, 0.25], 'k': ['p', 'q', 's']},
                    data_vars={'y': (('r', 'k', 'z', 'x'),
                                     rng.random((2, 3, 3, 5)))})
    ds['y'][0, 1, 2, :] = np.nan
    ds['y'][1, 2, 0, 3] = np.nan
    cmap = xyz_colormaps(None)
    cols = [cmap(lin(v, 1.0, 4.0)) for v in zvals]
    with Unchanged(ds):
        fig = lineplot(ds, 'x', 'y', 'z', row='r', col='k', colors=True)
    check(len(fig.axes) == 6 and len(fig.legends) == 1, "six panels, legend")
    for i, r in enumerate(ds['r'].values):
        for j, k in enumerate(ds['k'].values):
            ax = fig.axes[3 * i + j]
            sub = ds.sel(r=r, k=k)
            check_lines(ax, sub, 'x', 'y', 'z', cols=cols)
            if i == 0:
                check(ax.get_title() == 'k = %s' % k, "column title")
            if j == 2:
                check(ax.get_ylabel() == 'r = %s' % r, "row title")
    ds1 = ds.isel(r=[0])
    with Unchanged(ds1):
        fig = lineplot(ds1, 'x', 'y', 'z', col='k', colors=True,
                       colorbar=True, zlims=(0.0, 8.0))
    check(len(fig.axes) == 4, "three panels and a colorbar")
    for j, k in enumerate(ds['k'].values):
        check_lines(fig.axes[j], ds1.sel(k=k), 'x', 'y', 'z',
                    cols=[cmap(lin(v, 0.0, 8.0)) for v in zvals])
    # scatter grid with per-point colours: one norm over the whole dataset
    sds = xr.Dataset(coords={'z': [1, 2], 'k': ['p', 'q', 's']},
                     data_vars={nm: (('k', 'z', 'n'), rng.random((3, 2, 8))
                                     + off)
                                for nm, off in (('a', 0), ('b', 0), ('w', 2))})
    sds['a'][1, 0, 2] = np.nan
    wlo, whi = float(sds['w'].min()), float(sds['w'].max())
    with Unchanged(sds):
        fig = scatter(sds, 'a', 'b', 'z', c='w', col='k', colormap='viridis')
    check(len(fig.axes) == 4, "three panels and a colorbar (scatter)")
    vir = xyz_colormaps('viridis')
    for j, k in enumerate(sds['k'].values):
        ax = fig.axes[j]
        check(ax.get_title() == 'k = %s' % k, "scatter column title")
        check(len(ax.collections) == 2, "two series per panel")
        for i, coll in enumerate(ax.collections):
            ex, ey, ok = series_points(sds.sel(k=k), 'a', 'b', {'z': i})
            off = np.asarray(coll.get_offsets(), dtype=float).reshape(-1, 2)
            check(close(off[:, 0], ex) and close(off[:, 1], ey),
                  "grid scatter points")
            ew = sds['w'].sel(k=k).values[i][ok]
            check(close(coll.get_array(), ew)
                  and (coll.norm.vmin, coll.norm.vmax) == (wlo, whi)
                  and close(coll.to_rgba(coll.get_array()),
                            vir(lin(ew, wlo, whi))),
                  "grid scatter colours use the global norm")
    # heat map grid
    hds = xr.Dataset(coords={'x': np.arange(4.0), 'y': np.arange(3.0),
                             'k': [1, 2]},
                     data_vars={'h': (('k', 'y', 'x'),
                                      rng.random((2, 3, 4)))})
    with Unchanged(hds):
        fig = heatmap(hds, 'x', 'y', 'h', col='k')
    hlo, hhi = float(hds['h'].min()), float(hds['h'].max())
    check(len(fig.axes) == 3, "two heat maps and a colorbar")
    for j in range(2):
        mesh = fig.axes[j].collections[0]
        check(close(np.asarray(mesh.get_array()).reshape(3, 4),
                    hds['h'].values[j]), "grid heat map values")
        check((mesh.norm.vmin, mesh.norm.vmax) == (hlo, hhi),
              "grid heat map norm")
        check(fig.axes[j].get_title() == 'k = %d' % (j + 1), "heat map title")


def test_auto_variants(tmp):
    rng = np.random.default_rng(9)
    x = np.arange(1.0, 8.0)
    ys = rng.random((3, 7))
    ys[1, 4] = np.nan
    cmap = xyz_colormaps(None)
    fig = auto_lineplot(x, ys, colors=True)
    lines = fig.axes[0].lines
    check(len(lines) == 3, "auto_lineplot lines")
    for i, ln in enumerate(lines):
        ok = np.isfinite(ys[i])
        check(close(ln.get_xdata(), x[ok]) and close(ln.get_ydata(), ys[i][ok])
              and ln.get_label() == str(i)
              and close(ln.get_color(), cmap(i / 2)), "auto_lineplot series")
    fig = auto_scatter(x, ys, colors=True)
    colls = fig.axes[0].collections
    check(len(colls) == 3, "auto_scatter series")
    for i, coll in enumerate(colls):
        ok = np.isfinite(ys[i])
        off = np.asarray(coll.get_offsets(), dtype=float).reshape(-1, 2)
        check(close(off[:, 0], x[ok]) and close(off[:, 1], ys[i][ok])
              and close(coll.get_facecolor()[0], cmap(i / 2)),
              "auto_scatter points and colours")
    v = rng.normal(size=50)
    v[3] = np.nan
    fig = auto_histogram(v, bins=5)
    (p,) = fig.axes[0].patches
    f = v[np.isfinite(v)]
    dens, edges = np.histogram(f, bins=5, density=True)
    xy = p.get_xy()
    check(close(xy[0:11:2, 0], edges) and close(xy[1:11:2, 1], dens),
          "auto_histogram bins")
    m = rng.random((3, 4))
    fig = auto_heatmap(m)
    mesh = fig.axes[0].collections[0]
    check(np.asarray(mesh.get_array()).size == 12
          and (mesh.norm.vmin, mesh.norm.vmax) == (m.min(), m.max()),
          "auto_heatmap")
    # figures can be written out
    out = os.path.join(tmp, 'auto.png')
    fig.savefig(out)
    check(os.path.getsize(out) > 0, "figure saved")


def main():
    tmp = tempfile.mkdtemp(prefix='c17_t6_')
    try:
        test_line_colors_from_z()
        test_line_colors_str_z_and_explicit()
        test_line_colors_from_c()
        test_multi_var_colors()
        test_scatter_colors()
        test_histogram_colors()
        test_heatmap_colors()
        test_grids()
        test_auto_variants(tmp)
    finally:
        shutil.rmtree(tmp, ignore_errors=True)
    print("checks:", N_CHECKS[0])
    print("PASS")


if __name__ == '__main__':
    main()
