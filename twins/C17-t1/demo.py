"""Demo / check for refactoring 1 (core.Plotter.prepare_xy_vals_lineplot).

Run as:  cd <worktree> && /venv/bin/python /tmp/tw/C17.out/t1/demo.py

Checks that lineplot / scatter (and auto_* variants) draw exactly the finite
(x, y) pairs of the dataset, one series per z value / variable, in order and
labelled, with y_err / x_err / c handled, and that the dataset is untouched.
"""
import os
import sys
import warnings

sys.path.insert(0, os.getcwd())
warnings.filterwarnings("ignore")

import matplotlib  # noqa: E402

matplotlib.use("Agg")

import logging  # noqa: E402

logging.getLogger("matplotlib.font_manager").setLevel(logging.ERROR)

import matplotlib.pyplot as plt  # noqa: E402
import numpy as np  # noqa: E402
import xarray as xr  # noqa: E402
from matplotlib.colors import Normalize  # noqa: E402

import xyzpy  # noqa: E402
from xyzpy.plot.color import xyz_colormaps  # noqa: E402

assert os.path.abspath(xyzpy.__file__).startswith(os.getcwd()), xyzpy.__file__

NCHECK = 0


def check(cond, msg):
    global NCHECK
    NCHECK += 1
    if not cond:
        print("FAIL:", msg)
        sys.exit(1)


def same(a, b):
    a = np.asarray(a, dtype=float)
    b = np.asarray(b, dtype=float)
    return a.shape == b.shape and np.array_equal(a, b)


def close(a, b):
    a = np.asarray(a, dtype=float)
    b = np.asarray(b, dtype=float)
    return a.shape == b.shape and np.allclose(a, b, rtol=1e-12, atol=1e-12)


def make_ds(rng, nz=3, nx=7, zvals=None, pattern="some", extra_dims=False):
    """y[z, x] with several NaN/inf patterns, plus y_err, x_err, c variables.
    """
    x = np.linspace(0.5, 4.0, nx)
    z = np.arange(1, nz + 1) * 10 if zvals is None else zvals
    y = rng.uniform(1, 2, size=(nz, nx))
    if pattern == "some":
        y[0, 1] = np.nan
        y[-1, -1] = np.inf
        y[nz // 2, 0] = -np.inf
    elif pattern == "allnan":
        y[1, :] = np.nan
        y[0, 2] = np.nan
    ye = rng.uniform(0.01, 0.1, size=(nz, nx))
    xe = rng.uniform(0.01, 0.1, size=(nz, nx))
    cz = rng.uniform(-1, 1, size=nz)
    cxz = rng.uniform(0, 5, size=(nz, nx))
    dims = ("z", "x")
    if extra_dims:
        # two additional singlet dimensions -> 4-dimensional variables
        def up(a):
            return a[:, None, :, None]

        y, ye, xe, cxz = map(up, (y, ye, xe, cxz))
        dims = ("z", "a", "x", "b")
    coords = {"x": x, "z": z}
    if extra_dims:
        coords["a"] = [7]
        coords["b"] = ["q"]
    return xr.Dataset(
        {
            "y": (dims, y),
            "ye": (dims, ye),
            "xe": (dims, xe),
            "cz": ("z", cz),
            "cxz": (dims, cxz),
        },
        coords=coords,
    )


def expected_series(ds, i, names):
    """Independent computation of the series for the i-th z value."""
    sub = ds.isel(z=i).squeeze(drop=True)
    x = sub["x"].values
    out = {}
    fin = np.isfinite(x) & np.isfinite(sub["y"].values)
    out["x"] = x[fin]
    for n in names:
        out[n] = sub[n].values[fin]
    return out


def check_lineplot_z(ds, **opts):
    ref = ds.copy(deep=True)
    fig = xyzpy.lineplot(ds, "x", "y", "z", **opts)
    ax = fig.axes[0]
    lines = ax.get_lines()
    check(len(lines) == ds.sizes["z"], "one line per z")
    for i, (zv, ln) in enumerate(zip(ds["z"].values, lines)):
        exp = expected_series(ds, i, ["y"])
        check(same(ln.get_xdata(), exp["x"]), f"line x {i} {opts}")
        check(same(ln.get_ydata(), exp["y"]), f"line y {i} {opts}")
        check(ln.get_label() == str(zv), f"line label {i}")
    check(ds.identical(ref), "dataset unmodified (lineplot)")
    return fig


def check_lineplot_err(ds, use_y=True, use_x=True, **opts):
    ref = ds.copy(deep=True)
    kws = dict(opts)
    names = ["y"]
    if use_y:
        kws["y_err"] = "ye"
        names.append("ye")
    if use_x:
        kws["x_err"] = "xe"
        names.append("xe")
    fig = xyzpy.lineplot(ds, "x", "y", "z", **kws)
    ax = fig.axes[0]
    conts = ax.containers
    check(len(conts) == ds.sizes["z"], "one errorbar container per z")
    for i, (zv, cont) in enumerate(zip(ds["z"].values, conts)):
        exp = expected_series(ds, i, names)
        dline, _, barcols = cont.lines
        check(same(dline.get_xdata(), exp["x"]), f"err x {i}")
        check(same(dline.get_ydata(), exp["y"]), f"err y {i}")
        check(cont.get_label() == str(zv), f"err label {i}")
        check(len(barcols) == use_x + use_y, "number of bar collections")
        # matplotlib puts x-error bars first, then y-error bars
        k = 0
        if use_x:
            segs = barcols[k].get_segments()
            k += 1
            check(len(segs) == len(exp["x"]), f"n xerr segs {i}")
            for s, xx, yy, ee in zip(segs, exp["x"], exp["y"], exp["xe"]):
                check(close(s, [[xx - ee, yy], [xx + ee, yy]]), "xerr seg")
        if use_y:
            segs = barcols[k].get_segments()
            check(len(segs) == len(exp["x"]), f"n yerr segs {i}")
            for s, xx, yy, ee in zip(segs, exp["x"], exp["y"], exp["ye"]):
                check(close(s, [[xx, yy - ee], [xx, yy + ee]]), "yerr seg")
    check(ds.identical(ref), "dataset unmodified (errorbars)")


def check_lineplot_c(ds, **opts):
    """Line colours taken from a separate variable 'cz' (one value per z)."""
    ref = ds.copy(deep=True)
    fig = xyzpy.lineplot(ds, "x", "y", "z", c="cz", **opts)
    ax = fig.axes[0]
    lines = ax.get_lines()
    check(len(lines) == ds.sizes["z"], "one line per z (c)")
    cz = ds["cz"].values
    norm = Normalize(vmin=cz.min(), vmax=cz.max())
    cmap = xyz_colormaps(opts.get("colormap", None))
    for i, ln in enumerate(lines):
        exp = expected_series(ds, i, ["y"])
        check(same(ln.get_xdata(), exp["x"]), "c line x")
        check(same(ln.get_ydata(), exp["y"]), "c line y")
        want = cmap(norm(cz[i]))
        got = matplotlib.colors.to_rgba(ln.get_color())
        check(close(got, want), f"line colour from c variable {i}")
    check(len(fig.axes) == 2, "colorbar drawn for c")
    check(ds.identical(ref), "dataset unmodified (c)")


def check_scatter_z(ds, c=None, **opts):
    ref = ds.copy(deep=True)
    kws = dict(opts)
    names = ["y"]
    if c is not None:
        kws["c"] = c
        names.append(c)
    fig = xyzpy.scatter(ds, "x", "y", "z", **kws)
    ax = fig.axes[0]
    colls = ax.collections
    check(len(colls) == ds.sizes["z"], "one collection per z")
    for i, (zv, pc) in enumerate(zip(ds["z"].values, colls)):
        exp = expected_series(ds, i, names)
        offs = np.asarray(pc.get_offsets())
        check(same(offs[:, 0], exp["x"]), f"scatter x {i}")
        check(same(offs[:, 1], exp["y"]), f"scatter y {i}")
        check(pc.get_label() == str(zv), f"scatter label {i}")
        if c is not None:
            check(same(np.asarray(pc.get_array()), exp[c]), f"scatter c {i}")
    check(ds.identical(ref), "dataset unmodified (scatter)")


def check_no_z(rng):
    """No z coordinate: single series, optional errors / c."""
    x = np.linspace(1, 3, 9)
    y = rng.uniform(1, 2, 9)
    y[3] = np.nan
    y[7] = np.inf
    e = rng.uniform(0.01, 0.1, 9)
    cc = rng.uniform(0, 1, 9)
    ds = xr.Dataset(
        {"y": ("x", y), "e": ("x", e), "cc": ("x", cc), "c0": ((), 0.3)},
        coords={"x": x},
    )
    ref = ds.copy(deep=True)
    fin = np.isfinite(y)

    fig = xyzpy.lineplot(ds, "x", "y")
    (ln,) = fig.axes[0].get_lines()
    check(same(ln.get_xdata(), x[fin]) and same(ln.get_ydata(), y[fin]),
          "no-z line")

    fig = xyzpy.lineplot(ds, "x", "y", y_err="e", x_err="e", ylog=True)
    (cont,) = fig.axes[0].containers
    check(same(cont.lines[0].get_xdata(), x[fin]), "no-z err x")
    check(same(cont.lines[0].get_ydata(), y[fin]), "no-z err y")
    segs = cont.lines[2][1].get_segments()
    for s, xx, yy, ee in zip(segs, x[fin], y[fin], e[fin]):
        check(close(s, [[xx, yy - ee], [xx, yy + ee]]), "no-z yerr seg")

    # scalar colour variable for the single line
    fig = xyzpy.lineplot(ds, "x", "y", c="c0", vmin=0.0, vmax=1.0)
    (ln,) = fig.axes[0].get_lines()
    want = xyz_colormaps(None)(Normalize(0.0, 1.0)(0.3))
    check(close(matplotlib.colors.to_rgba(ln.get_color()), want),
          "no-z colour from scalar c")

    fig = xyzpy.scatter(ds, "x", "y", c="cc")
    (pc,) = fig.axes[0].collections
    offs = np.asarray(pc.get_offsets())
    check(same(offs[:, 0], x[fin]) and same(offs[:, 1], y[fin]),
          "no-z scatter")
    check(same(np.asarray(pc.get_array()), cc[fin]), "no-z scatter c")
    check(ds.identical(ref), "dataset unmodified (no z)")


def check_multi_var(rng):
    x = np.linspace(0, 1, 6)
    a = rng.uniform(size=6)
    b = rng.uniform(size=6)
    d = np.full(6, np.nan)
    a[2] = np.nan
    b[0] = -np.inf
    ds = xr.Dataset({"a": ("x", a), "b": ("x", b), "d": ("x", d),
                     "e": ("x", np.ones(6))}, coords={"x": x})
    ref = ds.copy(deep=True)
    for fn, kind in ((xyzpy.lineplot, "l"), (xyzpy.scatter, "s")):
        for names in (("a", "b", "d"), ["b", "a"]):
            fig = fn(ds, "x", names)
            ax = fig.axes[0]
            arts = ax.get_lines() if kind == "l" else ax.collections
            check(len(arts) == len(names), "one series per variable")
            for n, art in zip(names, arts):
                v = ds[n].values
                fin = np.isfinite(v)
                if kind == "l":
                    gx, gy = art.get_xdata(), art.get_ydata()
                else:
                    offs = np.asarray(art.get_offsets()).reshape(-1, 2)
                    gx, gy = offs[:, 0], offs[:, 1]
                check(same(gx, x[fin]) and same(gy, v[fin]), f"multi {n}")
                check(art.get_label() == n, "multi-var label")
        # errors / c are refused for multi-var, whichever is given
        for bad in ({"y_err": "e"}, {"x_err": "e"}, {"c": "e"}):
            try:
                fn(ds, "x", ("a", "b"), **bad)
            except ValueError as exc:
                check("Multi-var errors/c not implemented" in str(exc),
                      "multi-var error message")
            else:
                check(False, "multi-var with errors should raise")
            finally:
                # the half-built figure 1 is left open by the exception
                plt.close("all")
    check(ds.identical(ref), "dataset unmodified (multi-var)")


def check_x_is_variable(rng):
    """x itself a data variable depending on (z, t) -> broadcasting path."""
    nz, nt = 3, 8
    xv = rng.uniform(1, 2, (nz, nt))
    yv = rng.uniform(1, 2, (nt, nz))  # note: transposed dims
    xv[0, 3] = np.nan
    yv[5, 2] = np.inf
    ev = rng.uniform(0.01, 0.1, (nt, nz))
    ds = xr.Dataset(
        {"xv": (("z", "t"), xv), "yv": (("t", "z"), yv),
         "ev": (("t", "z"), ev)},
        coords={"z": ["p", "q", "r"], "t": np.arange(nt)},
    )
    ref = ds.copy(deep=True)
    fig = xyzpy.scatter(ds, "xv", "yv", "z", c="ev")
    for i, pc in enumerate(fig.axes[0].collections):
        fin = np.isfinite(xv[i]) & np.isfinite(yv[:, i])
        offs = np.asarray(pc.get_offsets())
        check(same(offs[:, 0], xv[i][fin]), "xvar scatter x")
        check(same(offs[:, 1], yv[:, i][fin]), "xvar scatter y")
        check(same(np.asarray(pc.get_array()), ev[:, i][fin]), "xvar c")
        check(pc.get_label() == "pqr"[i], "str z label")
    fig = xyzpy.lineplot(ds, "xv", "yv", "z", y_err="ev")
    for i, cont in enumerate(fig.axes[0].containers):
        fin = np.isfinite(xv[i]) & np.isfinite(yv[:, i])
        check(same(cont.lines[0].get_xdata(), xv[i][fin]), "xvar line x")
        check(same(cont.lines[0].get_ydata(), yv[:, i][fin]), "xvar line y")
    check(ds.identical(ref), "dataset unmodified (x variable)")


def check_auto(rng):
    x = np.linspace(0, 1, 5)
    ys = rng.uniform(size=(3, 5))
    ys[1, 2] = np.nan
    fig = xyzpy.auto_lineplot(x, ys)
    lines = fig.axes[0].get_lines()
    check(len(lines) == 3, "auto_lineplot n lines")
    for i, ln in enumerate(lines):
        fin = np.isfinite(ys[i])
        check(same(ln.get_xdata(), x[fin]) and same(ln.get_ydata(), ys[i][fin]),
              "auto_lineplot data")
    fig = xyzpy.auto_scatter(x, ys)
    colls = fig.axes[0].collections
    check(len(colls) == 3, "auto_scatter n series")
    for i, pc in enumerate(colls):
        fin = np.isfinite(ys[i])
        offs = np.asarray(pc.get_offsets())
        check(same(offs[:, 0], x[fin]) and same(offs[:, 1], ys[i][fin]),
              "auto_scatter data")


def check_jitter_reproducible():
    """Jitter draws from the global RNG in the same order (x then y)."""
    ds = make_ds(np.random.default_rng(5), nz=2, nx=5, pattern="some")
    np.random.seed(1234)
    fig = xyzpy.scatter(ds, "x", "y", "z", xjitter=0.1, yjitter=0.2,
                        ylog=True)
    np.random.seed(1234)
    for i, pc in enumerate(fig.axes[0].collections):
        exp = expected_series(ds, i, ["y"])
        n = len(exp["x"])
        ex = exp["x"] + np.random.normal(loc=0, scale=0.1, size=(n,))
        ey = exp["y"] * np.random.normal(loc=1, scale=0.2, size=(n,))
        offs = np.asarray(pc.get_offsets())
        check(close(offs[:, 0], ex) and close(offs[:, 1], ey), "jitter")


def main():
    rng = np.random.default_rng(42)
    for pattern in ("none", "some", "allnan"):
        for extra in (False, True):
            for zvals in (None, ["a", "b", "c"]):
                ds = make_ds(rng, pattern=pattern, extra_dims=extra,
                             zvals=zvals)
                check_lineplot_z(ds)
                check_lineplot_z(ds, xlog=True, ylog=True, markers=False)
                check_lineplot_z(ds, colors=True, legend=True,
                                 colormap="viridis")
                check_lineplot_err(ds, True, True)
                check_lineplot_err(ds, True, False, colors=True)
                check_lineplot_err(ds, False, True, ylog=True)
                check_lineplot_c(ds)
                check_lineplot_c(ds, colormap="viridis", y_err="ye")
                check_scatter_z(ds)
                check_scatter_z(ds, c="cxz")
                check_scatter_z(ds, c="cxz", y_err="ye", x_err="xe",
                                xlog=True)
                check_scatter_z(ds, colors=True, colorbar=True)
    # many series
    check_lineplot_z(make_ds(rng, nz=13, nx=4), colors=True)
    check_scatter_z(make_ds(rng, nz=12, nx=4))
    check_no_z(rng)
    check_multi_var(rng)
    check_x_is_variable(rng)
    check_auto(rng)
    check_jitter_reproducible()
    print(f"{NCHECK} checks")
    print("PASS")


if __name__ == "__main__":
    main()
