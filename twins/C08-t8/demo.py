"""C08 demo (twin t8): reported crop progress always matches what is on disk.

Run as:  cd <worktree> && /venv/bin/python /path/to/demo.py

Drives crops of 1..8 batches through sow / re-sow / grow i / grow subset /
grow_missing / failing grows / deleting results / check_bad / reload / query
and compares everything the crop reports with a simple model and with the
files that are really in the crop folder.  Prints PASS and exits 0 if all the
checks hold.
"""
import os
import sys

sys.path.insert(0, os.getcwd())

import io
import pickle
import random
import shutil
import tempfile
import contextlib

import xyzpy
from xyzpy import Crop
from xyzpy.gen import cropping
from xyzpy.gen.cropping import grow

FAILURES = []
NCHECKS = [0]


def check(cond, msg):
    NCHECKS[0] += 1
    if not cond:
        FAILURES.append(msg)


def fn(a, b):
    # fails on the settings chosen through the environment
    bad = os.environ.get("C08_DEMO_FAIL_A", "")
    if bad and str(a) in bad.split(","):
        raise RuntimeError("chosen failure for a={}".format(a))
    return a * 100 + b


@contextlib.contextmanager
def quiet():
    with contextlib.redirect_stdout(io.StringIO()):
        with contextlib.redirect_stderr(io.StringIO()):
            yield


def result_path(crop, i):
    return os.path.join(crop.location, "results", "xyz-result-%d.jbdmp" % i)


def batch_path(crop, i):
    return os.path.join(crop.location, "batches", "xyz-batch-%d.jbdmp" % i)


def load(path):
    with open(path, "rb") as f:
        return pickle.load(f)


class Model:
    """What should be true, kept independently of the crop's own counting."""

    def __init__(self, tdir, name, combos, num_batches=None, batchsize=None):
        self.tdir = tdir
        self.name = name
        self.combos = combos
        self.kw = {}
        if num_batches is not None:
            self.kw["num_batches"] = num_batches
        if batchsize is not None:
            self.kw["batchsize"] = batchsize
        self.crop = Crop(fn=fn, name=name, parent_dir=tdir, **self.kw)
        self.done = set()
        self.n = None
        self.tag = "[{} {}]".format(name, self.kw)

    # ------------------------------ operations ----------------------------- #

    def sow(self):
        self.crop.sow_combos(self.combos, verbosity=0)
        n = len(os.listdir(os.path.join(self.crop.location, "batches")))
        if self.n is None:
            self.n = n
        check(n == self.n, self.tag + " re-sow changed the number of batches")

    def reload(self, with_fn):
        if with_fn:
            self.crop = Crop(fn=fn, name=self.name, parent_dir=self.tdir)
        else:
            self.crop = Crop(name=self.name, parent_dir=self.tdir)

    def failing_batches(self, bad_as):
        out = set()
        for i in range(1, self.n + 1):
            if any(case["a"] in bad_as for case in load(batch_path(self.crop, i))):
                out.add(i)
        return out

    def grow_one(self, i, verbosity=0, via_crop=False):
        with quiet():
            if via_crop:
                self.crop.grow(i, verbosity=0)
            else:
                grow(i, self.crop, verbosity=verbosity)
        self.done.add(i)

    def grow_subset(self, ids):
        with quiet():
            self.crop.grow(ids, verbosity=0)
        self.done.update(ids)

    def grow_missing(self):
        expected = tuple(sorted(set(range(1, self.n + 1)) - self.done))
        grown = []
        real_grow = cropping.grow

        def spying_grow(batch_number, **kwargs):
            grown.append(batch_number)
            return real_grow(batch_number, **kwargs)

        cropping.grow = spying_grow
        try:
            with quiet():
                self.crop.grow_missing(verbosity=0)
        finally:
            cropping.grow = real_grow
        check(
            tuple(grown) == expected,
            self.tag + " grow_missing grew {} not {}".format(grown, expected),
        )
        self.done.update(expected)
        check(self.crop.is_ready_to_reap(), self.tag + " not ready after grow_missing")

    def grow_failing(self, ids, bad_as, direct=False):
        """Grow ``ids`` in order with a function failing where a in bad_as."""
        failing = self.failing_batches(bad_as)
        os.environ["C08_DEMO_FAIL_A"] = ",".join(map(str, bad_as))
        raised = False
        try:
            with quiet():
                if direct:
                    for i in ids:
                        grow(i, self.crop, fn=fn, verbosity=0)
                else:
                    self.crop.grow(tuple(ids), verbosity=0)
        except RuntimeError:
            raised = True
        finally:
            del os.environ["C08_DEMO_FAIL_A"]
        # batches before the first failing one complete, the rest do not
        for i in ids:
            if i in failing:
                break
            self.done.add(i)
        check(
            raised == bool(failing & set(ids)),
            self.tag + " failing grow of {} raised={}".format(ids, raised),
        )

    def delete_result(self, i):
        if i in self.done:
            os.remove(result_path(self.crop, i))
            self.done.discard(i)

    def check_bad_clean(self):
        with quiet():
            bad = self.crop.check_bad()
        check(bad == (), self.tag + " check_bad flagged good results {}".format(bad))

    def corrupt_then_check_bad(self, i, how, delete_bad):
        if i not in self.done:
            return
        path = result_path(self.crop, i)
        if how == "truncate":
            with open(path, "rb") as f:
                data = f.read()
            with open(path, "wb") as f:
                f.write(data[: len(data) // 2])
        else:
            # loadable, but of the wrong length for its batch
            good = load(path)
            with open(path, "wb") as f:
                pickle.dump(tuple(good) + (0,), f)
        out = io.StringIO()
        with contextlib.redirect_stdout(out):
            bad = self.crop.check_bad(delete_bad=delete_bad)
        check(
            bad == (str(i),),
            self.tag + " check_bad({}) -> {} for bad {}".format(delete_bad, bad, i),
        )
        msg = out.getvalue()
        check("is bad" in msg and path in msg, self.tag + " check_bad message: " + msg)
        check(("deleting it" in msg) == delete_bad, self.tag + " message " + msg)
        check(("Error was" in msg) == (how == "truncate"), self.tag + " msg " + msg)
        check(
            os.path.exists(path) == (not delete_bad),
            self.tag + " check_bad(delete_bad={}) left file wrong".format(delete_bad),
        )
        if not delete_bad:
            os.remove(path)
        self.done.discard(i)

    # -------------------------------- query -------------------------------- #

    def query(self, where):
        c = self.crop
        tag = self.tag + " after " + where + ": "
        every = set(range(1, self.n + 1))
        missing = tuple(sorted(every - self.done))

        check(c.is_prepared(), tag + "not prepared")
        check(c.num_sown_batches == self.n, tag + "num_sown_batches")
        check(
            c.num_results == len(self.done),
            tag + "num_results {} != {}".format(c.num_results, len(self.done)),
        )
        got = c.missing_results()
        check(got == missing, tag + "missing {} != {}".format(got, missing))
        check(
            c.is_ready_to_reap() == (not missing),
            tag + "is_ready_to_reap {} with missing {}".format(
                c.is_ready_to_reap(), missing
            ),
        )
        check(
            "{} / {} batches".format(len(self.done), self.n) in str(c),
            tag + "str(crop) progress line",
        )
        check(c.num_batches == self.n, tag + "num_batches")

        # what is really on disk
        on_disk = sorted(os.listdir(os.path.join(c.location, "results")))
        want = sorted("xyz-result-%d.jbdmp" % i for i in self.done)
        check(on_disk == want, tag + "results on disk {} != {}".format(on_disk, want))
        batches = sorted(os.listdir(os.path.join(c.location, "batches")))
        check(
            batches == sorted("xyz-batch-%d.jbdmp" % i for i in every),
            tag + "batch files {}".format(batches),
        )
        for i in self.done:
            cases = load(batch_path(c, i))
            res = load(result_path(c, i))
            check(
                res == tuple(c_["a"] * 100 + c_["b"] for c_ in cases),
                tag + "contents of result {}".format(i),
            )


# ------------------------------- scenarios --------------------------------- #


def scenario_fixed(tdir):
    """A hand written walk through every operation on a 5 batch crop, in a
    folder whose name contains glob characters."""
    combos = {"a": [1, 2, 3, 4], "b": [1, 2, 3]}  # 12 settings
    m = Model(tdir, "run[1]*", combos, num_batches=5)  # sizes 3, 3, 2, 2, 2

    # before sowing nothing is there
    c = m.crop
    check(not c.is_prepared(), "fresh crop prepared")
    check(c.num_sown_batches == -1 and c.num_results == -1, "fresh crop counts")
    check(c.is_ready_to_reap() is False, "fresh crop ready")

    m.sow()
    m.query("sow")
    sizes = [len(load(batch_path(m.crop, i))) for i in range(1, 6)]
    check(sizes == [3, 3, 2, 2, 2], "batch sizes {}".format(sizes))

    m.grow_one(2, verbosity=2)
    m.query("grow 2 (verbose)")
    m.grow_one(4, verbosity=1)
    m.query("grow 4")
    m.sow()  # re-sow keeps results
    m.query("re-sow")
    m.reload(with_fn=False)
    m.query("reload")
    m.check_bad_clean()
    m.query("check_bad on good results")
    m.corrupt_then_check_bad(2, "truncate", delete_bad=True)
    m.query("check_bad deleting a truncated result")
    m.grow_one(2, via_crop=True)
    m.corrupt_then_check_bad(2, "length", delete_bad=True)
    m.query("check_bad deleting a wrong-length result")
    m.corrupt_then_check_bad(4, "truncate", delete_bad=False)
    m.query("check_bad not deleting")
    m.grow_subset([5, 1])
    m.query("grow subset [5, 1]")
    # a=3 is in batches 3 and 4 only (settings are enumerated a-major)
    m.grow_failing([2, 4, 3], bad_as=[3])
    m.query("failing grow of (2, 4, 3)")
    check(m.done == {1, 2, 5}, "failing grow left {}".format(m.done))
    m.grow_failing([3], bad_as=[3], direct=True)
    m.query("failing direct grow")
    m.delete_result(5)
    m.query("delete result 5")
    m.reload(with_fn=True)
    m.grow_missing()
    m.query("grow_missing")
    m.grow_missing()  # nothing missing: grows nothing
    m.query("second grow_missing")
    m.check_bad_clean()

    with quiet():
        res = m.crop.reap()
    check(
        res == tuple(tuple(a * 100 + b for b in [1, 2, 3]) for a in [1, 2, 3, 4]),
        "reaped {}".format(res),
    )
    check(not os.path.exists(m.crop.location), "crop not cleaned up by reap")


def scenario_cwd(tdir):
    """``grow`` run from inside the crop folder, without a crop."""
    m = Model(tdir, "incwd", {"a": [1, 2], "b": [1, 2]}, batchsize=2)
    m.sow()
    old = os.getcwd()
    os.chdir(m.crop.location)
    try:
        with quiet():
            grow(2, verbosity=1)
    finally:
        os.chdir(old)
    m.done.add(2)
    m.query("grow from inside the folder")
    os.chdir(tdir)
    try:
        try:
            with quiet():
                grow(1)
            check(False, "grow outside a crop folder did not raise")
        except xyzpy.gen.farming.XYZError:
            pass
    finally:
        os.chdir(old)
    m.query("refused grow")


def scenario_random(tdir, seed):
    rng = random.Random(seed)
    nb = rng.randint(1, 8)
    na = rng.randint(1, 4)
    lo = max(1, -(-nb // na))
    nbv = rng.randint(lo, lo + 2)
    combos = {"a": list(range(1, na + 1)), "b": list(range(1, nbv + 1))}
    m = Model(tdir, "rnd{}".format(seed), combos, num_batches=nb)
    m.sow()
    check(m.n == nb, "seed {}: sown {} of {} batches".format(seed, m.n, nb))
    m.query("sow")
    ids = list(range(1, m.n + 1))
    for step in range(12):
        op = rng.choice(
            ["resow", "grow", "subset", "missing", "fail", "delete",
             "check_bad", "corrupt", "reload"]
        )
        if op == "resow":
            m.sow()
        elif op == "grow":
            m.grow_one(rng.choice(ids), via_crop=rng.random() < 0.5)
        elif op == "subset":
            m.grow_subset(rng.sample(ids, rng.randint(1, m.n)))
        elif op == "missing":
            m.grow_missing()
        elif op == "fail":
            sub = rng.sample(ids, rng.randint(1, m.n))
            m.grow_failing(sub, bad_as=rng.sample(combos["a"], 1),
                           direct=rng.random() < 0.3)
        elif op == "delete":
            m.delete_result(rng.choice(ids))
        elif op == "check_bad":
            m.check_bad_clean()
        elif op == "corrupt":
            m.corrupt_then_check_bad(
                rng.choice(ids), rng.choice(["truncate", "length"]),
                delete_bad=rng.random() < 0.7,
            )
        elif op == "reload":
            m.reload(with_fn=rng.random() < 0.5)
        m.query("seed {} step {} ({})".format(seed, step, op))


def main():
    tdir = tempfile.mkdtemp(prefix="c08-t8-")
    try:
        assert os.path.dirname(os.path.abspath(xyzpy.__file__)) == os.path.join(
            os.getcwd(), "xyzpy"
        ), "xyzpy not imported from the current directory"
        scenario_fixed(tdir)
        scenario_cwd(tdir)
        for seed in range(40):
            scenario_random(tdir, seed)
    finally:
        shutil.rmtree(tdir, ignore_errors=True)

    if FAILURES:
        print("FAIL")
        for msg in FAILURES[:20]:
            print(" -", msg)
        return 1
    print("{} checks".format(NCHECKS[0]))
    print("PASS")
    return 0


if __name__ == "__main__":
    sys.exit(main())
