"""Demo for refactoring t2 (Sower bookkeeping in xyzpy/gen/cropping.py).

Checks property C07: batches partition the work exactly and honour the
requested batch size / batch count.  Drives ``Sower`` directly (checking its
counters and the files after every single sown case) and through real
``Crop.sow_combos`` / ``Crop.sow_cases`` calls.

Run as:  cd <worktree> && /venv/bin/python /path/to/demo.py
"""
import os
import sys

sys.path.insert(0, os.getcwd())

import glob
import itertools
import math
import re
import tempfile

import xyzpy
from xyzpy.gen.cropping import Crop, read_from_disk

assert os.path.abspath(xyzpy.__file__).startswith(os.getcwd()), xyzpy.__file__

CHECKS = 0


def check(cond, *msg):
    global CHECKS
    CHECKS += 1
    if not cond:
        print("FAIL", *msg)
        sys.exit(1)


def fn(a, b=0, c=0, k=None, r=None):
    return a + b + c


def freeze(kws):
    return tuple(sorted(kws.items()))


def load_batches(crop):
    """Return {batch_id: [kwargs, ...]} for every batch file of the crop."""
    files = glob.glob(os.path.join(crop.location, "batches", "xyz-batch-*.jbdmp"))
    out = {}
    for f in files:
        i = int(re.findall(r"xyz-batch-(\d+)\.jbdmp", os.path.basename(f))[0])
        out[i] = read_from_disk(f)
    return out


def grid_for(n):
    """Some combos whose total size is n (all factorisations into <=2 dims)."""
    grids = [{"a": list(range(n))}]
    for p in range(2, n):
        if n % p == 0:
            grids.append({"b": list(range(p)), "a": list(range(n // p))})
    return grids


def expected_settings(combos=None, cases=None, constants=None):
    constants = dict(constants or {})
    combos = combos or {}
    keys = list(combos)
    cases = cases if cases is not None else [{}]
    exp = []
    for case in cases:
        for vals in itertools.product(*(combos[k] for k in keys)):
            exp.append(freeze({**constants, **case, **dict(zip(keys, vals))}))
    return sorted(exp)


def check_partition(crop, n, expected, batchsize=None, num_batches=None):
    batches = load_batches(crop)
    B = len(batches)
    # ids are 1..B without gaps, no batch empty
    check(sorted(batches) == list(range(1, B + 1)), "ids", sorted(batches))
    sizes = [len(batches[i]) for i in range(1, B + 1)]
    check(all(s >= 1 for s in sizes), "empty batch", sizes)
    check(sum(sizes) == n, "total", sizes, n)
    # each setting exactly once, with exactly the right kwargs
    got = sorted(freeze(kws) for i in batches for kws in batches[i])
    check(got == expected, "settings differ")
    if batchsize is not None:
        check(max(sizes) <= batchsize, "too big", sizes, batchsize)
        check(B == math.ceil(n / batchsize), "B", B, n, batchsize)
        check(B == -(-n // batchsize), "B (int)", B, n, batchsize)
        check(crop.batchsize == batchsize, "reported batchsize")
        check(crop._batch_remainder == 0, "remainder")
    if num_batches is not None:
        check(B == min(num_batches, n), "B", B, n, num_batches)
        check(max(sizes) - min(sizes) <= 1, "uneven", sizes)
        # bigger batches come first
        check(sizes == sorted(sizes, reverse=True), "order", sizes)
        check(crop.batchsize == n // B, "reported batchsize (count mode)")
        check(crop._batch_remainder == n % B, "reported remainder")
    # the crop reports the same numbers, also once reloaded from disk
    check(crop.num_batches == B, "reported B", crop.num_batches, B)
    check(crop.num_sown_batches == B, "num_sown_batches")
    reloaded = Crop(name=crop.name, parent_dir=crop.parent_dir)
    check(
        (reloaded.batchsize, reloaded.num_batches, reloaded._batch_remainder)
        == (crop.batchsize, crop.num_batches, crop._batch_remainder),
        "reloaded numbers differ",
    )
    check(reloaded.num_sown_batches == B, "reloaded num_sown_batches")
    check(repr(reloaded) == repr(crop), "repr")
    return sizes


class FakeCrop:
    """Just the attributes a ``Sower`` reads from its crop."""

    def __init__(self, location, batchsize, remainder):
        self.location = location
        self.batchsize = batchsize
        self._batch_remainder = remainder


def drive_sower_directly(tmp):
    """Feed a Sower by hand and watch its bookkeeping after every call."""
    from xyzpy.gen.cropping import Sower, BTCH_NM

    idx = 0
    for n in range(1, 31):
        # (batchsize, remainder) pairs as chosen by the crop: size mode ...
        plans = [(s, 0, -(-n // s)) for s in range(1, n + 2)]
        # ... and count mode
        for k in range(1, n + 3):
            B = min(k, n)
            plans.append((n // B, n % B, B))
        for bs, rem, B in plans:
            idx += 1
            loc = os.path.join(tmp, f"direct{idx}")
            os.makedirs(os.path.join(loc, "batches"))
            crop = FakeCrop(loc, bs, rem)
            sent = []
            written = 0   # batches written so far
            pending = 0   # cases in the batch being filled
            with Sower(crop) as sow:
                check(sow.crop is crop)
                check((sow._counter, sow._batch_counter, sow._batch_cases) == (0, 0, []))
                for i in range(n):
                    kws = {"a": i, "tag": f"x{i}"}
                    sent.append(kws)
                    ret = sow(**kws)
                    check(ret is None)
                    pending += 1
                    if pending == bs + (1 if written < rem else 0):
                        written += 1
                        pending = 0
                    check(sow._batch_counter == written, "batch counter", n, bs, rem, i)
                    check(sow._counter == pending, "case counter", n, bs, rem, i)
                    check(len(sow._batch_cases) == pending, "pending", n, bs, rem, i)
                    check(sow._batch_cases == sent[len(sent) - pending:], "pending cases")
                    files = sorted(os.listdir(os.path.join(loc, "batches")))
                    check(files == sorted(BTCH_NM.format(j) for j in range(1, written + 1)),
                          "files", files)
            # the left-over partial batch (if any) is written on exit
            if pending:
                written += 1
            check(sow._batch_counter == written == B, "final B", n, bs, rem, written, B)
            check(sow._counter == 0 and sow._batch_cases == [])
            # contents: in order, contiguous chunks of what was sent
            got = []
            sizes = []
            for j in range(1, B + 1):
                f = os.path.join(loc, "batches", BTCH_NM.format(j))
                check(os.path.isfile(f), "missing", f)
                batch = read_from_disk(f)
                check(isinstance(batch, list))
                sizes.append(len(batch))
                got.extend(batch)
            check(got == sent, "contents/order")
            check(len(os.listdir(os.path.join(loc, "batches"))) == B)
            check(min(sizes) >= 1)
            if rem == 0 and bs * B >= n:
                check(sizes == [bs] * (n // bs) + ([n % bs] if n % bs else []), sizes)
            else:
                check(sizes == [bs + 1] * rem + [bs] * (B - rem), sizes)

    # nothing sown at all -> nothing written
    loc = os.path.join(tmp, "direct-empty")
    os.makedirs(os.path.join(loc, "batches"))
    with Sower(FakeCrop(loc, 3, 0)) as sow:
        pass
    check(os.listdir(os.path.join(loc, "batches")) == [])
    check(sow._batch_counter == 0 and sow._counter == 0)

    # an unset remainder is an error at the first sown case (and the exit
    # handler then still flushes what was collected)
    loc = os.path.join(tmp, "direct-none")
    os.makedirs(os.path.join(loc, "batches"))
    try:
        with Sower(FakeCrop(loc, 2, None)) as sow:
            sow(a=1)
    except TypeError:
        check(sow._batch_counter == 1 and sow._counter == 0)
        check(read_from_disk(os.path.join(loc, "batches", BTCH_NM.format(1))) == [{"a": 1}])
    else:
        check(False, "expected TypeError")

    # explicit save_batch calls
    loc = os.path.join(tmp, "direct-manual")
    os.makedirs(os.path.join(loc, "batches"))
    sow = Sower(FakeCrop(loc, 10, 0))
    sow(a=1)
    sow(a=2)
    check(sow._counter == 2)
    sow.save_batch()
    check((sow._counter, sow._batch_counter, sow._batch_cases) == (0, 1, []))
    sow(a=3)
    sow.__exit__(None, None, None)
    check((sow._counter, sow._batch_counter, sow._batch_cases) == (0, 2, []))
    check(read_from_disk(os.path.join(loc, "batches", BTCH_NM.format(1))) == [{"a": 1}, {"a": 2}])
    check(read_from_disk(os.path.join(loc, "batches", BTCH_NM.format(2))) == [{"a": 3}])


def on_disk(tmp):
    idx = 0
    for n in list(range(1, 11)) + [12, 17, 24]:
        cases = [{"a": i, "c": 3 * i} for i in range(n)]
        for shuffle in (False, True, 5):
            # --- grids -----------------------------------------------------
            for combos in grid_for(n):
                exp = expected_settings(combos=combos, constants={"k": "K"})
                for s in range(1, n + 2):
                    idx += 1
                    crop = Crop(fn=fn, name=f"g{idx}", parent_dir=tmp, batchsize=s)
                    crop.sow_combos(combos, constants={"k": "K"}, shuffle=shuffle, verbosity=0)
                    check_partition(crop, n, exp, batchsize=s)
                for k in range(1, n + 3):
                    idx += 1
                    crop = Crop(fn=fn, name=f"g{idx}", parent_dir=tmp, num_batches=k)
                    crop.sow_combos(combos, constants={"k": "K"}, shuffle=shuffle, verbosity=0)
                    check_partition(crop, n, exp, num_batches=k)
            # --- case lists --------------------------------------------------
            exp = expected_settings(cases=cases, constants={"k": "K"})
            for s in range(1, n + 2):
                idx += 1
                crop = Crop(fn=fn, name=f"c{idx}", parent_dir=tmp, batchsize=s, shuffle=shuffle)
                crop.sow_cases(None, cases, constants={"k": "K"}, verbosity=0)
                check_partition(crop, n, exp, batchsize=s)
            for k in range(1, n + 3):
                idx += 1
                crop = Crop(fn=fn, name=f"c{idx}", parent_dir=tmp, num_batches=k, shuffle=shuffle)
                crop.sow_cases(("a", "c"), [(d["a"], d["c"]) for d in cases],
                               constants={"k": "K"}, verbosity=0)
                check_partition(crop, n, exp, num_batches=k)

    # farmer-provided constants and resources, cases x combos
    runner = xyzpy.Runner(fn, var_names="out", constants={"k": 7}, resources={"r": "RES"})
    for n_cases, n_a in [(1, 1), (3, 4), (5, 3), (7, 1)]:
        n = n_cases * n_a
        combos = {"a": list(range(n_a))}
        cases = [{"b": 10 * i} for i in range(n_cases)]
        exp = expected_settings(combos=combos, cases=cases,
                                constants={"k": 7, "r": "RES", "c": 2})
        for shuffle in (False, 3):
            for s in range(1, n + 2):
                idx += 1
                crop = runner.Crop(name=f"r{idx}", parent_dir=tmp, batchsize=s)
                crop.sow_combos(combos, cases=cases, constants={"c": 2}, shuffle=shuffle, verbosity=0)
                check_partition(crop, n, exp, batchsize=s)
            for k in range(1, n + 3):
                idx += 1
                crop = runner.Crop(name=f"r{idx}", parent_dir=tmp, num_batches=k)
                crop.sow_combos(combos, cases=cases, constants={"c": 2}, shuffle=shuffle, verbosity=0)
                check_partition(crop, n, exp, num_batches=k)

    # default: neither requested -> one setting per batch
    crop = Crop(fn=fn, name="default", parent_dir=tmp)
    crop.sow_combos({"a": [1, 2, 3], "b": [4, 5]}, verbosity=0)
    sizes = check_partition(crop, 6, expected_settings(combos={"a": [1, 2, 3], "b": [4, 5]}), batchsize=1)
    check(sizes == [1] * 6)

    # end to end: grow and reap gives the direct-run answer
    crop = Crop(fn=fn, name="e2e", parent_dir=tmp, num_batches=4)
    combos = {"a": list(range(5)), "b": [10, 20]}
    crop.sow_combos(combos, constants={"c": 100}, verbosity=0)
    crop.grow_missing(verbosity=0)
    res = crop.reap(clean_up=False)
    direct = xyzpy.combo_runner(fn, combos, constants={"c": 100})
    check(res == direct, "reap != direct", res, direct)


def main():
    with tempfile.TemporaryDirectory() as tmp:
        drive_sower_directly(tmp)
    with tempfile.TemporaryDirectory() as tmp:
        on_disk(tmp)
    print("checks:", CHECKS)
    print("PASS")


if __name__ == "__main__":
    main()
