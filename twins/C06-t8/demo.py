"""C06 / t8 demo: a crop attached to a Runner, Harvester or Sampler reaps what
a direct run gives.  Exercises the sow / save / load / reap / sync / clean-up
paths of ``xyzpy.gen.cropping.Crop`` and compares everything observable
(datasets, dataframes, last results, files on disk, exceptions, order of
side effects) with a direct run or with explicitly spelled out expectations.

Run as:  cd <worktree> && /venv/bin/python /path/to/demo.py
Prints PASS and exits 0 when every check holds.
"""
import os
import sys

sys.path.insert(0, os.getcwd())

import pickle
import shutil
import subprocess
import tempfile
import warnings

import numpy as np
import pandas as pd
import xarray as xr

import xyzpy
from xyzpy import Runner, Harvester, Sampler, load_ds, load_df
from xyzpy.gen.cropping import Crop, XYZError, read_from_disk, grow

warnings.simplefilter("ignore")

FAILURES = []
NCHECKS = [0]


def check(cond, msg):
    NCHECKS[0] += 1
    if not cond:
        FAILURES.append(msg)
        print("  not ok:", msg)


def raises(exc, fn, *args, **kwargs):
    try:
        fn(*args, **kwargs)
    except exc as e:
        return e
    except BaseException as e:  # noqa
        return None
    return None


# ----------------------------- target functions ---------------------------- #


def fn_arr(a, b, c, t, scale, offset):
    # c: constant (attribute), t: constant that is an internal dimension,
    # scale: resource (not recorded), offset: plain constant
    t = np.asarray(t)
    return scale * (a + b) + c + offset, (a * 10 + b) * t, (a + b) % 2 == 0


def make_runner(**extra):
    return Runner(
        fn_arr,
        var_names=["tot", "ramp", "even"],
        fn_args=["a", "b", "c", "t", "scale", "offset"],
        var_dims={"ramp": ["t"]},
        constants={"c": 100, "t": [0.0, 0.5, 1.0], "offset": 0},
        resources={"scale": 2},
        attrs={"fruit": "apples"},
        **extra
    )


def fn_sc(a, b, c, k):
    return a + b + c + k, a - b


def make_scalar_runner():
    return Runner(
        fn_sc,
        var_names=["sum", "diff"],
        fn_args=["a", "b", "c", "k"],
        constants={"c": 42},
        resources={"k": 1000},
        attrs={"veg": "leek"},
    )


COMBOS = (("a", (1, 2)), ("b", (3, 4, 5)))


def listing(root):
    out = []
    for d, _, fs in os.walk(root):
        for f in fs:
            out.append(os.path.relpath(os.path.join(d, f), root))
    return sorted(out)


def grow_in_other_process(name, parent_dir, batch_ids=None):
    """Reload the crop by name in another process and grow it there."""
    code = (
        "import os, sys; sys.path.insert(0, os.getcwd());"
        "from xyzpy.gen.cropping import Crop;"
        "c = Crop(name={!r}, parent_dir={!r});"
        "ids = {!r};"
        "c.grow_missing(verbosity=0) if ids is None else "
        "c.grow(ids, verbosity=0)"
    ).format(name, parent_dir, batch_ids)
    subprocess.run(
        [sys.executable, "-W", "ignore", "-c", code],
        check=True,
        cwd=os.getcwd(),
    )


# --------------------------------- Runner ---------------------------------- #


def runner_section(tdir):
    print("runner: combos, constants, resources, attrs, internal dims")
    for shuffle in (False, True, 3):
        for sown in (None, {"c": 7, "offset": 0.5}):
            direct = make_runner()
            kws = {} if sown is None else {"constants": sown}
            expected = direct.run_combos(COMBOS, verbosity=0, **kws)

            r = make_runner()
            name = "r-{}-{}".format(shuffle, sown is not None)
            crop = r.Crop(name=name, parent_dir=tdir, batchsize=4)
            crop.sow_combos(COMBOS, shuffle=shuffle, verbosity=0, **kws)

            # files written by sowing: names and contents
            files = listing(crop.location)
            check(
                files
                == [
                    os.path.join("batches", "xyz-batch-1.jbdmp"),
                    os.path.join("batches", "xyz-batch-2.jbdmp"),
                    "xyz-function.clpkl",
                    "xyz-settings.jbdmp",
                ],
                "{}: unexpected files after sow: {}".format(name, files),
            )
            info = read_from_disk(
                os.path.join(crop.location, "xyz-settings.jbdmp")
            )
            check(
                info["constants"] == ({} if sown is None else sown)
                and info["combos"]
                == [("a", [1, 2]), ("b", [3, 4, 5])]
                and info["cases"] == ()
                and info["fn_args"] is None
                and (info["batchsize"], info["num_batches"]) == (4, 2)
                and info["_batch_remainder"] == 0
                and info["shuffle"] == shuffle
                and sorted(info)
                == sorted(
                    [
                        "combos", "cases", "fn_args", "constants",
                        "batchsize", "num_batches", "_batch_remainder",
                        "shuffle", "farmer",
                    ]
                ),
                "{}: wrong settings on disk: {}".format(name, info),
            )
            saved_farmer = pickle.loads(info["farmer"])
            check(
                isinstance(saved_farmer, Runner)
                and saved_farmer.fn is None
                and saved_farmer._constants == r._constants
                and saved_farmer._resources == r._resources
                and saved_farmer._attrs == r._attrs
                and r.fn is fn_arr,
                "{}: saved farmer wrong, or live farmer lost fn".format(name),
            )
            batches = [
                read_from_disk(
                    os.path.join(
                        crop.location, "batches", "xyz-batch-%d.jbdmp" % i
                    )
                )
                for i in (1, 2)
            ]
            check(
                [len(b) for b in batches] == [4, 2],
                "{}: wrong batch sizes".format(name),
            )
            cc = 100 if sown is None else 7
            off = 0 if sown is None else 0.5
            want_keys = ["a", "b", "scale", "c", "t", "offset"]
            flat = [kw for b in batches for kw in b]
            check(
                all(list(kw) == want_keys for kw in flat)
                and all(
                    kw["scale"] == 2
                    and kw["c"] == cc
                    and kw["offset"] == off
                    and kw["t"] == [0.0, 0.5, 1.0]
                    for kw in flat
                )
                and sorted((kw["a"], kw["b"]) for kw in flat)
                == [(a, b) for a in (1, 2) for b in (3, 4, 5)],
                "{}: wrong sown kwargs: {}".format(name, flat[:1]),
            )
            if shuffle is False:
                check(
                    [(kw["a"], kw["b"]) for kw in flat]
                    == [(a, b) for a in (1, 2) for b in (3, 4, 5)],
                    "{}: unshuffled order wrong".format(name),
                )

            # not ready yet
            e = raises(XYZError, crop.reap)
            check(e is not None, "{}: early reap did not raise".format(name))

            # reload by name (farmer unpickled, function re-attached),
            # grow one batch in this process and one in another process
            c2 = Crop(name=name, parent_dir=tdir)
            check(
                isinstance(c2.farmer, Runner)
                and c2.farmer is not r
                and c2.farmer.fn is not None
                and c2.fn is c2.farmer.fn,
                "{}: reload did not re-attach the function".format(name),
            )
            c2.grow(1, verbosity=0)
            grow_in_other_process(name, tdir, batch_ids=(2,))

            # reap from yet another reload
            c3 = Crop(name=name, parent_dir=tdir)
            got = c3.reap()
            check(
                isinstance(got, xr.Dataset) and got.identical(expected),
                "{}: reloaded crop reaped\n{}\nexpected\n{}".format(
                    name, got, expected
                ),
            )
            check(
                c3.farmer.last_ds is got,
                "{}: not recorded as last_ds".format(name),
            )
            check(
                not os.path.exists(crop.location),
                "{}: crop not cleaned up".format(name),
            )
            check(
                got.attrs == {"c": cc, "offset": off, "fruit": "apples"}
                and "scale" not in got.attrs
                and list(got["t"].values) == [0.0, 0.5, 1.0],
                "{}: attrs / internal coords wrong: {}".format(
                    name, got.attrs
                ),
            )

    print("runner: cases, mixed cases and combos, to_df")
    cases = [(1, 3), (2, 5), (4, 4)]
    direct = make_scalar_runner()
    expected = direct.run_cases(cases, constants={"c": 1}, verbosity=0)
    r = make_scalar_runner()
    crop = r.Crop(name="r-cases", parent_dir=tdir, num_batches=2)
    crop.sow_cases(None, cases, constants={"c": 1}, verbosity=0)
    info = crop.load_info()
    check(
        info["fn_args"] == ("a", "b", "c", "k")
        and info["constants"] == {"c": 1}
        and (info["batchsize"], info["num_batches"]) == (1, 2)
        and info["_batch_remainder"] == 1,
        "r-cases: wrong settings: {}".format(info),
    )
    crop.grow_missing(verbosity=0)
    got = crop.reap(clean_up=False)
    check(got.identical(expected), "r-cases: dataset differs")
    check(r.last_ds is got, "r-cases: last_ds not recorded")
    check(os.path.isdir(crop.location), "r-cases: clean_up=False ignored")
    # ... the same crop to a dataframe
    expected_df = make_scalar_runner().run_cases(
        cases, constants={"c": 1}, verbosity=0, to_df=True
    )
    got_df = crop.reap_runner(r, to_df=True)
    check(
        isinstance(got_df, pd.DataFrame) and got_df.equals(expected_df),
        "r-cases: dataframe differs:\n{}\n{}".format(got_df, expected_df),
    )
    check(
        r._last_df is got_df and r.last_ds is got,
        "r-cases: last_df not recorded (or last_ds overwritten)",
    )
    check(not os.path.exists(crop.location), "r-cases: not cleaned up")

    # mixed
    direct = make_scalar_runner()
    mcases = [{"a": 1}, {"a": 5}]
    mcombos = {"b": [2, 3, 4]}
    from xyzpy import combo_runner_to_ds

    expected = combo_runner_to_ds(
        fn_sc,
        mcombos,
        ["sum", "diff"],
        cases=mcases,
        constants={"c": 42},
        resources={"k": 1000},
        attrs={"veg": "leek"},
        verbosity=0,
    )
    r = make_scalar_runner()
    crop = r.Crop(name="r-mixed", parent_dir=tdir, batchsize=4)
    crop.sow_combos(mcombos, cases=mcases, verbosity=0, num_batches=None)
    check(
        (crop.batchsize, crop.num_batches) == (4, 2),
        "r-mixed: batch settings",
    )
    crop.grow_missing(verbosity=0)
    got = crop.reap()
    check(got.identical(expected), "r-mixed: dataset differs")

    # batch settings given when sowing override those of the crop
    r = make_scalar_runner()
    crop = r.Crop(name="r-over", parent_dir=tdir, batchsize=4)
    crop.sow_combos(COMBOS, verbosity=0, batchsize=2)
    check(
        (crop.batchsize, crop.num_batches) == (2, 3)
        and crop.num_sown_batches == 3,
        "r-over: batchsize override ignored",
    )
    crop.delete_all()
    crop = r.Crop(name="r-over2", parent_dir=tdir)
    crop.sow_cases(["a", "b"], cases, verbosity=0, num_batches=3)
    check(
        (crop.batchsize, crop.num_batches) == (1, 3)
        and crop.num_sown_batches == 3,
        "r-over2: num_batches override ignored",
    )
    crop.delete_all()

    print("runner: allow_incomplete, missing settings")
    direct = make_scalar_runner()
    expected = direct.run_combos(COMBOS, verbosity=0)
    r = make_scalar_runner()
    crop = r.Crop(name="r-inc", parent_dir=tdir, batchsize=2)
    crop.sow_combos(COMBOS, verbosity=0)
    crop.grow((1, 3), verbosity=0)
    got = crop.reap(allow_incomplete=True)
    check(os.path.isdir(crop.location), "r-inc: incomplete reap cleaned up")
    check(
        int(got["sum"].isnull().sum()) == 2
        and int((got["sum"] == expected["sum"]).sum()) == 4
        and got.attrs == expected.attrs,
        "r-inc: incomplete reap wrong",
    )
    crop.grow_missing(verbosity=0)
    got = crop.reap()
    check(got.identical(expected), "r-inc: complete reap differs")

    ghost = Crop(name="ghost", parent_dir=tdir, farmer=make_scalar_runner())
    e = raises(XYZError, ghost.load_info)
    check(
        e is not None
        and str(e)
        == "Settings can't be found at {}.".format(
            os.path.join(tdir, ".xyz-ghost", "xyz-settings.jbdmp")
        ),
        "ghost: wrong error for missing settings: {!r}".format(e),
    )
    e = raises(XYZError, ghost.reap_runner, ghost.farmer, wait=True)
    check(e is not None, "ghost: reap_runner without settings")
    check(not ghost.is_prepared(), "ghost: is_prepared")

    # a crop without farmer: constants pass through untouched
    bare = Crop(fn=fn_sc, parent_dir=tdir, name="bare")
    check(
        bare.parse_constants((("c", 1),)) == {"c": 1}
        and bare.parse_constants(None) == {},
        "bare: parse_constants",
    )
    bare.sow_combos(COMBOS, constants={"c": 1, "k": 2}, verbosity=0)
    kws = read_from_disk(
        os.path.join(bare.location, "batches", "xyz-batch-1.jbdmp")
    )
    check(
        kws == [{"a": 1, "b": 3, "c": 1, "k": 2}]
        and list(kws[0]) == ["a", "b", "c", "k"],
        "bare: sown kwargs: {}".format(kws),
    )
    bare.grow_missing(verbosity=0)
    check(
        bare.reap() == xyzpy.combo_runner(
            fn_sc, COMBOS, constants={"c": 1, "k": 2}, verbosity=0
        ),
        "bare: raw results",
    )


# -------------------------------- Harvester -------------------------------- #


def harvester_section(tdir):
    print("harvester: overwrite policies, sync, reload, clean-up order")
    first = (("a", (1, 2)), ("b", (3, 4)))
    second = (("a", (2, 3)), ("b", (4, 5)))

    for overwrite in (None, True, False):
        for conflict in (False, True):
            tag = "h-{}-{}".format(overwrite, conflict)
            f_direct = os.path.join(tdir, tag + "-direct.h5")
            f_crop = os.path.join(tdir, tag + "-crop.h5")

            # what is on disk already
            Harvester(make_runner(), f_direct).harvest_combos(
                first, verbosity=0
            )
            Harvester(make_runner(), f_crop).harvest_combos(
                first, verbosity=0
            )
            # new data, conflicting on the overlap (a=2, b=4) or not
            sown = {"offset": 1} if conflict else {}

            hd = Harvester(make_runner(), f_direct)
            derr = raises(
                Exception,
                hd.harvest_combos,
                second,
                overwrite=overwrite,
                constants=sown,
                verbosity=0,
            )

            h = Harvester(make_runner(), f_crop)
            crop = h.Crop(name=tag, parent_dir=tdir, num_batches=2)
            crop.sow_combos(second, constants=sown, verbosity=0)
            grow_in_other_process(tag, tdir)
            # reap from a reloaded crop (harvester unpickled from disk)
            c2 = Crop(name=tag, parent_dir=tdir)
            check(
                isinstance(c2.farmer, Harvester) and c2.farmer is not h
                and c2.farmer.data_name == f_crop,
                tag + ": reloaded farmer",
            )
            cerr = raises(Exception, c2.reap, overwrite=overwrite)

            check(
                type(derr) is type(cerr),
                "{}: direct raised {!r}, crop raised {!r}".format(
                    tag, derr, cerr
                ),
            )
            check(
                (derr is not None) == (conflict and overwrite is None),
                tag + ": unexpected (lack of) merge error",
            )
            d_disk, c_disk = load_ds(f_direct), load_ds(f_crop)
            check(
                c_disk.identical(d_disk),
                "{}: on-disk data differs\n{}\n{}".format(
                    tag, c_disk, d_disk
                ),
            )
            d_disk.close()
            c_disk.close()
            check(
                c2.farmer.last_ds.identical(hd.last_ds),
                tag + ": last_ds differs",
            )
            # the crop survives a failed sync, and only then
            check(
                os.path.isdir(crop.location) == (cerr is not None),
                tag + ": clean-up not deferred until after the sync",
            )

    # order of the two side effects: merge first, delete second
    f = os.path.join(tdir, "h-order.h5")
    h = Harvester(make_runner(), f)
    crop = h.Crop(name="h-order", parent_dir=tdir)
    crop.sow_combos(first, verbosity=0)
    crop.grow_missing(verbosity=0)
    seen = []
    real_add = h.add_ds

    def spy_add(ds, **kw):
        seen.append((os.path.isdir(crop.location), kw))
        return real_add(ds, **kw)

    h.add_ds = spy_add
    ds = crop.reap(overwrite=False)
    check(
        seen == [(True, {"sync": True, "overwrite": False})],
        "h-order: add_ds called wrongly: {}".format(seen),
    )
    check(not os.path.exists(crop.location), "h-order: not cleaned up")
    check(h.last_ds is ds, "h-order: last_ds")

    # sync=False: nothing merged, nothing written, crop still cleaned
    f = os.path.join(tdir, "h-nosync.h5")
    h = Harvester(make_runner(), f)
    crop = h.Crop(name="h-nosync", parent_dir=tdir)
    crop.sow_combos(first, verbosity=0)
    crop.grow_missing(verbosity=0)
    ds = crop.reap(sync=False)
    check(
        not os.path.exists(f) and h._full_ds is None,
        "h-nosync: something was synced",
    )
    check(
        ds.identical(make_runner().run_combos(first, verbosity=0)),
        "h-nosync: dataset differs",
    )
    check(not os.path.exists(crop.location), "h-nosync: not cleaned up")

    # allow_incomplete keeps the crop unless told otherwise
    f = os.path.join(tdir, "h-inc.h5")
    h = Harvester(make_runner(), f)
    crop = h.Crop(name="h-inc", parent_dir=tdir)
    crop.sow_combos(first, verbosity=0)
    crop.grow((1, 4), verbosity=0)
    crop.reap(allow_incomplete=True)
    check(os.path.isdir(crop.location), "h-inc: cleaned up")
    crop.grow_missing(verbosity=0)
    crop.reap(allow_incomplete=True, clean_up=True)
    check(not os.path.exists(crop.location), "h-inc: clean_up=True ignored")
    full = load_ds(f)
    check(
        full.identical(make_runner().run_combos(first, verbosity=0)),
        "h-inc: final on-disk data differs",
    )
    full.close()

    e = raises(ValueError, Crop(name="x", parent_dir=tdir).reap_harvest, None)
    check(e is not None, "reap_harvest(None) should raise ValueError")
    e = raises(ValueError, Crop(name="x", parent_dir=tdir).reap_samples, None)
    check(e is not None, "reap_samples(None) should raise ValueError")

    # harvester cases, function not saved but passed on re-attachment
    f_direct = os.path.join(tdir, "h-cases-direct.h5")
    f_crop = os.path.join(tdir, "h-cases-crop.h5")
    cases = [(1, 3), (2, 5)]
    hd = Harvester(make_scalar_runner(), f_direct)
    hd.harvest_cases(cases, verbosity=0)
    h = Harvester(make_scalar_runner(), f_crop)
    crop = h.Crop(name="h-cases", parent_dir=tdir, save_fn=False)
    crop.sow_cases(None, cases, verbosity=0)
    check(
        "xyz-function.clpkl" not in listing(crop.location),
        "h-cases: function saved although save_fn=False",
    )
    for i in crop.missing_results():
        grow(i, crop, fn=fn_sc, verbosity=0)
    crop.reap()
    a, b = load_ds(f_direct), load_ds(f_crop)
    check(a.identical(b), "h-cases: on-disk data differs")
    a.close()
    b.close()
    check(h.last_ds.identical(hd.last_ds), "h-cases: last_ds differs")


# --------------------------------- Sampler --------------------------------- #


def sampler_section(tdir):
    print("sampler: samples, accumulated dataframe, reload")
    default_combos = (
        ("a", (1, 2, 3, 4, 5)),
        ("b", lambda: int(np.random.randint(10, 20))),
    )
    f_direct = os.path.join(tdir, "s-direct.pkl")
    f_crop = os.path.join(tdir, "s-crop.pkl")

    sd = Sampler(make_scalar_runner(), f_direct, default_combos=default_combos)
    s = Sampler(make_scalar_runner(), f_crop, default_combos=default_combos)

    for rnd, (n, reload_) in enumerate([(7, False), (5, True)]):
        np.random.seed(100 + rnd)
        expected = sd.sample_combos(n, verbosity=0)

        np.random.seed(100 + rnd)
        name = "s-{}".format(rnd)
        crop = s.Crop(name=name, parent_dir=tdir, batchsize=3)
        crop.sow_samples(n, verbosity=0)
        info = crop.load_info()
        check(
            info["fn_args"] == ("a", "b") and len(info["cases"]) == n
            and info["constants"] == {},
            name + ": settings",
        )
        kw = read_from_disk(
            os.path.join(crop.location, "batches", "xyz-batch-1.jbdmp")
        )[0]
        check(
            list(kw) == ["a", "b", "k", "c"] and kw["k"] == 1000
            and kw["c"] == 42,
            name + ": sown kwargs: {}".format(kw),
        )
        if reload_:
            grow_in_other_process(name, tdir)
            c = Crop(name=name, parent_dir=tdir)
            check(
                isinstance(c.farmer, Sampler) and c.farmer is not s,
                name + ": reloaded farmer",
            )
        else:
            crop.grow_missing(verbosity=0)
            c = crop
        got = c.reap()
        check(
            isinstance(got, pd.DataFrame) and got.equals(expected),
            "{}: dataframe differs\n{}\n{}".format(name, got, expected),
        )
        check(
            c.farmer.last_df is got and c.farmer.runner._last_df is got,
            name + ": last_df not recorded",
        )
        check(
            load_df(f_crop).equals(load_df(f_direct)),
            name + ": accumulated on-disk dataframe differs",
        )
        check(len(load_df(f_crop)) == (7 if rnd == 0 else 12), name + ": len")
        check(not os.path.exists(crop.location), name + ": not cleaned up")

    # sync=False leaves sampler and disk alone
    before = load_df(f_crop)
    s2 = Sampler(make_scalar_runner(), f_crop, default_combos=default_combos)
    crop = s2.Crop(name="s-nosync", parent_dir=tdir)
    np.random.seed(5)
    crop.sow_samples(3, verbosity=0)
    crop.grow_missing(verbosity=0)
    got = crop.reap(sync=False, clean_up=False)
    check(
        s2.last_df is None and s2._full_df is None
        and s2.runner._last_df is got,
        "s-nosync: sampler touched",
    )
    check(load_df(f_crop).equals(before), "s-nosync: disk touched")
    check(os.path.isdir(crop.location), "s-nosync: clean_up=False ignored")
    # order: recorded and merged before the crop is deleted
    seen = []
    real_add = s2.add_df

    def spy_add(df, **kw):
        seen.append((os.path.isdir(crop.location), s2.last_df is df, kw))
        return real_add(df, **kw)

    s2.add_df = spy_add
    got = crop.reap()
    check(seen == [(True, True, {"sync": True})], "s-order: {}".format(seen))
    check(not os.path.exists(crop.location), "s-order: not cleaned up")
    check(len(load_df(f_crop)) == len(before) + 3, "s-order: disk")


def main():
    tdir = tempfile.mkdtemp(prefix="c06-t8-")
    try:
        print("xyzpy from", xyzpy.__file__)
        assert os.path.dirname(os.path.dirname(xyzpy.__file__)) == os.getcwd()
        runner_section(tdir)
        harvester_section(tdir)
        sampler_section(tdir)
    finally:
        shutil.rmtree(tdir, ignore_errors=True)

    print("{} checks, {} failed".format(NCHECKS[0], len(FAILURES)))
    if FAILURES:
        print("FAIL")
        for f in FAILURES:
            print(" -", f)
        return 1
    print("PASS")
    return 0


if __name__ == "__main__":
    sys.exit(main())
