"""Demo for C10 (crash safety of sow / grow / reap), crop bookkeeping side.

Run as ``cd <worktree> && /venv/bin/python /path/to/demo.py``.

A worker is *really* killed (``os._exit`` in a forked child, no buffers are
flushed, no ``finally`` / ``__exit__`` runs) at every file-system operation
boundary of ``sow_combos``, ``grow_missing`` and ``reap``: before ``open``,
after create / truncate, after partial write prefixes, before / after
``close``, before / after ``os.replace``, before / after every ``unlink`` /
``rmdir`` of the clean up.  From every crash state

* a plain ``reap`` by a fresh process either refuses or returns the exact
  results,
* the recovery (re-sow if the sown files are incomplete, ``check_bad``,
  ``grow_missing``, ``reap``) reaches exactly the uninterrupted results,
  also when the recovery itself is killed once more.

The bookkeeping helpers the recovery relies on (``calc_progress``,
``is_ready_to_reap``, ``missing_results``, ``all_nan_result``, ``check_bad``)
are additionally checked directly on hand-made good / truncated / wrong-length
result files.
"""
import os
import sys

sys.path.insert(0, os.getcwd())

import builtins  # noqa: E402
import contextlib  # noqa: E402
import io  # noqa: E402
import math  # noqa: E402
import pickle  # noqa: E402
import shutil  # noqa: E402
import tempfile  # noqa: E402
import traceback  # noqa: E402
import warnings  # noqa: E402

warnings.filterwarnings("ignore")

import tqdm  # noqa: E402
import xarray as xr  # noqa: E402
import xyzpy as xyz  # noqa: E402
from xyzpy.gen.cropping import Crop, XYZError  # noqa: E402

assert os.path.abspath(xyz.__file__).startswith(os.getcwd()), xyz.__file__

tqdm.tqdm.monitor_interval = 0  # no monitor thread: workers are forked

KILLED = 77
OUTCOMES = []  # everything observed, digested at the end


def log(*items):
    OUTCOMES.append(repr(items))


# --------------------------------------------------------------------------- #
#                       killing a worker at a boundary                        #
# --------------------------------------------------------------------------- #


class Crash:
    def __init__(self, root, kill_at):
        self.root = root
        self.kill_at = kill_at
        self.count = 0

    def point(self):
        self.count += 1
        if self.count == self.kill_at:
            os._exit(KILLED)


class FileProxy:
    """A file opened for writing below the watched root."""

    def __init__(self, f, crash):
        self._f = f
        self._crash = crash

    def write(self, data):
        return self._f.write(data)

    def close(self):
        if not self._f.closed:
            self._crash.point()  # before close (data may still be buffered)
            self._f.close()
            self._crash.point()  # after close

    def __enter__(self):
        return self

    def __exit__(self, *exc):
        self.close()
        return False

    def __getattr__(self, name):
        return getattr(self._f, name)


def install_hooks(crash):
    real_open = builtins.open
    real_dump, real_dumps = pickle.dump, pickle.dumps

    def hooked_open(file, mode="r", *args, **kwargs):
        watched = (
            isinstance(file, str)
            and os.path.abspath(file).startswith(crash.root)
            and any(c in mode for c in "wax+")
        )
        if not watched:
            return real_open(file, mode, *args, **kwargs)
        crash.point()  # before open
        f = real_open(file, mode, *args, **kwargs)
        crash.point()  # after create / truncate
        return FileProxy(f, crash)

    def hooked_dump(obj, file, *args, **kwargs):
        if not isinstance(file, FileProxy):
            return real_dump(obj, file, *args, **kwargs)
        data = real_dumps(obj, *args, **kwargs)
        n = len(data)
        cuts = sorted(c for c in {1, n // 2, n - 1} if 0 < c < n) + [n]
        pos = 0
        for c in cuts:
            file.write(data[pos:c])
            file.flush()
            pos = c
            crash.point()  # after a partial write prefix / the full write

    def around(real):
        def hooked(*args, **kwargs):
            crash.point()  # before
            out = real(*args, **kwargs)
            crash.point()  # after
            return out

        return hooked

    builtins.open = hooked_open
    pickle.dump = hooked_dump
    os.replace = around(os.replace)
    os.rename = around(os.rename)
    os.remove = around(os.remove)
    os.unlink = around(os.unlink)
    os.rmdir = around(os.rmdir)


def run_worker(root, kill_at, action):
    """Run ``action`` in a forked worker that is killed at its ``kill_at``-th
    file-system operation boundary. Returns whether it was killed.
    """
    sys.stdout.flush()
    sys.stderr.flush()
    pid = os.fork()
    if pid == 0:
        code = 3
        try:
            install_hooks(Crash(root, kill_at))
            with contextlib.redirect_stdout(io.StringIO()):
                action()
            code = 0
        except BaseException:
            traceback.print_exc(file=sys.__stderr__)
            sys.__stderr__.flush()
        finally:
            os._exit(code)
    _, status = os.waitpid(pid, 0)
    code = os.waitstatus_to_exitcode(status)
    assert code in (0, KILLED), "worker failed by itself: {}".format(code)
    return code == KILLED


@contextlib.contextmanager
def quiet():
    with contextlib.redirect_stdout(io.StringIO()) as out:
        yield out


@contextlib.contextmanager
def no_progress_bars():
    with contextlib.redirect_stderr(io.StringIO()):
        yield


# --------------------------------------------------------------------------- #
#                              the crops studied                              #
# --------------------------------------------------------------------------- #


def fn(a, b):
    return 10.0 * a + b


COMBOS = {"a": [1, 2, 3, 4, 5, 6, 7], "b": [0.5]}
EXPECTED = xyz.combo_runner(fn, COMBOS, verbosity=0)
assert EXPECTED == tuple((10.0 * a + 0.5,) for a in range(1, 8))


class RawKind:
    """Crop without farmer, 7 cases in 3 batches (sizes 3, 2, 2)."""

    name = "raw"
    subdir = "plain"

    def crop(self, d):
        return Crop(fn=fn, name="demo", parent_dir=d, num_batches=3)

    def same(self, res):
        return res == EXPECTED


RUNNER_COMBOS = {"a": [1, 2, 3], "b": [0.5, 1.5]}


class RunnerKind:
    """Crop of a Runner, 6 cases in batches of 4 (sizes 4, 2), in a directory
    whose name is full of glob magic."""

    name = "runner"
    subdir = "od[d]*dir?"

    def __init__(self):
        self.expected = self.runner().run_combos(RUNNER_COMBOS, verbosity=0)

    def runner(self):
        return xyz.Runner(fn, var_names=["out"], attrs={"who": "demo"})

    def crop(self, d):
        return self.runner().Crop(name="demo", parent_dir=d, batchsize=4)

    def same(self, res):
        return isinstance(res, xr.Dataset) and res.identical(self.expected)


def combos_of(kind):
    return COMBOS if kind.name == "raw" else RUNNER_COMBOS


def sown_complete(crop):
    loc = crop.location
    return (
        os.path.isdir(os.path.join(loc, "batches"))
        and os.path.isdir(os.path.join(loc, "results"))
        and os.path.isfile(os.path.join(loc, "xyz-settings.jbdmp"))
        and os.path.isfile(os.path.join(loc, "xyz-function.clpkl"))
        and crop.num_sown_batches == crop.num_batches
    )


# the stages a worker can be killed in


def do_sow(kind, d):
    kind.crop(d).sow_combos(combos_of(kind), verbosity=0)


def do_grow(kind, d):
    kind.crop(d).grow_missing(verbosity=0)


def do_reap(kind, d):
    res = kind.crop(d).reap()
    assert kind.same(res)


def do_recover(kind, d):
    """The documented recovery, as a fresh process would run it."""
    crop = kind.crop(d)
    if not sown_complete(crop):
        crop.sow_combos(combos_of(kind), verbosity=0)
    with quiet():
        crop.check_bad()
    crop.grow_missing(verbosity=0)
    res = crop.reap()
    assert kind.same(res), res
    # everything was cleaned up
    assert not os.path.exists(crop.location)
    return res


STAGES = [("sow", do_sow), ("grow", do_grow), ("reap", do_reap)]


def fresh_dir(top, kind):
    d = os.path.join(tempfile.mkdtemp(dir=top), kind.subdir)
    os.makedirs(d)
    return d


def prepare_state(kind, d, stage):
    for name, action in STAGES:
        if name == stage:
            return
        action(kind, d)


def plain_reap_refuses_or_is_exact(kind, d, top):
    """What a process that knows nothing of the crash gets from ``reap``."""
    d2 = os.path.join(tempfile.mkdtemp(dir=top), kind.subdir)
    shutil.copytree(d, d2)
    try:
        res = kind.crop(d2).reap()
    except Exception as e:
        return "refused:" + type(e).__name__
    assert kind.same(res), "reap returned wrong data as if complete"
    return "exact"


def grow_what_is_there_then_reap(kind, d, top):
    """After a crash while sowing: grow the batches that made it to disk, the
    crop then looks finished to a count of files, but must still not reap
    anything incomplete."""
    d2 = os.path.join(tempfile.mkdtemp(dir=top), kind.subdir)
    shutil.copytree(d, d2)
    try:
        crop = kind.crop(d2)
        present = [
            i
            for i in range(1, 4)
            if os.path.isfile(
                os.path.join(
                    crop.location, "batches", "xyz-batch-{}.jbdmp".format(i)
                )
            )
        ]
        crop.grow(tuple(present), verbosity=0)
        res = crop.reap()
    except Exception as e:
        return "refused:" + type(e).__name__
    assert kind.same(res), "reap returned wrong data as if complete"
    return "exact"


def crash_everywhere(kind, top, second_stride):
    n_states = 0
    n_double = 0
    for stage, action in STAGES:
        k = 0
        while True:
            k += 1
            d = fresh_dir(top, kind)
            prepare_state(kind, d, stage)
            killed = run_worker(d, k, lambda: action(kind, d))
            if not killed:
                # the stage has fewer than k boundaries: ran to the end
                assert k > 5
                log(kind.name, stage, "boundaries", k - 1)
                break
            n_states += 1

            seen = plain_reap_refuses_or_is_exact(kind, d, top)
            log(kind.name, stage, k, "plain reap", seen)
            if stage == "sow":
                seen = grow_what_is_there_then_reap(kind, d, top)
                log(kind.name, stage, k, "grow present + reap", seen)

            if k % second_stride == 1:
                # kill the recovery as well, at a spread of its own boundaries
                j = 1 + (k // second_stride) % 5
                while True:
                    d3 = os.path.join(tempfile.mkdtemp(dir=top), kind.subdir)
                    shutil.copytree(d, d3)
                    killed2 = run_worker(
                        d3, j, lambda: do_recover(kind, d3)
                    )
                    if not killed2:
                        assert not os.path.exists(kind.crop(d3).location)
                        break
                    n_double += 1
                    seen = plain_reap_refuses_or_is_exact(kind, d3, top)
                    log(kind.name, stage, k, j, "plain reap", seen)
                    do_recover(kind, d3)
                    j += 5

            do_recover(kind, d)
            shutil.rmtree(os.path.dirname(d))
    return n_states, n_double


# --------------------------------------------------------------------------- #
#                    the bookkeeping helpers, checked directly                #
# --------------------------------------------------------------------------- #


def result_file(crop, i):
    return os.path.join(
        crop.location, "results", "xyz-result-{}.jbdmp".format(i)
    )


def check_bookkeeping(top):
    for sub in ("plain", "we[i]rd*dir?"):
        d = os.path.join(tempfile.mkdtemp(dir=top), sub)
        os.makedirs(d)
        raw = RawKind()

        # --- nothing on disk yet
        crop = raw.crop(d)
        crop.calc_progress()
        assert (crop._num_sown_batches, crop._num_results) == (-1, -1)
        assert crop.num_sown_batches == -1 and crop.num_results == -1
        assert crop.is_ready_to_reap() is False
        for opts in ({}, {"clean_up": False}):
            try:
                crop.reap(**opts)
            except XYZError as e:
                assert "not ready to reap" in str(e)
            else:
                raise AssertionError("reaped nothing")
        assert crop.missing_results() == (1, 2, 3)
        try:
            Crop(fn=fn, name="demo", parent_dir=d).missing_results()
        except TypeError:
            pass  # the number of batches is not known before sowing
        else:
            raise AssertionError

        # --- sown, nothing grown
        crop.sow_combos(COMBOS, verbosity=0)
        assert (crop.batchsize, crop.num_batches) == (2, 3)
        assert crop.num_sown_batches == 3 and crop.num_results == 0
        assert crop.is_ready_to_reap() is False
        assert crop.missing_results() == (1, 2, 3)
        with quiet() as out:
            assert crop.check_bad() == ()
            assert crop.check_bad(delete_bad=False) == ()
        assert out.getvalue() == ""
        try:
            crop.all_nan_result
        except XYZError as e:
            assert "at least one finished result" in str(e)
        else:
            raise AssertionError
        try:
            crop.reap(allow_incomplete=True)
        except XYZError:
            pass
        else:
            raise AssertionError
        assert os.path.isdir(crop.location)

        # --- stray temporary files of killed writers are not counted
        for name in (
            os.path.join("batches", "xyz-batch-2.jbdmp.123-abc.tmp"),
            os.path.join("results", "xyz-result-2.jbdmp.123-abc.tmp"),
        ):
            with open(os.path.join(crop.location, name), "wb") as f:
                f.write(b"\x80\x04")
        assert crop.num_sown_batches == 3 and crop.num_results == 0
        assert crop.missing_results() == (1, 2, 3)
        with quiet() as out:
            assert crop.check_bad() == ()
        assert out.getvalue() == ""

        # --- partly grown
        crop.grow(2, verbosity=0)
        crop2 = raw.crop(d)  # a fresh look at the same files
        for c in (crop, crop2):
            assert c.num_results == 1 and c.num_sown_batches == 3
            assert c.missing_results() == (1, 3)
            assert c.is_ready_to_reap() is False
        nan = crop2.all_nan_result
        assert isinstance(nan, float) and math.isnan(nan)
        assert crop2.all_nan_result is nan  # kept
        try:
            crop.reap()
        except XYZError:
            pass
        else:
            raise AssertionError
        res = crop.reap(allow_incomplete=True)
        assert [math.isnan(x[0]) for x in res] == [True] * 3 + [False] * 2 + [
            True
        ] * 2
        assert res[3:5] == EXPECTED[3:5]
        assert os.path.isdir(crop.location)  # kept, being incomplete

        # --- bad results: one cut short, one of the wrong length
        crop.grow((1, 3), verbosity=0)
        assert crop.is_ready_to_reap() is True
        assert crop.missing_results() == ()
        good = {}
        for i in (1, 2, 3):
            with open(result_file(crop, i), "rb") as f:
                good[i] = f.read()
        with quiet() as out:
            assert crop.check_bad(delete_bad=False) == ()
        assert out.getvalue() == ""

        with open(result_file(crop, 1), "wb") as f:
            f.write(good[1][: len(good[1]) // 2])
        try:
            with open(result_file(crop, 1), "rb") as f:
                pickle.load(f)
        except Exception as e:
            err1 = e
        with open(result_file(crop, 3), "wb") as f:
            pickle.dump(pickle.loads(good[3])[:1], f)

        # a count of files can not tell, the length check does
        assert crop.is_ready_to_reap() is True

        with quiet() as out:
            bad = crop.check_bad(delete_bad=False)
        assert sorted(bad) == ["1", "3"], bad
        assert sorted(out.getvalue().splitlines()) == sorted(
            [
                "result {} is bad. Error was: {}".format(
                    result_file(crop, 1), err1
                ),
                "result {} is bad.".format(result_file(crop, 3)),
            ]
        ), out.getvalue()
        assert crop.missing_results() == ()  # nothing was deleted

        with quiet() as out:
            bad = crop.check_bad()
        assert sorted(bad) == ["1", "3"], bad
        assert sorted(out.getvalue().splitlines()) == sorted(
            [
                "result {} is bad - deleting it. Error was: {}".format(
                    result_file(crop, 1), err1
                ),
                "result {} is bad - deleting it.".format(result_file(crop, 3)),
            ]
        ), out.getvalue()
        assert crop.missing_results() == (1, 3)
        assert crop.is_ready_to_reap() is False
        with open(result_file(crop, 2), "rb") as f:
            assert f.read() == good[2]
        with quiet() as out:
            assert crop.check_bad() == ()
        assert out.getvalue() == ""

        # --- a result whose batch file is gone can not be checked
        os.rename(
            os.path.join(crop.location, "batches", "xyz-batch-2.jbdmp"),
            os.path.join(crop.location, "batches", "away"),
        )
        try:
            with quiet():
                crop.check_bad()
        except FileNotFoundError:
            pass
        else:
            raise AssertionError
        assert os.path.isfile(result_file(crop, 2))
        os.rename(
            os.path.join(crop.location, "batches", "away"),
            os.path.join(crop.location, "batches", "xyz-batch-2.jbdmp"),
        )

        # --- regrow and reap exactly
        crop.grow_missing(verbosity=0)
        for i in (1, 2, 3):
            with open(result_file(crop, i), "rb") as f:
                assert f.read() == good[i]
        assert crop.reap() == EXPECTED
        assert not os.path.exists(crop.location)
        log("bookkeeping", sub, "ok")


def main():
    top = tempfile.mkdtemp(prefix="xyz-c10-demo-")
    try:
        with no_progress_bars():
            check_bookkeeping(top)
            n1, m1 = crash_everywhere(RawKind(), top, second_stride=9)
            n2, m2 = crash_everywhere(RunnerKind(), top, second_stride=13)
    finally:
        shutil.rmtree(top, ignore_errors=True)
    if os.environ.get("DEMO_SHOW_OUTCOMES"):
        print("\n".join(OUTCOMES))
    print(
        "crash states: raw {} (+{} killed recoveries), runner {} (+{} killed "
        "recoveries)".format(n1, m1, n2, m2)
    )
    print("PASS")


if __name__ == "__main__":
    main()
