"""Demo for twin t7: the parsing of the output description (``var_names`` /
``var_dims`` spellings, ``parse_combo_results``) and the way ``Runner`` /
``label`` hand that description to the ``*_runner_to_ds`` functions.

Run as ``cd <worktree> && python /path/to/demo.py``.
"""
import os
import sys

sys.path.insert(0, os.getcwd())

import itertools
import shutil
import tempfile
import warnings
from concurrent.futures import ThreadPoolExecutor

import numpy as np
import pandas as pd
import xarray as xr

import xyzpy
from xyzpy.gen import prepare as pp

assert os.path.dirname(os.path.abspath(xyzpy.__file__)).startswith(
    os.getcwd()), xyzpy.__file__

CHECKS = [0]


def ok(cond, msg=""):
    CHECKS[0] += 1
    if not cond:
        raise AssertionError(msg)


def raises(exc, fn, *args, match=None, **kwargs):
    try:
        fn(*args, **kwargs)
    except exc as e:
        ok(match is None or match in str(e), (match, str(e)))
        return e
    except Exception as e:  # wrong kind
        ok(False, "expected %s got %r" % (exc, e))
    else:
        ok(False, "expected %s, nothing raised" % (exc,))


TVALS = [0.0, 0.5, 2.0]
WVALS = ['p', 'q']


def f3(a, b, k=0, big=None, t=None):
    """Three outputs: scalar, 1-d (t), 2-d (t, w)."""
    tt = np.asarray(TVALS if t is None else t)
    x = float(100 * a + b + k + (0 if big is None else len(big)))
    y = a * tt + b
    z = np.outer(tt, [1.0, -1.0]) * b + a
    return x, y, z


def f3b(a, b, k=0, big=None, t=None):
    """Same outputs in the order y, z, x."""
    x, y, z = f3(a, b, k, big, t)
    return y, z, x


def f1(a, b, k=0):
    return a * np.asarray(TVALS) + b + k


def f0(a, b, k=0, big=None):
    return 10 * a + b + k + (0 if big is None else len(big))


COMBOS = {'a': [3, 1, 2], 'b': [20, 10]}
CASES = [{'a': 3, 'b': 10}, {'a': 1, 'b': 30}, {'a': 2, 'b': 10}]


def grid_points(combos):
    keys = list(combos)
    for vals in itertools.product(*combos.values()):
        yield dict(zip(keys, vals))


def check_f3_ds(ds, points, missing=(), k=0, big=None, order=('a', 'b')):
    ok(ds['x'].dims == order, ds['x'].dims)
    ok(ds['y'].dims == order + ('t',), ds['y'].dims)
    ok(ds['z'].dims == order + ('t', 'w'), ds['z'].dims)
    ok(list(ds['t'].values) == TVALS)
    ok(list(ds['w'].values) == WVALS)
    for pt in points:
        ex, ey, ez = f3(**pt, k=k, big=big)
        got = ds.sel(**pt)
        ok(got['x'].item() == ex, pt)
        ok(np.array_equal(got['y'].values, ey), pt)
        ok(np.array_equal(got['z'].values, ez), pt)
    for pt in missing:
        got = ds.sel(**pt)
        ok(np.isnan(got['x'].item()))
        ok(bool(got['y'].isnull().all()) and bool(got['z'].isnull().all()))


# --------------------------------------------------------------------------- #
# 1. the parsers themselves                                                   #
# --------------------------------------------------------------------------- #

def check_parsers():
    ok(pp.parse_var_names(None) == (None,))
    ok(pp.parse_var_names('x') == ('x',))
    ok(pp.parse_var_names(['x', 'y']) == ('x', 'y'))
    ok(pp.parse_var_names(('x',)) == ('x',))
    ok(pp.parse_var_names(x for x in 'ab') == ('a', 'b'))
    ok(pp.parse_var_names({'x': 1, 'y': 2}) == ('x', 'y'))
    ok(pp.parse_var_names(()) == ())
    raises(TypeError, pp.parse_var_names, 5)

    r = object()
    ok(pp.parse_combo_results(r, None) is r)
    ok(pp.parse_combo_results(r, 'xy') == (r,))
    ok(pp.parse_combo_results(r, ('x',)) == (r,))
    ok(pp.parse_combo_results(r, ['x']) == (r,))
    ok(pp.parse_combo_results(r, ('x', 'y')) is r)
    ok(pp.parse_combo_results(r, ()) is r)
    raises(TypeError, pp.parse_combo_results, r, 5)

    names = ('x', 'y', 'z')
    full = {'x': (), 'y': ('t',), 'z': ('t', 'w')}
    spellings = [
        {'y': 't', 'z': ['t', 'w']},
        {'y': ['t'], 'z': ('t', 'w'), 'x': []},
        {'y': ('t',), 'z': ('t', 'w'), 'x': ()},
        [('y', 't'), ('z', ['t', 'w'])],
        (('z', ('t', 'w')), ('y', ('t',)), ('x', ())),
        {('y',): 't', 'z': ('t', 'w')},
        {('x',): (), ('y',): ['t'], ('z',): ['t', 'w']},
    ]
    for sp in spellings:
        got = pp.parse_var_dims(sp, names)
        ok(got == full, (sp, got))
        ok(list(got) == ['x', 'y', 'z'])
        ok(all(isinstance(v, tuple) for v in got.values()))

    # one-to-one with the names (an empty entry cannot come first)
    for sp in (['t', ('t', 'w'), ()], (['t'], ['t', 'w'], []),
               [('t',), ('t', 'w'), ()], ['t', ['t', 'w'], ()]):
        got = pp.parse_var_dims(sp, ('y', 'z', 'x'))
        ok(got == full and list(got) == ['y', 'z', 'x'], (sp, got))
    raises(IndexError, pp.parse_var_dims, [(), 't', ('t', 'w')], names)
    raises(IndexError, pp.parse_var_dims, [[], 't', ('t', 'w')], names)

    # grouped names sharing dimensions; later entries win
    ok(pp.parse_var_dims({('x', 'y'): 't', 'z': ('t', 'w')}, names) ==
       {'x': ('t',), 'y': ('t',), 'z': ('t', 'w')})
    ok(pp.parse_var_dims({('x', 'y', 'z'): ['t', 'w']}, names) ==
       {'x': ('t', 'w'), 'y': ('t', 'w'), 'z': ('t', 'w')})
    ok(pp.parse_var_dims({('x', 'y'): 't', 'y': 'w'}, names) ==
       {'x': ('t',), 'y': ('w',), 'z': ()})
    raises(ValueError, pp.parse_var_dims, [(('x', 'y'), 't'), ('y', 'w')],
           names, match='wrong length')
    ok(pp.parse_var_dims({frozenset(['y']): 't'}, names) ==
       {'x': (), 'y': ('t',), 'z': ()})
    # single output
    ok(pp.parse_var_dims('t', ('o',)) == {'o': ('t',)})
    ok(pp.parse_var_dims('time', ['o']) == {'o': ('time',)})
    ok(pp.parse_var_dims(['t'], ('o',)) == {'o': ('t',)})
    ok(pp.parse_var_dims([['t', 'w']], ('o',)) == {'o': ('t', 'w')})
    ok(pp.parse_var_dims({'o': 'tw'}, ('o',)) == {'o': ('tw',)})
    ok(pp.parse_var_dims([('o', 't')], ('o',)) == {'o': ('t',)})
    ok(pp.parse_var_dims([('o', 't')], ('o', 't')) ==
       {'o': ('t',), 't': ()})
    # nothing given
    for empty in (None, {}, (), [], ''):
        ok(pp.parse_var_dims(empty, names) == {'x': (), 'y': (), 'z': ()})
    ok(pp.parse_var_dims(None, None) == {})
    ok(pp.parse_var_dims(None, (None,)) == {None: ()})
    ok(pp.parse_var_dims(None, 'ab') == {'a': (), 'b': ()})

    # errors
    raises(ValueError, pp.parse_var_dims, {'x': 't'}, None,
           match='Cannot specify variable dimensions')
    raises(ValueError, pp.parse_var_dims, 't', names,
           match='single string')
    raises(ValueError, pp.parse_var_dims, ['t', 'w'], names,
           match='wrong length')
    raises(ValueError, pp.parse_var_dims, ['t', (), 't', 't'], names,
           match='wrong length')
    raises(ValueError, pp.parse_var_dims, {'nope': 't'}, names,
           match='unexpected output name')
    raises(ValueError, pp.parse_var_dims, {('x', 'nope'): 't'}, names,
           match='unexpected output name')
    raises(ValueError, pp.parse_var_dims, {'x': 't', 'q': 'w'}, names,
           match='unexpected output name')
    e = raises(ValueError, pp.parse_var_dims, {'nope': 't'}, names)
    ok(isinstance(e.__context__, KeyError))
    raises(TypeError, pp.parse_var_dims, {'x': 5}, names)
    raises(TypeError, pp.parse_var_dims, {5: 't'}, names)
    raises(TypeError, pp.parse_var_dims, 5, names)
    raises(TypeError, pp.parse_var_dims, {'x': 5, 'nope': 't'}, names)
    raises(ValueError, pp.parse_var_dims, {'nope': 't', 'x': 5}, names)
    raises(KeyError, pp.parse_var_dims, [{'a': 1}], names)


# --------------------------------------------------------------------------- #
# 2. every spelling through the public functions                              #
# --------------------------------------------------------------------------- #

def check_spellings(pool):
    names_spellings = [['y', 'z', 'x'], ('y', 'z', 'x')]
    dims_spellings = [
        {'y': 't', 'z': ['t', 'w']},
        ['t', ('t', 'w'), ()],
        [('y', 't'), ('z', ('t', 'w'))],
        {('y',): ['t'], 'z': ('t', 'w'), 'x': ()},
    ]
    coords_spellings = [
        {'t': TVALS, 'w': WVALS},
        [('t', TVALS), ('w', WVALS)],
        (('w', list(WVALS)), ('t', np.array(TVALS))),
    ]
    exec_opts = [dict(), dict(shuffle=True), dict(shuffle=5),
                 dict(executor=pool), dict(executor=pool, shuffle=2)]
    pts = list(grid_points(COMBOS))
    i = 0
    for vn in names_spellings:
        for vd in dims_spellings:
            for vc in coords_spellings:
                opts = exec_opts[i % len(exec_opts)]
                i += 1
                ds = xyzpy.combo_runner_to_ds(
                    f3b, COMBOS, vn, var_dims=vd, var_coords=vc,
                    constants={'k': 2}, resources=[('big', [0, 0])],
                    attrs={'tag': 'demo'}, verbosity=0, **opts)
                check_f3_ds(ds, pts, k=2, big=[0, 0])
                ok(list(ds['a'].values) == [3, 1, 2])
                ok(list(ds['b'].values) == [20, 10])
                ok(ds.attrs == {'tag': 'demo', 'k': 2}, ds.attrs)

                ds = xyzpy.case_runner_to_ds(
                    f3b, None, CASES, vn, var_dims=vd, var_coords=vc,
                    verbosity=0, **opts)
                ok(list(ds['a'].values) == [1, 2, 3])
                ok(list(ds['b'].values) == [10, 30])
                done = {(c['a'], c['b']) for c in CASES}
                missing = [dict(a=a, b=b) for a in (1, 2, 3) for b in (10, 30)
                           if (a, b) not in done]
                check_f3_ds(ds, CASES, missing=missing)

    # constant that is an internal dimension -> coordinate
    ds = xyzpy.combo_runner_to_ds(
        f3b, COMBOS, ['y', 'z', 'x'], var_dims=['t', ('t', 'w'), ()],
        var_coords={'w': WVALS}, constants={'t': TVALS, 'k': 1}, verbosity=0)
    check_f3_ds(ds, pts, k=1)
    ok(ds.attrs == {'k': 1})

    # one output: str / 1-list names, str dims
    for vn, vd in [('o', 't'), (['o'], 't'), (('o',), ['t']),
                   ('o', {'o': 't'}), ('o', [('o', ['t'])]), (['o'], [['t']])]:
        ds = xyzpy.combo_runner_to_ds(f1, COMBOS, vn, var_dims=vd,
                                      var_coords={'t': TVALS}, verbosity=0)
        ok(ds['o'].dims == ('a', 'b', 't'))
        for pt in pts:
            ok(np.array_equal(ds['o'].sel(**pt).values, f1(**pt)))
    # one output that is a sequence, no var_dims: cannot be labelled as scalar
    ds = xyzpy.combo_runner_to_ds(f0, COMBOS, 'o', verbosity=0)
    ok(ds['o'].dims == ('a', 'b'))
    for pt in pts:
        ok(ds['o'].sel(**pt).item() == f0(**pt))

    # DataFrame form
    for opts in exec_opts:
        df = xyzpy.combo_runner_to_df(
            f0, COMBOS, 'o', constants={'k': 1}, resources={'big': [1]},
            verbosity=0, **opts)
        ok(list(df.columns) == ['a', 'b', 'k', 'o'])
        for i, pt in enumerate(pts):
            row = df.iloc[i]
            ok((row['a'], row['b']) == (pt['a'], pt['b']))
            ok(row['o'] == f0(**pt, k=1, big=[1]))
        df = xyzpy.case_runner_to_df(
            lambda a, b: (a + b, a - b), ('a', 'b'), [(1, 2), (5, 3)],
            ['s', 'd'], verbosity=0, **opts)
        ok(df.to_dict('list') == {'a': [1, 5], 'b': [2, 3], 's': [3, 8],
                                  'd': [-1, 2]})

    # errors surface through the public functions too
    raises(ValueError, xyzpy.combo_runner_to_ds, f3, COMBOS, ['x', 'y', 'z'],
           var_dims='t', verbosity=0, match='single string')
    raises(ValueError, xyzpy.combo_runner_to_ds, f3, COMBOS, ['x', 'y', 'z'],
           var_dims={'u': 't'}, verbosity=0, match='unexpected output name')
    raises(ValueError, xyzpy.case_runner_to_ds, f3, None, CASES,
           ['x', 'y', 'z'], var_dims=['t', 'w'], verbosity=0,
           match='wrong length')
    # (var_names=None is parsed to (None,) before the dimensions are)
    raises(ValueError, xyzpy.combo_runner_to_ds, f3, COMBOS, None,
           var_dims={'x': 't'}, verbosity=0,
           match='unexpected output name')


# --------------------------------------------------------------------------- #
# 3. Runner / label                                                           #
# --------------------------------------------------------------------------- #

def check_runner(pool, tmp):
    pts = list(grid_points(COMBOS))
    r = xyzpy.Runner(
        f3, ['x', 'y', 'z'], var_dims={'y': 't', 'z': ['t', 'w']},
        var_coords={'t': TVALS, 'w': WVALS}, constants={'k': 1},
        resources={'big': [7]}, attrs={'tag': 'r'}, verbosity=0)
    ok(r.fn_args == ('a', 'b', 'k', 'big', 't'))
    ok(r.var_dims == {'x': (), 'y': ('t',), 'z': ('t', 'w')})

    ds = r.run_combos(COMBOS)
    ok(r.last_ds is ds)
    check_f3_ds(ds, pts, k=1, big=[7])
    ok(ds.attrs == {'tag': 'r', 'k': 1})
    ok('big' not in ds.attrs and 'big' not in ds.coords)

    # constants of the run override the stored ones, for that run only
    ds = r.run_combos(COMBOS, constants={'k': 5})
    check_f3_ds(ds, pts, k=5, big=[7])
    ok(ds.attrs == {'tag': 'r', 'k': 5})
    ok(r.constants == {'k': 1})
    ds = r.run_combos([('b', [2, 1]), ('a', [1])], constants=[('k', 3)],
                      shuffle=True)
    check_f3_ds(ds, [dict(a=1, b=2), dict(a=1, b=1)], k=3, big=[7],
                order=('b', 'a'))
    ok(list(ds['b'].values) == [2, 1])

    # settings of the run override the default ones
    ds = r.run_combos(COMBOS, executor=pool, shuffle=3, verbosity=0)
    check_f3_ds(ds, pts, k=1, big=[7])

    # cases: dicts, tuples with stored fn_args, tuples with given fn_args
    ds = r.run_cases(CASES)
    ok(r.last_ds is ds)
    done = {(c['a'], c['b']) for c in CASES}
    missing = [dict(a=a, b=b) for a in (1, 2, 3) for b in (10, 30)
               if (a, b) not in done]
    check_f3_ds(ds, CASES, missing=missing, k=1, big=[7])
    ok(ds.attrs == {'tag': 'r', 'k': 1})
    ds = r.run_cases([(3, 10), (1, 30)], constants={'k': 2}, shuffle=True)
    check_f3_ds(ds, [dict(a=3, b=10), dict(a=1, b=30)],
                missing=[dict(a=3, b=30), dict(a=1, b=10)], k=2, big=[7])
    ds = r.run_cases([(10, 3), (30, 1)], fn_args=('b', 'a'),
                     executor=pool)
    check_f3_ds(ds, [dict(a=3, b=10), dict(a=1, b=30)],
                missing=[dict(a=3, b=30)], k=1, big=[7], order=('b', 'a'))
    ds = r.run_cases([{'a': 4}, {'a': 2}], combos=(('b', [2, 1]),))
    ok(list(ds['a'].values) == [2, 4] and list(ds['b'].values) == [2, 1])
    check_f3_ds(ds, [dict(a=a, b=b) for a in (2, 4) for b in (1, 2)],
                k=1, big=[7])

    # to_df through the runner
    r0 = xyzpy.Runner(f0, 'o', constants={'k': 1}, resources={'big': [1, 2]},
                      attrs={'tag': 'r0'})
    df = r0.run_combos(COMBOS, to_df=True, verbosity=0, shuffle=True)
    ok(list(df.columns) == ['a', 'b', 'k', 'tag', 'o'])
    for i, pt in enumerate(pts):
        ok(df.iloc[i]['o'] == f0(**pt, k=1, big=[1, 2]))
        ok((df.iloc[i]['a'], df.iloc[i]['b']) == (pt['a'], pt['b']))
    df = r0.run_cases([(1, 2), (5, 3)], fn_args=['a', 'b'], to_df=True,
                      verbosity=0)
    ok(list(df['o']) == [f0(1, 2, 1, [1, 2]), f0(5, 3, 1, [1, 2])])

    # keywords that clash with what the runner itself passes on
    for bad in ('fn', 'var_names', 'var_dims', 'parse', 'resources'):
        last = r0.last_ds
        raises(TypeError, lambda: r0.run_combos(COMBOS, **{bad: None}),
               match="multiple values for keyword argument '%s'" % bad)
        ok(r0.last_ds is last)
    for bad in ('fn', 'var_coords', 'resources', 'attrs', 'parse'):
        raises(TypeError, lambda: r0.run_cases([(1, 2)], **{bad: None}),
               match="multiple values for keyword argument '%s'" % bad)
    raises(TypeError, r0.run_combos, COMBOS, nonsense=1)
    rbad = xyzpy.Runner(f0, 'o', var_dims=None, parse=True)
    raises(TypeError, rbad.run_combos, COMBOS,
           match="multiple values for keyword argument 'parse'")
    # invalid inputs are rejected before anything runs
    raises(xyzpy.utils.XYZError, r0.run_combos, {'a': [1, 1]}, verbosity=0)
    raises(TypeError, r0.run_cases, [(1, 2)], constants=5, verbosity=0)
    raises(TypeError, r0.run_combos, COMBOS, constants=5, verbosity=0)

    # label -> Runner
    @xyzpy.label(var_names=('y', 'z', 'x'), var_dims=['t', ('t', 'w'), ()],
                 var_coords={'t': TVALS, 'w': WVALS}, verbosity=0)
    def lab(a, b, k=0):
        return f3b(a, b, k)

    ok(isinstance(lab, xyzpy.Runner) and lab.__name__ == 'lab')
    ok(lab(1, 2)[2] == f3(1, 2)[0])
    check_f3_ds(lab.run_combos(COMBOS, constants={'k': 4}), pts, k=4)

    # label -> Harvester with / without a file
    h5 = os.path.join(tmp, 'harvest.h5')

    @xyzpy.label(var_names=['s', 'd'], harvester=h5, verbosity=0)
    def hv(a, b):
        return a + b, a - b

    ok(isinstance(hv, xyzpy.Harvester) and hv.data_name == h5)
    ok(hv.engine == 'h5netcdf' and hv.__name__ == 'hv')
    hv.harvest_combos({'a': [1, 2], 'b': [3]})
    hv.harvest_cases([{'a': 5, 'b': 4}])
    ok(os.path.exists(h5))
    with xr.open_dataset(h5, engine='h5netcdf') as on_disk:
        ok(on_disk['s'].sel(a=5, b=4).item() == 9)
        ok(on_disk['d'].sel(a=2, b=3).item() == -1)
        ok(np.isnan(on_disk['s'].sel(a=5, b=3).item()))
    hv.full_ds.close()

    @xyzpy.label(var_names=['s', 'd'], harvester=True, verbosity=0)
    def hv2(a, b):
        return a + b, a - b

    ok(isinstance(hv2, xyzpy.Harvester) and hv2.data_name is None)
    hv2.harvest_combos({'a': [1, 2], 'b': [3]}, sync=False)
    ok(hv2.full_ds['s'].sel(a=2, b=3).item() == 5)

    # label -> Sampler with / without a file
    pkl = os.path.join(tmp, 'samples.pkl')

    @xyzpy.label(var_names=['s', 'd'], sampler=pkl, verbosity=0)
    def sm(a, b):
        return a + b, a - b

    ok(isinstance(sm, xyzpy.Sampler) and sm.data_name == pkl)
    ok(sm.engine == 'pickle')
    df = sm.sample_combos(6, {'a': [1, 2, 3], 'b': [10, 20]})
    ok(len(df) == 6 and os.path.exists(pkl))
    ok(all(df['s'] == df['a'] + df['b']) and all(df['d'] == df['a'] - df['b']))
    sm.sample_combos(3, {'a': [1, 2, 3], 'b': [10, 20]}, shuffle=True)
    on_disk = pd.read_pickle(pkl)
    ok(len(on_disk) == 9)
    ok(all(on_disk['s'] == on_disk['a'] + on_disk['b']))
    ok(sorted(os.listdir(tmp)) == ['harvest.h5', 'samples.pkl'],
       os.listdir(tmp))

    @xyzpy.label(var_names=['s', 'd'], sampler=True, engine='csv',
                 verbosity=0)
    def sm2(a, b):
        return a + b, a - b

    ok(isinstance(sm2, xyzpy.Sampler) and sm2.data_name is None)
    ok(sm2.engine == 'csv')
    df = sm2.sample_combos(4, {'a': [1, 2, 3], 'b': [10, 20]})
    ok(len(sm2.full_df) == 4 and all(df['d'] == df['a'] - df['b']))

    raises(ValueError, xyzpy.label, 'o', harvester=True, sampler=True,
           match='both a harvester and a sampler')


def main():
    tmp = tempfile.mkdtemp(prefix='c03_t7_')
    pool = ThreadPoolExecutor(2)
    try:
        with warnings.catch_warnings():
            warnings.simplefilter('ignore')
            check_parsers()
            check_spellings(pool)
            check_runner(pool, tmp)
    finally:
        pool.shutdown()
        shutil.rmtree(tmp, ignore_errors=True)
    print('checks:', CHECKS[0])
    print('PASS')


if __name__ == '__main__':
    main()
