"""Demo for the C03 helper-extraction twin (t8).

Run as:  cd <worktree> && /venv/bin/python /tmp/r5/C03.out/t8/demo.py

Checks the labelling behaviour of combo_runner_core / results_to_ds /
results_to_df / combo_runner_to_ds / case_runner_to_ds / Runner / label on
the unmodified tree and on the refactored tree alike.  Prints PASS, exit 0.
"""
import os
import sys

sys.path.insert(0, os.getcwd())

import itertools  # noqa: E402
import random  # noqa: E402
import shutil  # noqa: E402
import tempfile  # noqa: E402
import warnings  # noqa: E402

import numpy as np  # noqa: E402
import xarray as xr  # noqa: E402

import xyzpy  # noqa: E402
from xyzpy.gen import combo_runner as cr  # noqa: E402
from xyzpy.gen.combo_runner import (  # noqa: E402
    combo_runner,
    combo_runner_core,
    combo_runner_to_ds,
    combo_runner_to_df,
    results_to_ds,
    results_to_df,
)
from xyzpy.gen.case_runner import (  # noqa: E402
    case_runner,
    case_runner_to_ds,
    case_runner_to_df,
)

assert os.path.abspath(xyzpy.__file__).startswith(os.getcwd()), xyzpy.__file__

FAILURES = []


def check(cond, msg):
    if not cond:
        FAILURES.append(msg)


# ------------------------------------------------------------------ functions

def f_scalar(a, b, c=0):
    return 100 * a + 10 * b + c


def f_multi(a, b, c=0, res=None, k=None):
    """scalar, 1-d (time) and 2-d (time, k) outputs"""
    base = 100 * a + 10 * b + c
    t = base + np.arange(3)
    m = base + np.arange(6).reshape(3, 2) / 10
    return base, t, m


def f_text(a, b):
    return "{}|{}".format(a, b), a > b


def f_xobj(a, b, kind="ds"):
    val = 100 * a + 10 * b
    if kind == "ds":
        return xr.Dataset(
            {"u": ("t", val + np.arange(2)), "w": val},
            coords={"t": [0.5, 1.5]},
        )
    if kind == "da":
        return xr.DataArray(val + np.arange(2), dims=["t"],
                            coords={"t": [0.5, 1.5]}, name="u")
    return {"u": ("t", val + np.arange(2)), "w": val}


CALLS = []


def f_logged(a, b, c=0):
    CALLS.append((a, b))
    return 100 * a + 10 * b + c


# ------------------------------------------------------------------- 1. grids

def test_grids():
    combos = {"a": [3, 1, 2], "b": [20, 10]}  # order given must be kept
    for shuffle in (False, True, 7):
        ds = combo_runner_to_ds(
            f_multi, combos, ["s", "t", "m"],
            var_dims={"t": "time", "m": ["time", "k"]},
            var_coords={"time": [0.0, 0.5, 1.0]},
            constants={"c": 5, "k": [7, 8]},
            resources={"res": object()},
            attrs={"note": "hello"},
            shuffle=shuffle, verbosity=0,
        )
        tag = "grid shuffle={}".format(shuffle)
        check(ds["a"].values.tolist() == [3, 1, 2], tag + ": coord a")
        check(ds["b"].values.tolist() == [20, 10], tag + ": coord b")
        check(ds["s"].dims == ("a", "b"), tag + ": dims s")
        check(ds["t"].dims == ("a", "b", "time"), tag + ": dims t")
        check(ds["m"].dims == ("a", "b", "time", "k"), tag + ": dims m")
        check(ds["time"].values.tolist() == [0.0, 0.5, 1.0], tag + ": time")
        # constant naming a dimension -> coordinate, else attribute
        check(ds["k"].values.tolist() == [7, 8], tag + ": k coord")
        check("k" not in ds.attrs, tag + ": k not attr")
        check(ds.attrs.get("c") == 5, tag + ": c attr")
        check(ds.attrs.get("note") == "hello", tag + ": extra attr kept")
        check("res" not in ds.attrs and "res" not in ds.coords
              and "res" not in ds, tag + ": resource not recorded")
        check(list(ds.attrs) == ["note", "c"], tag + ": attrs order")
        for a, b in itertools.product(*combos.values()):
            s, t, m = f_multi(a, b, c=5)
            pt = ds.sel(a=a, b=b)
            check(pt["s"].item() == s, tag + ": s at {}".format((a, b)))
            check(np.array_equal(pt["t"].values, t), tag + ": t value")
            check(np.array_equal(pt["m"].values, m), tag + ": m value")

    # every spelling of var_names / var_dims for one output
    for vn, vd in [("x", None), (("x",), ()), (["x"], {}), ("x", {"x": ()})]:
        ds = combo_runner_to_ds(f_scalar, ("a", (1, 2)), vn, var_dims=vd,
                                constants={"b": 3}, verbosity=0)
        check(ds["x"].dims == ("a",), "spelling dims")
        check(ds["x"].values.tolist() == [130, 230], "spelling values")
        check(ds.attrs == {"b": 3}, "spelling attrs")
    ds = combo_runner_to_ds(
        lambda a: a + np.arange(2), [("a", [1, 2])], "x", var_dims="q",
        verbosity=0)
    check(ds["x"].dims == ("a", "q"), "str var_dims")
    ds = combo_runner_to_ds(
        lambda a: (a + np.arange(2), a + np.zeros((3, 2))), {"a": [1, 5]},
        ["p", "q"], var_dims=["i", ["j", "i"]], verbosity=0)
    check(ds["p"].dims == ("a", "i") and ds["q"].dims == ("a", "j", "i"),
          "list var_dims")
    check(ds["p"].sel(a=5).values.tolist() == [5, 6], "list var_dims value")
    ds = combo_runner_to_ds(
        f_multi, {"a": [1], "b": [2]}, ["s", "t", "m"],
        var_dims={("t",): "time", "m": ("time", "k")}, verbosity=0)
    check(ds["t"].dims == ("a", "b", "time"), "tuple-key var_dims")

    # strings and bools
    ds = combo_runner_to_ds(f_text, {"a": [1, 2], "b": [2, 1]},
                            ["txt", "gt"], verbosity=0)
    check(ds["txt"].sel(a=2, b=1).item() == "2|1", "text value")
    check(bool(ds["gt"].sel(a=2, b=1).item()) is True, "bool value")

    # wrong number of results
    try:
        combo_runner_to_ds(f_multi, {"a": [1], "b": [2]}, ["s", "t"],
                           verbosity=0)
    except ValueError as e:
        check("Wrong number of results" in str(e), "wrong number msg")
    else:
        check(False, "wrong number of results not raised")


# ------------------------------------------------------------------- 2. cases

def test_cases():
    cases = [{"a": 8, "b": 0.5}, {"a": 1, "b": 0.25}, {"a": 16, "b": 0.5},
             {"a": -3, "b": 4.0}]
    for shuffle in (False, True, 3):
        ds = case_runner_to_ds(
            f_multi, None, cases, ["s", "t", "m"],
            var_dims={"t": "time", "m": ["time", "k"]},
            combos={"c": [2, 1]}, shuffle=shuffle, verbosity=0,
        )
        tag = "cases shuffle={}".format(shuffle)
        check(ds["a"].values.tolist() == [-3, 1, 8, 16], tag + ": sorted a")
        check(ds["b"].values.tolist() == [0.25, 0.5, 4.0], tag + ": sorted b")
        check(ds["c"].values.tolist() == [2, 1], tag + ": combo order c")
        check(ds["s"].dims == ("a", "b", "c"), tag + ": dims")
        check(ds["m"].dims == ("a", "b", "c", "time", "k"), tag + ": dims m")
        ran = {(c["a"], c["b"]) for c in cases}
        for a in [-3, 1, 8, 16]:
            for b in [0.25, 0.5, 4.0]:
                for c in [2, 1]:
                    pt = ds.sel(a=a, b=b, c=c)
                    if (a, b) in ran:
                        s, t, m = f_multi(a, b, c)
                        check(pt["s"].item() == s, tag + ": s value")
                        check(np.array_equal(pt["t"].values, t), tag + ": t")
                        check(np.array_equal(pt["m"].values, m), tag + ": m")
                    else:
                        check(bool(pt["s"].isnull()), tag + ": s missing")
                        check(bool(pt["t"].isnull().all()), tag + ": t miss")
                        check(bool(pt["m"].isnull().all()), tag + ": m miss")

    # tuples + fn_args, text outputs (missing -> None)
    ds = case_runner_to_ds(f_text, ("a", "b"), [(2, 1), (1, 2)],
                           ["txt", "gt"], verbosity=0)
    check(ds["txt"].sel(a=2, b=1).item() == "2|1", "case text")
    check(bool(ds["txt"].sel(a=1, b=1).isnull()), "case text missing")
    check(ds["txt"].dtype == object, "case text dtype")
    check(ds["gt"].sel(a=2, b=2).item() is None, "case bool missing")

    # unsortable union keeps going (order unspecified, content exact)
    info = {}
    combo_runner_core(
        lambda a, b: (a, b), (), {},
        cases=[{"a": 1, "b": 5}, {"a": "z", "b": 4}, {"a": None, "b": 4}],
        verbosity=0, info=info)
    check(info["fn_args"] == ("a", "b"), "info fn_args")
    acoo, bcoo = info["all_combo_values"]
    check(isinstance(acoo, list) and set(acoo) == {1, "z", None}
          and len(acoo) == 3, "unsortable union")
    check(bcoo == [4, 5], "sortable union next to an unsortable one")

    # overlapping names rejected
    try:
        combo_runner_core(f_scalar, (("a", [1]),), {}, cases=[{"a": 1}],
                          verbosity=0)
    except ValueError as e:
        check("both" in str(e), "overlap msg")
    else:
        check(False, "overlap not raised")


# ------------------------------------------------- 3. raw core, order, shuffle

def test_core_and_shuffle():
    combos = (("a", [1, 2, 3]), ("b", [1, 2, 3, 4]))
    plain = combo_runner(f_scalar, combos, verbosity=0)
    expect = tuple(tuple(f_scalar(a, b) for b in combos[1][1])
                   for a in combos[0][1])
    check(plain == expect, "plain nested")
    for seed in (True, 2, 5):
        del CALLS[:]
        random.seed(999)
        got = combo_runner(f_logged, combos, shuffle=seed, verbosity=0)
        after = random.random()
        check(got == expect, "shuffled nested result seed={}".format(seed))
        # the evaluation order is the seeded shuffle of the grid
        ref = list(enumerate(itertools.product(*[v for _, v in combos])))
        random.seed(int(seed))
        random.shuffle(ref)
        check(CALLS == [loc for _, loc in ref],
              "evaluation order seed={}".format(seed))
        # global random state afterwards: seed + one shuffle of 12 items
        random.seed(int(seed))
        tmp = list(range(12))
        random.shuffle(tmp)
        check(after == random.random(), "random state after seed={}"
              .format(seed))

    # split + flat + info
    info = {}
    flat = combo_runner_core(f_multi, combos, {"c": 1}, flat=True,
                             shuffle=4, verbosity=0, info=info)
    check(isinstance(flat, tuple) and len(flat) == 12, "flat length")
    check(list(info) == ["settings"], "flat info keys")
    for kws, res in zip(info["settings"], flat):
        check(list(kws) == ["a", "b", "c"], "setting key order")
        check(res[0] == f_multi(**kws)[0], "flat pairs with setting")
    s, t, m = combo_runner_core(f_multi, combos, {"c": 1}, split=True,
                                verbosity=0)
    check(np.asarray(s).shape == (3, 4) and np.asarray(t).shape == (3, 4, 3)
          and np.asarray(m).shape == (3, 4, 3, 2), "split shapes")

    # shuffling nothing fails the same way it always did
    try:
        combo_runner(f_scalar, {"a": []}, shuffle=True, verbosity=0)
    except ValueError:
        pass
    else:
        check(False, "empty shuffle should raise ValueError")

    # case_runner (flat) with shuffle
    out = case_runner(f_scalar, ("a", "b"), [(1, 2), (3, 4), (5, 6)],
                      shuffle=True, verbosity=0)
    check(tuple(out) == (120, 340, 560), "case_runner flat order")


# -------------------------------------------------------------- 4. dataframes

def test_dataframes():
    combos = {"a": [3, 1, 2], "b": [20, 10]}
    for shuffle in (False, True, 6):
        df = combo_runner_to_df(
            f_text, combos, ["txt", "gt"], shuffle=shuffle,
            attrs={"note": "hi"}, verbosity=0)
        tag = "df shuffle={}".format(shuffle)
        check(df.columns.tolist() == ["a", "b", "note", "txt", "gt"],
              tag + ": columns")
        check(len(df) == 6, tag + ": rows")
        check(list(zip(df.a, df.b)) ==
              list(itertools.product(*combos.values())), tag + ": row order")
        for _, row in df.iterrows():
            check(row["txt"] == "{}|{}".format(row["a"], row["b"]),
                  tag + ": row pairing")
            check(row["gt"] == (row["a"] > row["b"]), tag + ": row pairing 2")
            check(row["note"] == "hi", tag + ": attr on each row")

    df = case_runner_to_df(
        f_multi, ("a", "b"), [(5, 1), (4, 2), (3, 3)], "out",
        constants={"c": 9}, resources={"res": [1, 2, 3]}, shuffle=2,
        verbosity=0)
    check(df.columns.tolist() == ["a", "b", "c", "out"], "df2 columns")
    check("res" not in df.columns, "resources not in df")
    for _, row in df.iterrows():
        # a single output variable is the result itself (here a 3-tuple)
        check(row["out"][0] == f_multi(row["a"], row["b"], row["c"])[0],
              "df2 single var holds whole result")

    # several var_names but a non-iterable result -> first name gets it
    df = combo_runner_to_df(f_scalar, {"a": [1, 2]}, ["p", "q"],
                            constants={"b": 1}, verbosity=0)
    check(df["p"].tolist() == [110, 210] and "q" not in df.columns,
          "non-iterable result fallback")

    # unsupported options
    for kw in ({"var_names": None}, {"var_dims": {"x": ["t"]}},
               {"var_coords": {"t": [1]}}):
        opts = {"var_names": "x", **kw}
        try:
            combo_runner_to_df(f_scalar, {"a": [1]}, **opts, verbosity=0)
        except ValueError:
            pass
        else:
            check(False, "to_df should reject {}".format(kw))

    # direct use with explicit arguments
    settings = [{"a": 1, "r": "big"}, {"a": 2, "r": "big"}]
    df = results_to_df([(1, 2), (3, 4)], settings, {"at": 0}, {"r": None},
                       ("x", "y"))
    check(df.to_dict("list") ==
          {"a": [1, 2], "at": [0, 0], "x": [1, 3], "y": [2, 4]},
          "results_to_df direct")


# ------------------------------------------------------- 5. labelled results

def test_xobj():
    combos = {"a": [2, 1], "b": [1, 2, 3]}
    for kind in ("ds", "da", "dict"):
        ds = combo_runner_to_ds(
            f_xobj, combos, None, constants={"kind": kind},
            attrs={"who": "me"}, shuffle=(kind == "da"), verbosity=0)
        tag = "xobj " + kind
        check(ds["a"].values.tolist() == [2, 1], tag + ": coord a")
        check(ds["b"].values.tolist() == [1, 2, 3], tag + ": coord b")
        check(ds.attrs == {"who": "me", "kind": kind}, tag + ": attrs")
        arr = ds["u"] if "u" in ds else ds
        check(tuple(arr.dims) == ("a", "b", "t"), tag + ": dims")
        for a, b in itertools.product(*combos.values()):
            check(arr.sel(a=a, b=b).values.tolist() ==
                  [100 * a + 10 * b, 100 * a + 10 * b + 1], tag + ": value")
    ds = case_runner_to_ds(f_xobj, ("a", "b"), [(9, 1), (1, 2)], None,
                           verbosity=0)
    check(ds["a"].values.tolist() == [1, 9], "xobj cases coord")
    check(ds["w"].sel(a=9, b=1).item() == 910, "xobj cases value")
    check(bool(ds["w"].sel(a=9, b=2).isnull()), "xobj cases missing")

    # direct: constants over an existing dimension, odd constants
    res = ((1, 2), (3, 4))
    ds = results_to_ds(res, (("a", [1, 2]),), ("x",), {"x": ("k",)}, {},
                       constants={"k": [5, 6], "z": None, "a_": "s"},
                       attrs={})
    check(ds["k"].values.tolist() == [5, 6] and ds.attrs ==
          {"z": None, "a_": "s"}, "results_to_ds direct")
    ds = results_to_ds(res, (("a", [1, 2]),), ("x",), {"x": ("k",)}, {})
    check(ds.attrs == {} and "k" not in ds.coords, "no constants at all")


# ------------------------------------------------------- 6. Runner and label

def test_runner():
    r = xyzpy.Runner(
        f_multi, ["s", "t", "m"], fn_args=("a", "b"),
        var_dims={"t": ["time"], "m": ["time", "k"]},
        var_coords={"time": [1, 2, 3]},
        constants={"c": 1, "k": [0, 1]}, resources={"res": "R"},
        attrs={"fruit": "apple"}, verbosity=0, shuffle=True,
    )
    ds = r.run_combos({"a": [2, 1], "b": [3]})
    check(ds.attrs == {"fruit": "apple", "c": 1}, "runner attrs")
    check(ds["k"].values.tolist() == [0, 1], "runner const coord")
    check(ds["s"].sel(a=2, b=3).item() == 231, "runner value")
    # per-run constant overrides for this run only; settings overridable
    ds = r.run_combos({"a": [2, 1], "b": [3]}, constants={"c": 7},
                      shuffle=False)
    check(ds.attrs["c"] == 7 and ds["s"].sel(a=2, b=3).item() == 237,
          "per-run constant")
    check(r.constants == {"c": 1, "k": [0, 1]}, "stored constants untouched")
    check(r.default_runner_settings == {"verbosity": 0, "shuffle": True},
          "stored settings untouched")
    ds = r.run_cases([(4, 1), (2, 2)], constants=[("c", 3)])
    check(ds.attrs["c"] == 3, "run_cases per-run constant (pairs)")
    check(ds["a"].values.tolist() == [2, 4], "run_cases coord")
    check(ds["s"].sel(a=4, b=1).item() == 413, "run_cases value")
    check(bool(ds["s"].sel(a=4, b=2).isnull()), "run_cases missing")
    check(r.last_ds is ds, "last_ds")
    ds = r.run_cases([{"b": 1, "a": 4}])
    check(ds.attrs["c"] == 1 and ds["s"].sel(a=4, b=1).item() == 411,
          "run_cases afterwards uses stored constant")

    @xyzpy.label(var_names=["txt", "gt"], attrs={"v": 1}, verbosity=0)
    def lab(a, b):
        return f_text(a, b)

    df = lab.run_combos({"a": [1, 2], "b": [2, 1]}, to_df=True, shuffle=3)
    check(df.columns.tolist() == ["a", "b", "v", "txt", "gt"], "label df")
    check(all(r_["txt"] == "{}|{}".format(r_["a"], r_["b"])
              for _, r_ in df.iterrows()), "label df pairing")


# --------------------------------------------------------------- 7. parallel

def test_parallel():
    from concurrent.futures import ThreadPoolExecutor
    combos = {"a": [3, 1, 2], "b": [20, 10]}
    with ThreadPoolExecutor(2) as pool:
        ds = combo_runner_to_ds(f_scalar, combos, "x", executor=pool,
                                shuffle=True, verbosity=0)
        df = combo_runner_to_df(f_scalar, combos, "x", executor=pool,
                                shuffle=5, verbosity=0)
    for a, b in itertools.product(*combos.values()):
        check(ds["x"].sel(a=a, b=b).item() == f_scalar(a, b), "pool ds")
    check(df["x"].tolist() == [f_scalar(a, b) for a, b in zip(df.a, df.b)],
          "pool df pairing")
    ds = combo_runner_to_ds(f_scalar, combos, "x", parallel=2, shuffle=True,
                            verbosity=0)
    for a, b in itertools.product(*combos.values()):
        check(ds["x"].sel(a=a, b=b).item() == f_scalar(a, b), "loky ds")


def main():
    tmp = tempfile.mkdtemp(prefix="c03_t8_")
    cwd = os.getcwd()
    try:
        with warnings.catch_warnings():
            warnings.simplefilter("ignore")
            test_grids()
            test_cases()
            test_core_and_shuffle()
            test_dataframes()
            test_xobj()
            test_runner()
            test_parallel()
    finally:
        os.chdir(cwd)
        shutil.rmtree(tmp, ignore_errors=True)
        try:
            from joblib.externals.loky import get_reusable_executor
            get_reusable_executor().shutdown(wait=True)
        except Exception:
            pass

    if FAILURES:
        print("FAIL")
        for msg in FAILURES[:20]:
            print("  -", msg)
        return 1
    print("PASS")
    return 0


if __name__ == "__main__":
    sys.exit(main())
