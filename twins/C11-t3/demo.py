"""Demo 3 for property C11 (concurrent growers / waiting reaper / progress).

Run as:  cd <worktree> && /venv/bin/python /path/to/demo.py
Prints PASS and exits 0 when everything checks out.
"""
import os
import re
import sys
import time
import random
import shutil
import fnmatch
import tempfile
import threading
import traceback
import pickle as real_pickle

sys.path.insert(0, os.getcwd())

import xyzpy  # noqa: E402
from xyzpy.gen import cropping as C  # noqa: E402
from xyzpy.gen.cropping import Crop, XYZError  # noqa: E402

assert os.path.abspath(xyzpy.__file__).startswith(
    os.path.abspath(os.getcwd()) + os.sep
), "wrong xyzpy imported: {}".format(xyzpy.__file__)

# keep the progress bars of combo_runner_core out of the way
_devnull = open(os.devnull, "w")
sys.stderr = _devnull

RESULT_RGX = re.compile(r"^xyz-result-(\d+)\.jbdmp$")
FAILURES = []
NCHECKS = [0]


def check(cond, msg):
    NCHECKS[0] += 1
    if not cond:
        FAILURES.append(msg)
        print("FAIL:", msg)


def raises(exc_type, f, *args, **kwargs):
    try:
        f(*args, **kwargs)
    except exc_type:
        return True
    except BaseException as e:  # noqa
        print("unexpected exception", type(e), e)
        return False
    return False


# ----------------------- chunked, interruptible writes ---------------------- #

class ChunkedPickle:
    """Stand-in for the ``pickle`` module as seen by ``xyzpy.gen.cropping``:
    ``dump`` writes the data in several flushed chunks and calls a hook
    between them, so that other threads can observe (and the demo can freeze)
    the file-system state where a result is only partly written.
    """

    def __init__(self):
        self.hook = None
        self.nchunks = 4

    def dump(self, obj, file, *args, **kwargs):
        data = real_pickle.dumps(obj, *args, **kwargs)
        n = max(1, -(-len(data) // self.nchunks))
        pieces = [data[k:k + n] for k in range(0, len(data), n)]
        for j, piece in enumerate(pieces):
            file.write(piece)
            file.flush()
            hook = self.hook
            if hook is not None and j < len(pieces) - 1:
                hook(file.name, j)

    def load(self, file, *args, **kwargs):
        return real_pickle.load(file, *args, **kwargs)

    def __getattr__(self, name):
        return getattr(real_pickle, name)


SHIM = ChunkedPickle()
C.pickle = SHIM


def fn(a, b):
    # something with a bit of bulk, so that a partial write is really partial
    return (a * 100 + b, "x" * (50 + a), [float(b)] * 20)


def results_dir(crop):
    return os.path.join(crop.location, "results")


def result_file(crop, i):
    return os.path.join(results_dir(crop), C.RSLT_NM.format(i))


def expected_batch(crop, i):
    with open(
        os.path.join(crop.location, "batches", C.BTCH_NM.format(i)), "rb"
    ) as f:
        cases = real_pickle.load(f)
    return tuple(fn(**case) for case in cases)


def tmp_files(crop):
    return sorted(
        f for f in os.listdir(results_dir(crop)) if not RESULT_RGX.match(f)
    )


def fully_written_results(crop, expected):
    """The batch numbers that have a properly named result file - each of
    which must be completely loadable and hold the right results.
    """
    done = set()
    for f in os.listdir(results_dir(crop)):
        m = RESULT_RGX.match(f)
        if m:
            i = int(m.group(1))
            with open(os.path.join(results_dir(crop), f), "rb") as fh:
                res = real_pickle.load(fh)
            if res != expected[i]:
                raise AssertionError("batch {} has wrong results".format(i))
            done.add(i)
    return done


def new_crop(parent, name, combos, **kwargs):
    crop = Crop(fn=fn, name=name, parent_dir=parent, **kwargs)
    crop.sow_combos(combos)
    expected = {
        i: expected_batch(crop, i) for i in range(1, crop.num_batches + 1)
    }
    return crop, expected


def other_view(crop):
    """A separate Crop object, as another process would have."""
    return Crop(name=crop.name, parent_dir=crop.parent_dir)


def grow_batch(crop, i):
    C.grow(i, crop=other_view(crop), verbosity=0)


class Worker(threading.Thread):
    def __init__(self, target, *args):
        super().__init__(daemon=True)
        self._target_fn = target
        self._args_ = args
        self.result = None
        self.error = None

    def run(self):
        try:
            self.result = self._target_fn(*self._args_)
        except BaseException as e:  # noqa
            self.error = e
            self.tb = traceback.format_exc()


def poll_once(crop, expected):
    """One round of progress queries, checked against what is really fully
    written on disk. Results are never deleted here, so the set of finished
    batches only grows with time: anything reported finished must be fully
    readable immediately afterwards.
    """
    view = other_view(crop)
    n_results = view.num_results
    missing = view.missing_results()
    ready = view.is_ready_to_reap()
    done_after = fully_written_results(crop, expected)

    check(n_results <= len(done_after),
          "progress counted {} results but only {} are finished".format(
              n_results, len(done_after)))
    not_missing = set(range(1, view.num_batches + 1)) - set(missing)
    check(not_missing <= done_after,
          "batches {} reported as not missing but unfinished".format(
              not_missing - done_after))
    if ready:
        check(len(done_after) == view.num_batches,
              "reported ready to reap with unfinished batches")
        got = view.reap_combos(wait=False, clean_up=False)
        check(got == DIRECT[crop.name], "poller reap != direct results")
    return n_results, missing, ready


DIRECT = {}


def direct_run(crop, combos):
    DIRECT[crop.name] = xyzpy.combo_runner(fn, combos)
    return DIRECT[crop.name]


# ------------------------- frozen mid-write scenario ------------------------ #

def scenario_frozen_writer(parent, name, combos, num_batches, target, regrow):
    """Freeze a grower after it has written the first chunk of the result of
    batch ``target`` and look at what reapers and progress queries do.
    """
    crop, expected = new_crop(parent, name, combos, num_batches=num_batches)
    direct = direct_run(crop, combos)
    n = crop.num_batches

    SHIM.hook = None
    for i in range(1, n + 1):
        if regrow or i != target:
            grow_batch(crop, i)

    half, go = threading.Event(), threading.Event()

    def hook(fname, j):
        if "xyz-result-{}.".format(target) in os.path.basename(fname):
            if j == 0:
                half.set()
                go.wait(60)

    SHIM.hook = hook
    grower = Worker(grow_batch, crop, target)
    grower.start()
    check(half.wait(60), name + ": grower never started writing")

    # --- the result of ``target`` is now partly written ---
    tmps = tmp_files(crop)
    check(len(tmps) == 1, name + ": expected one temporary, got %r" % tmps)
    for t in tmps:
        check(t.startswith(C.RSLT_NM.format(target) + "."), name + ": " + t)
        check(not fnmatch.fnmatch(t, C.RSLT_NM.format("*")),
              name + ": temporary matches the result pattern: " + t)
        with open(os.path.join(results_dir(crop), t), "rb") as fh:
            check(raises(Exception, real_pickle.load, fh),
                  name + ": temporary is not actually partial")

    n_results, missing, ready = poll_once(crop, expected)
    if regrow:
        check(n_results == n, name + ": num_results %r" % n_results)
        check(missing == (), name + ": missing %r" % (missing,))
        check(ready, name + ": should be ready")
        # the old, complete, result is what gets used
        got = other_view(crop).reap_combos(wait=True, clean_up=False)
        check(got == direct, name + ": reap during regrow != direct")
        reaper = None
    else:
        check(n_results == n - 1, name + ": num_results %r" % n_results)
        check(missing == (target,), name + ": missing %r" % (missing,))
        check(not ready, name + ": should not be ready")
        check(raises(XYZError, other_view(crop).reap_combos, wait=False,
                     clean_up=False), name + ": reap(wait=False) no error")
        reaper = Worker(
            lambda: other_view(crop).reap_combos(wait=True, clean_up=False)
        )
        reaper.start()
        time.sleep(0.7)
        check(reaper.is_alive(), name + ": waiting reaper did not wait")
        check(reaper.error is None, name + ": reaper failed: %r" % reaper.error)
        poll_once(crop, expected)

    go.set()
    grower.join(60)
    check(grower.error is None, name + ": grower failed: %r" % grower.error)
    if reaper is not None:
        reaper.join(60)
        check(not reaper.is_alive(), name + ": reaper never finished")
        check(reaper.error is None, name + ": reaper failed: %r" % reaper.error)
        check(reaper.result == direct, name + ": waited reap != direct")
    SHIM.hook = None

    check(tmp_files(crop) == [], name + ": temporaries left over")
    n_results, missing, ready = poll_once(crop, expected)
    check((n_results, missing, ready) == (n, (), True), name + ": end state")
    got = other_view(crop).reap_combos(wait=False, clean_up=True)
    check(got == direct, name + ": final reap != direct")
    check(not os.path.exists(crop.location), name + ": not cleaned up")


# ----------------------------- random schedules ----------------------------- #

def scenario_random(parent, name, combos, num_batches, assignment, seed,
                    n_pollers=1, reap_first=True):
    """``assignment`` lists, per grower, the batches it grows in order. All
    growers, a waiting reaper and progress pollers run concurrently with
    seeded random pauses between the chunks of every result write.
    """
    crop, expected = new_crop(parent, name, combos, num_batches=num_batches)
    direct = direct_run(crop, combos)
    rng = random.Random(seed)
    lock = threading.Lock()

    def pause():
        with lock:
            t = rng.choice([0.0, 0.0, 0.01, 0.03, 0.08])
        time.sleep(t)

    def hook(fname, j):
        if "xyz-result-" in os.path.basename(fname):
            pause()

    SHIM.hook = hook

    def grower_fn(batches):
        for i in batches:
            pause()
            grow_batch(crop, i)

    stop = threading.Event()

    def poller_fn():
        k = 0
        while not stop.is_set():
            poll_once(crop, expected)
            k += 1
            time.sleep(0.005)
        return k

    def reaper_fn():
        return other_view(crop).reap_combos(wait=True, clean_up=False)

    reaper = Worker(reaper_fn)
    growers = [Worker(grower_fn, batches) for batches in assignment]
    pollers = [Worker(poller_fn) for _ in range(n_pollers)]

    first, second = ([reaper], growers) if reap_first else (growers, [reaper])
    for w in pollers + first:
        w.start()
    pause()
    for w in second:
        w.start()

    for w in growers + [reaper]:
        w.join(120)
        check(not w.is_alive(), name + ": worker hung")
    stop.set()
    for w in pollers:
        w.join(120)
    SHIM.hook = None

    for w in growers + pollers + [reaper]:
        check(w.error is None, name + ": worker failed: %r\n%s" % (
            w.error, getattr(w, "tb", "")))
    check(reaper.result == direct, name + ": waited reap != direct results")
    check(all(p.result and p.result > 0 for p in pollers),
          name + ": pollers did not run")
    check(tmp_files(crop) == [], name + ": temporaries left over")
    view = other_view(crop)
    check(view.num_results == crop.num_batches, name + ": final num_results")
    check(view.missing_results() == (), name + ": final missing")
    check(view.reap_combos(clean_up=True) == direct, name + ": final reap")


COMBOS_SMALL = [("a", [1, 2, 3]), ("b", [10, 20])]      # 6 cases
COMBOS_ODD = [("a", [1, 2, 3, 4, 5]), ("b", [7])]       # 5 cases
COMBOS_ONE = [("a", [4]), ("b", [1, 2])]                # 2 cases


def run_crop_scenarios(parent, seeds=(0, 1)):
    k = 0
    for num_batches, target, regrow in [
        (1, 1, False), (1, 1, True), (2, 1, False), (2, 2, True),
        (3, 2, False), (3, 3, False), (3, 1, True),
    ]:
        k += 1
        scenario_frozen_writer(
            parent, "frozen{}".format(k),
            COMBOS_ODD if num_batches == 3 else COMBOS_SMALL,
            num_batches, target, regrow,
        )

    for seed in seeds:
        for num_batches, combos, assignment in [
            (1, COMBOS_ONE, [[1]]),
            (1, COMBOS_SMALL, [[1], [1]]),
            (2, COMBOS_SMALL, [[1], [2]]),
            (2, COMBOS_ODD, [[2, 1], [1, 2]]),
            (3, COMBOS_ODD, [[1], [2], [3]]),
            (3, COMBOS_SMALL, [[3, 1], [2], [1, 3]]),
            (3, COMBOS_ODD, [[3, 2, 1]]),
        ]:
            k += 1
            scenario_random(
                parent, "random{}".format(k), combos, num_batches,
                assignment, seed=1000 * seed + k,
                n_pollers=1 + (k % 2), reap_first=bool((k + seed) % 2),
            )


def finish(parent):
    shutil.rmtree(parent, ignore_errors=True)
    if FAILURES:
        print("{} of {} checks FAILED".format(len(FAILURES), NCHECKS[0]))
        sys.exit(1)
    print("{} checks ok".format(NCHECKS[0]))
    print("PASS")
    sys.exit(0)


# =========================================================================== #
#      specific to this demo: the progress queries of a Crop themselves       #
# =========================================================================== #

def progress(crop):
    """All the progress queries, from a fresh view of the crop."""
    view = other_view(crop)
    return (
        view.num_sown_batches,
        view.num_results,
        view.missing_results(),
        view.is_ready_to_reap(),
    )


def unit_progress(parent):
    SHIM.hook = None

    # a crop that is not on disk yet
    crop = Crop(fn=fn, name="nothing", parent_dir=parent)
    check(not crop.is_prepared(), "unprepared: is_prepared")
    check(crop.num_sown_batches == -1 and crop.num_results == -1,
          "unprepared: counts")
    check(not crop.is_ready_to_reap(), "unprepared: ready")
    crop.calc_progress()
    check((crop._num_sown_batches, crop._num_results) == (-1, -1),
          "unprepared: calc_progress")

    for combos, kwargs in [
        (COMBOS_SMALL, dict(num_batches=1)),
        (COMBOS_SMALL, dict(num_batches=3)),
        (COMBOS_ODD, dict(num_batches=2)),
        (COMBOS_ODD, dict(num_batches=3)),
        (COMBOS_ODD, dict(batchsize=2)),
        (COMBOS_ONE, dict(batchsize=1)),
    ]:
        name = "prog{}-{}".format(
            len(combos[0][1]),
            "-".join("{}{}".format(k, v) for k, v in kwargs.items()))
        crop, expected = new_crop(parent, name, combos, **kwargs)
        direct = direct_run(crop, combos)
        n = crop.num_batches
        everything = tuple(range(1, n + 1))
        rdir = results_dir(crop)

        check(progress(crop) == (n, 0, everything, False), name + ": start")
        check(crop.num_sown_batches == n and crop.num_results == 0,
              name + ": start, sowing crop")
        check(isinstance(str(crop), str), name + ": str")

        # things in the results directory that are not finished results
        pid = os.getpid()
        strays = [
            C.RSLT_NM.format(1) + ".{}-{}.tmp".format(pid, "ab" * 16),
            C.RSLT_NM.format(n) + ".{}-{}.tmp".format(pid + 1, "cd" * 16),
            C.RSLT_NM.format(1) + ".tmp",
            "tmp-" + C.RSLT_NM.format(1),
            "notes.txt",
        ]
        for s in strays:
            with open(os.path.join(rdir, s), "wb") as fh:
                fh.write(real_pickle.dumps(expected[1])[:7])
        check(progress(crop) == (n, 0, everything, False),
              name + ": partial temporaries counted")
        check(raises(XYZError, other_view(crop).reap_combos),
              name + ": reaped with only temporaries")

        # same in the batches directory
        bstray = os.path.join(crop.location, "batches",
                              C.BTCH_NM.format(n + 1) + ".1-ff.tmp")
        with open(bstray, "wb") as fh:
            fh.write(b"\x80")
        check(progress(crop)[0] == n, name + ": batch temporary counted")

        # grow in some order, check after each one
        order = list(everything)
        random.Random(n).shuffle(order)
        done = set()
        for i in order:
            grow_batch(crop, i)
            done.add(i)
            want = (
                n, len(done),
                tuple(x for x in everything if x not in done),
                len(done) == n,
            )
            check(progress(crop) == want, name + ": after %r: %r" % (
                sorted(done), progress(crop)))
            # growing again changes nothing
            if i == order[0]:
                grow_batch(crop, i)
                check(progress(crop) == want, name + ": after regrow")
            view = other_view(crop)
            check(set(view.missing_results()) | done == set(everything),
                  name + ": missing/done do not partition")
            if len(done) < n:
                check(raises(XYZError, view.reap_combos), name + ": early")

        # one object polled repeatedly sees the same as fresh ones
        view = other_view(crop)
        os.remove(result_file(crop, order[-1]))
        check(view.num_results == n - 1, name + ": removal not seen")
        check(view.missing_results() == (order[-1],), name + ": removal")
        check(not view.is_ready_to_reap(), name + ": ready after removal")
        view.grow_missing()
        check(view.num_results == n and view.missing_results() == ()
              and view.is_ready_to_reap(), name + ": grow_missing")

        # a directory named like a result: listed, but not a file
        if n > 1:
            os.remove(result_file(crop, n))
            os.mkdir(result_file(crop, n))
            check(progress(crop) == (n, n, (n,), True), name + ": directory")
            os.rmdir(result_file(crop, n))
            grow_batch(crop, n)

        for s in strays:
            os.remove(os.path.join(rdir, s))
        os.remove(bstray)
        check(other_view(crop).reap_combos() == direct, name + ": reap")
        check(not os.path.exists(crop.location), name + ": cleaned")
        view = other_view(crop)
        check((view.num_sown_batches, view.num_results) == (-1, -1)
              and not view.is_ready_to_reap(), name + ": after clean up")


def main():
    parent = tempfile.mkdtemp(prefix="xyz-c11-t3-")
    try:
        unit_progress(parent)
        run_crop_scenarios(parent, seeds=(0, 1, 2))
    except BaseException:  # noqa
        FAILURES.append("exception")
        print(traceback.format_exc())
    finish(parent)


if __name__ == "__main__":
    main()
