"""Demo / regression check for C05 (refactoring 1: the overwrite-policy merge
in ``Harvester.add_ds``).

Run as:  cd <worktree> && /venv/bin/python /path/to/demo.py

A tiny reference model (python dicts) of "memory" and "disk" is kept next to
real Harvester objects while random sequences of harvests are performed; after
every step the in-memory full dataset and the on-disk dataset are compared
with the model, point by point.
"""
import os
import sys

sys.path.insert(0, os.getcwd())

import copy
import itertools
import math
import random
import shutil
import tempfile
import warnings

warnings.simplefilter("ignore")

import numpy as np
import xarray as xr

import xyzpy as xyz
from xyzpy.manage import auto_add_extension

assert os.path.abspath(xyz.__file__).startswith(os.getcwd()), xyz.__file__

MergeError = xr.MergeError

OFFSET = [0.0]


def fn(a, b):
    return float(10 * a + b) + OFFSET[0]


RUNNER_KW = dict(verbosity=0)


# ------------------------------ the model --------------------------------- #

class Conflict(Exception):
    pass


class M:
    """Model of a dataset: values at points + coordinate sets."""

    def __init__(self, vals, A, B):
        self.vals = dict(vals)
        self.A = set(A)
        self.B = set(B)

    def copy(self):
        return M(self.vals, self.A, self.B)


def policy(old, new, overwrite):
    if old is None:
        return new.copy()
    if overwrite is True:
        vals = {**old.vals, **new.vals}
    elif overwrite is False:
        vals = {**new.vals, **old.vals}
    else:
        for k, v in new.vals.items():
            if k in old.vals and old.vals[k] != v:
                raise Conflict(k)
        vals = {**old.vals, **new.vals}
    return M(vals, old.A | new.A, old.B | new.B)


def check_ds(ds, m, what):
    if m is None:
        assert ds is None, (what, ds)
        return
    assert ds is not None, what
    assert set(ds['a'].values.tolist()) == m.A, (what, ds['a'].values, m.A)
    assert set(ds['b'].values.tolist()) == m.B, (what, ds['b'].values, m.B)
    assert len(ds['a']) == len(m.A) and len(ds['b']) == len(m.B), what
    n = 0
    for a, b in itertools.product(sorted(m.A), sorted(m.B)):
        v = float(ds['out'].sel(a=a, b=b).values)
        if (a, b) in m.vals:
            assert v == m.vals[(a, b)], (what, a, b, v, m.vals[(a, b)])
            n += 1
        else:
            assert math.isnan(v), (what, a, b, v)
    assert int(ds['out'].notnull().sum()) == n == len(m.vals), what


# ------------------------------ the harness -------------------------------- #

class World:

    def __init__(self, tmpdir, engine, rng):
        self.dir = tmpdir
        self.engine = engine
        self.rng = rng
        self.ext = {'h5netcdf': '.h5', 'joblib': '.dmp'}[engine]
        self.base = os.path.join(tmpdir, 'data')
        self.path = self.base + self.ext
        self.disk = None
        self.mem = None
        self.h = None
        self.runner = xyz.Runner(fn, var_names='out')
        self.new_session()

    # -- helpers
    def new_session(self):
        name = self.rng.choice([self.base, self.path])
        self.h = xyz.Harvester(self.runner, data_name=name,
                               engine=self.engine)
        self.mem = None

    def _apply(self, new, sync, overwrite, call):
        """``call()`` performs the real thing, here is what should happen."""
        if sync and self.disk is not None:
            self.mem = self.disk.copy()
        try:
            expected = policy(self.mem, new, overwrite)
        except Conflict:
            expected = None
        if expected is None:
            try:
                call()
            except MergeError:
                pass
            else:
                raise AssertionError("conflict did not raise")
        else:
            call()
            self.mem = expected
            if sync:
                self.disk = expected.copy()

    def check(self, synced):
        # memory (``full_ds`` lazily loads the disk one if nothing in memory)
        if self.mem is None and self.disk is not None:
            self.mem = self.disk.copy()
        check_ds(self.h.full_ds, self.mem, 'memory')
        # disk
        if self.disk is None:
            assert not os.path.exists(self.path)
        else:
            on_disk = xyz.load_ds(self.path, engine=self.engine)
            check_ds(on_disk, self.disk, 'disk')
            if synced:
                xr.testing.assert_equal(
                    on_disk.sortby(['a', 'b']),
                    self.h.full_ds.sortby(['a', 'b']))
        # never any stray files (e.g. temporaries) left behind
        assert set(os.listdir(self.dir)) <= {os.path.basename(self.path)}

    # -- steps
    def rand_coords(self):
        rng = self.rng
        A = rng.sample(range(1, 6), rng.randint(1, 3))
        B = rng.sample(range(1, 5), rng.randint(1, 3))
        return A, B

    def step_combos(self, sync, overwrite):
        A, B = self.rand_coords()
        OFFSET[0] = self.rng.choice([0.0, 0.0, 0.5])
        new = M({(a, b): fn(a, b) for a in A for b in B}, A, B)
        self._apply(new, sync, overwrite, lambda: self.h.harvest_combos(
            {'a': A, 'b': B}, sync=sync, overwrite=overwrite, **RUNNER_KW))
        if self.mem is not None:
            assert self.h.last_ds is not self.h.full_ds

    def step_cases(self, sync, overwrite):
        A, B = self.rand_coords()
        pts = self.rng.sample([(a, b) for a in A for b in B],
                              self.rng.randint(1, min(3, len(A) * len(B))))
        OFFSET[0] = self.rng.choice([0.0, 0.0, 0.5])
        new = M({p: fn(*p) for p in pts},
                {p[0] for p in pts}, {p[1] for p in pts})
        cases = [{'a': a, 'b': b} for a, b in pts]
        self._apply(new, sync, overwrite, lambda: self.h.harvest_cases(
            cases, sync=sync, overwrite=overwrite, **RUNNER_KW))

    def step_add_ds(self, sync, overwrite):
        A, B = self.rand_coords()
        OFFSET[0] = self.rng.choice([0.0, 0.0, 0.5])
        ds = xyz.Runner(fn, var_names='out').run_combos(
            {'a': A, 'b': B}, **RUNNER_KW)
        new = M({(a, b): fn(a, b) for a in A for b in B}, A, B)
        obj = ds['out'] if self.rng.random() < 0.5 else ds
        before = ds.copy(deep=True)
        self._apply(new, sync, overwrite, lambda: self.h.add_ds(
            obj, sync=sync, overwrite=overwrite))
        # the supplied data is never modified, nor aliased by the full dataset
        xr.testing.assert_identical(ds, before)
        assert self.h._full_ds is not ds

    def step_save_merge_ds(self, overwrite):
        A, B = self.rand_coords()
        OFFSET[0] = self.rng.choice([0.0, 0.0, 0.5])
        ds = xyz.Runner(fn, var_names='out').run_combos(
            {'a': A, 'b': B}, **RUNNER_KW)
        new = M({(a, b): fn(a, b) for a in A for b in B}, A, B)
        fname = self.rng.choice([self.base, self.path])
        try:
            expected = policy(self.disk, new, overwrite)
        except Conflict:
            try:
                xyz.save_merge_ds(ds, fname, overwrite=overwrite,
                                  engine=self.engine)
            except MergeError:
                pass
            else:
                raise AssertionError("conflict did not raise")
        else:
            xyz.save_merge_ds(ds, fname, overwrite=overwrite,
                              engine=self.engine)
            self.disk = expected

    def step_drop_sel(self):
        if self.mem is None and self.disk is not None:
            self.mem = self.disk.copy()
        if self.mem is None or len(self.mem.A) < 2:
            return False
        x = self.rng.choice(sorted(self.mem.A))
        self.h.drop_sel(a=[x])
        self.mem.A.discard(x)
        self.mem.vals = {k: v for k, v in self.mem.vals.items() if k[0] != x}
        self.disk = self.mem.copy()
        return True

    def run_sequence(self, length):
        rng = self.rng
        for _ in range(length):
            if rng.random() < 0.25:
                self.new_session()
            kind = rng.choice(['combos', 'combos', 'cases', 'cases', 'add_ds',
                               'add_ds', 'save_merge_ds', 'drop_sel'])
            sync = rng.random() < 0.75
            overwrite = rng.choice([None, None, True, False])
            synced = sync
            if kind == 'combos':
                self.step_combos(sync, overwrite)
            elif kind == 'cases':
                self.step_cases(sync, overwrite)
            elif kind == 'add_ds':
                self.step_add_ds(sync, overwrite)
            elif kind == 'save_merge_ds':
                self.step_save_merge_ds(overwrite)
                synced = False
            else:
                synced = self.step_drop_sel()
            self.check(synced)


def random_sequences(n_seq, seed):
    rng = random.Random(seed)
    count = 0
    for engine in ['h5netcdf', 'joblib']:
        for i in range(n_seq):
            tmpdir = tempfile.mkdtemp()
            try:
                w = World(tmpdir, engine, rng)
                length = 1 + i % 8
                w.run_sequence(length)
                count += length
            finally:
                shutil.rmtree(tmpdir)
    return count


# ------------------------- deterministic scenarios ------------------------- #

def grid(A, B, offset=0.0):
    OFFSET[0] = offset
    return xyz.Runner(fn, var_names='out').run_combos(
        {'a': A, 'b': B}, **RUNNER_KW)


def scenario_policies_in_memory():
    """All three policies x (first / disjoint / identical / conflicting),
    memory only harvester (no data_name) -> ``sync`` is irrelevant."""
    for sync in [True, False]:
        for overwrite in [None, True, False]:
            h = xyz.Harvester(xyz.Runner(fn, var_names='out'))
            first = grid([1, 2], [1, 2])
            h.add_ds(first, sync=sync, overwrite=overwrite)
            # first dataset is deep copied
            assert h.full_ds is not first
            xr.testing.assert_identical(h.full_ds, first)
            assert not np.shares_memory(h.full_ds['out'].values,
                                        first['out'].values)
            # disjoint
            h.add_ds(grid([3], [1, 2]), sync=sync, overwrite=overwrite)
            # identical
            h.add_ds(grid([2, 3], [2]), sync=sync, overwrite=overwrite)
            m = M({(a, b): 10.0 * a + b for a in [1, 2, 3] for b in [1, 2]},
                  [1, 2, 3], [1, 2])
            check_ds(h.full_ds, m, 'mem')
            # conflicting, partially overlapping
            new = grid([3, 4], [2, 3], offset=0.5)
            before = h.full_ds.copy(deep=True)
            if overwrite is None:
                try:
                    h.add_ds(new, sync=sync, overwrite=overwrite)
                except MergeError:
                    pass
                else:
                    raise AssertionError
                xr.testing.assert_identical(h.full_ds, before)
                continue
            h.add_ds(new, sync=sync, overwrite=overwrite)
            m.A |= {4}
            m.B |= {3}
            for a in [3, 4]:
                for b in [2, 3]:
                    if overwrite or (a, b) not in m.vals:
                        m.vals[(a, b)] = 10.0 * a + b + 0.5
            check_ds(h.full_ds, m, 'mem')
            # 'truthy' / 'falsy' but not True / False -> default policy
            for ow in [1, 0, 'yes']:
                try:
                    h.add_ds(grid([1], [1], offset=0.5), overwrite=ow)
                except MergeError:
                    pass
                else:
                    raise AssertionError(ow)
                check_ds(h.full_ds, m, 'mem')


def scenario_synced_conflict_leaves_disk_untouched():
    for engine, ext in [('h5netcdf', '.h5'), ('joblib', '.dmp')]:
        tmpdir = tempfile.mkdtemp()
        try:
            name = os.path.join(tmpdir, 'res')
            h = xyz.Harvester(xyz.Runner(fn, var_names='out'), name,
                              engine=engine)
            OFFSET[0] = 0.0
            h.harvest_combos({'a': [1, 2], 'b': [1]}, **RUNNER_KW)
            with open(name + ext, 'rb') as f:
                raw = f.read()
            before = h.full_ds.copy(deep=True)
            OFFSET[0] = 0.5
            for hh in [h, xyz.Harvester(xyz.Runner(fn, var_names='out'),
                                        name + ext, engine=engine)]:
                try:
                    hh.harvest_combos({'a': [2, 3], 'b': [1]}, **RUNNER_KW)
                except MergeError:
                    pass
                else:
                    raise AssertionError
                xr.testing.assert_identical(hh.full_ds, before)
                with open(name + ext, 'rb') as f:
                    assert f.read() == raw
                assert os.listdir(tmpdir) == ['res' + ext]
            # and now resolve it both ways from new sessions
            h2 = xyz.Harvester(xyz.Runner(fn, var_names='out'), name,
                               engine=engine)
            h2.harvest_combos({'a': [2, 3], 'b': [1]}, overwrite=False,
                              **RUNNER_KW)
            assert h2.full_ds['out'].sel(b=1).values.tolist() == [
                11.0, 21.0, 31.5]
            h3 = xyz.Harvester(xyz.Runner(fn, var_names='out'), name + ext,
                               engine=engine)
            h3.harvest_cases([{'a': 1, 'b': 1}], overwrite=True, **RUNNER_KW)
            assert h3.full_ds['out'].sel(b=1).values.tolist() == [
                11.5, 21.0, 31.5]
            xr.testing.assert_equal(
                xyz.load_ds(name, engine=engine), h3.full_ds)
        finally:
            shutil.rmtree(tmpdir)


def scenario_chunks():
    """dask backed merging (``chunks``) gives the same values."""
    tmpdir = tempfile.mkdtemp()
    try:
        name = os.path.join(tmpdir, 'chk')
        h = xyz.Harvester(xyz.Runner(fn, var_names='out'), name,
                          chunks={'a': 1})
        OFFSET[0] = 0.0
        h.harvest_combos({'a': [1, 2], 'b': [1, 2]}, **RUNNER_KW)
        h.harvest_combos({'a': [2, 3], 'b': [2, 3]}, **RUNNER_KW)
        OFFSET[0] = 0.5
        h.harvest_combos({'a': [3], 'b': [3, 4]}, overwrite=True,
                         **RUNNER_KW)
        h.harvest_combos({'a': [1], 'b': [1, 4]}, overwrite=False,
                         **RUNNER_KW)
        m = M({(1, 1): 11.0, (1, 2): 12.0, (2, 1): 21.0, (2, 2): 22.0,
               (2, 3): 23.0, (3, 2): 32.0, (3, 3): 33.5, (3, 4): 34.5,
               (1, 4): 14.5}, [1, 2, 3], [1, 2, 3, 4])
        check_ds(h.full_ds.load(), m, 'chunked mem')
        h.full_ds.close()
        check_ds(xyz.load_ds(name), m, 'chunked disk')
    finally:
        shutil.rmtree(tmpdir)


def scenario_expand_dims():
    for engine in ['h5netcdf', 'joblib']:
        tmpdir = tempfile.mkdtemp()
        try:
            name = os.path.join(tmpdir, 'exp')
            OFFSET[0] = 0.0
            h = xyz.Harvester(xyz.Runner(fn, var_names='out'), name,
                              engine=engine)
            h.harvest_combos({'a': [1, 2], 'b': [1]}, **RUNNER_KW)
            h.expand_dims('c', 7)

            def fn3(a, b, c):
                return float(100 * c + 10 * a + b)

            h2 = xyz.Harvester(xyz.Runner(fn3, var_names='out'), name,
                               engine=engine)
            h2.harvest_combos({'a': [2, 3], 'b': [1], 'c': [8]}, **RUNNER_KW)
            for hh_ds in [h2.full_ds, xyz.load_ds(name, engine=engine)]:
                o = hh_ds['out']
                assert float(o.sel(a=1, b=1, c=7)) == 11.0
                assert float(o.sel(a=2, b=1, c=7)) == 21.0
                assert math.isnan(float(o.sel(a=3, b=1, c=7)))
                assert math.isnan(float(o.sel(a=1, b=1, c=8)))
                assert float(o.sel(a=2, b=1, c=8)) == 821.0
                assert float(o.sel(a=3, b=1, c=8)) == 831.0
        finally:
            shutil.rmtree(tmpdir)


if __name__ == '__main__':
    scenario_policies_in_memory()
    scenario_synced_conflict_leaves_disk_untouched()
    scenario_chunks()
    scenario_expand_dims()
    nsteps = random_sequences(n_seq=48, seed=505)
    print("checked", nsteps, "random steps")
    print("PASS")
