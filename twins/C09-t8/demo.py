"""Demo for the C09 helper-extraction twin (behaviour preserving).

Run as:  cd <worktree> && /venv/bin/python /path/to/demo.py

Checks, on crops with up to 7 batches, that a partial reap
(``allow_incomplete=True``) shows the finished batches exactly and everything
else as the missing placeholder, deletes nothing, lets growing continue to an
exact full reap, and that an incomplete crop is refused (and left untouched)
without ``allow_incomplete``.  Prints PASS and exits 0 when all is well.
"""
import os
import sys

sys.path.insert(0, os.getcwd())

import shutil  # noqa: E402
import hashlib  # noqa: E402
import tempfile  # noqa: E402
import warnings  # noqa: E402
import itertools  # noqa: E402

import numpy as np  # noqa: E402
import pandas as pd  # noqa: E402
import xarray as xr  # noqa: E402

import xyzpy  # noqa: E402
from xyzpy import Crop, Runner, Harvester, Sampler  # noqa: E402
from xyzpy.gen import cropping  # noqa: E402
from xyzpy.gen.cropping import XYZError, read_from_disk  # noqa: E402

warnings.filterwarnings("ignore")

# no progress bars (cosmetic only)
import tqdm  # noqa: E402

_tqdm_init = tqdm.tqdm.__init__


def _quiet_tqdm_init(self, *args, **kwargs):
    kwargs["disable"] = True
    _tqdm_init(self, *args, **kwargs)


tqdm.tqdm.__init__ = _quiet_tqdm_init

FAILURES = []


def check(cond, msg):
    if not cond:
        FAILURES.append(msg)
        if len(FAILURES) > 20:
            finish()


def finish():
    if FAILURES:
        print("FAIL")
        for f in FAILURES[:20]:
            print("  -", f)
        sys.exit(1)
    print("PASS")
    sys.exit(0)


# ------------------------------ the functions ------------------------------ #


def f_scalar(a, b):
    return a * 100.0 + b


def f_array(a, b):
    return np.array([a, b, a + b], dtype=float)


def f_bool(a, b):
    return (a + b) % 2 == 0


def f_str(a, b):
    return "s{}-{}".format(a, b)


def f_dataset(a, b):
    return xr.Dataset({"x": a * 100.0 + b})


KINDS = {
    "scalar": f_scalar,
    "array": f_array,
    "bool": f_bool,
    "str": f_str,
    "dataset": f_dataset,
}


# --------------------------------- helpers --------------------------------- #


def snapshot(location):
    """Names and contents of every file of the crop."""
    snap = {}
    for root, dirs, files in os.walk(location):
        for d in dirs:
            snap[os.path.relpath(os.path.join(root, d), location) + "/"] = None
        for f in files:
            pth = os.path.join(root, f)
            with open(pth, "rb") as fh:
                snap[os.path.relpath(pth, location)] = hashlib.sha1(
                    fh.read()
                ).hexdigest()
    return snap


def result_path(crop, i):
    return os.path.join(crop.location, "results", "xyz-result-{}.jbdmp".format(i))


def batch_path(crop, i):
    return os.path.join(crop.location, "batches", "xyz-batch-{}.jbdmp".format(i))


def batch_members(crop, nb):
    """Which (a, b) positions belong to which batch, read off the disk."""
    members = {}
    for i in range(1, nb + 1):
        members[i] = [(kw["a"], kw["b"]) for kw in read_from_disk(batch_path(crop, i))]
    return members


def is_missing(x):
    if x is None:
        return True
    try:
        arr = np.asarray(x, dtype=float)
    except (TypeError, ValueError):
        return False
    return bool(np.all(np.isnan(arr)))


def same_value(x, y):
    if isinstance(y, str) or isinstance(y, (bool, np.bool_)):
        return (type(x) in (type(y), bool, np.bool_, str)) and x == y
    return bool(np.array_equal(np.asarray(x, dtype=float), np.asarray(y, dtype=float)))


def hold_back(crop, hold, nb, finished):
    """Arrange that exactly the result files of ``finished`` are present."""
    for i in range(1, nb + 1):
        here, there = result_path(crop, i), os.path.join(hold, str(i))
        if i in finished and not os.path.exists(here):
            shutil.move(there, here)
        elif i not in finished and os.path.exists(here):
            shutil.move(here, there)


def all_subsets(nb):
    ids = range(1, nb + 1)
    for k in range(1, nb):
        for sub in itertools.combinations(ids, k):
            yield set(sub)


def some_subsets(nb):
    ids = list(range(1, nb + 1))
    subs = [{1}, {nb}, set(ids[:-1]), set(ids[1:]), set(ids[::2])]
    out = []
    for s in subs:
        if 0 < len(s) < nb and s not in out:
            out.append(s)
    return out


# ---------------------- raw / Dataset / DataFrame views --------------------- #


def check_raw(tag, res, avals, bvals, fn, finished_pos):
    check(len(res) == len(avals), tag + ": wrong outer length")
    for ia, a in enumerate(avals):
        check(len(res[ia]) == len(bvals), tag + ": wrong inner length")
        for ib, b in enumerate(bvals):
            got = res[ia][ib]
            if (a, b) in finished_pos:
                exp = fn(a, b)
                if isinstance(exp, xr.Dataset):
                    ok = isinstance(got, xr.Dataset) and got.identical(exp)
                else:
                    ok = same_value(got, exp)
                check(ok, "{}: finished position {} is {!r}".format(tag, (a, b), got))
            else:
                if isinstance(got, xr.Dataset):
                    ok = bool(got["x"].isnull().all())
                else:
                    ok = is_missing(got)
                check(ok, "{}: missing position {} is {!r}".format(tag, (a, b), got))


def ds_opts(kind):
    if kind == "dataset":
        return dict(var_names=None)
    if kind == "array":
        return dict(var_names=["x"], var_dims={"x": ["t"]},
                    var_coords={"t": [0, 1, 2]})
    return dict(var_names=["x"])


def expected_x(kind, a, b):
    v = KINDS[kind](a, b)
    if kind == "dataset":
        return v["x"].values
    return v


def check_ds(tag, ds, kind, avals, bvals, finished_pos):
    check(isinstance(ds, xr.Dataset), tag + ": not a Dataset")
    check(list(ds["a"].values) == list(avals), tag + ": coordinate a")
    check(list(ds["b"].values) == list(bvals), tag + ": coordinate b")
    for a in avals:
        for b in bvals:
            got = ds["x"].sel(a=a, b=b).values
            if (a, b) in finished_pos:
                exp = expected_x(kind, a, b)
                if kind in ("str", "bool"):
                    ok = got.item() == exp
                else:
                    ok = np.array_equal(np.asarray(got, dtype=float),
                                        np.asarray(exp, dtype=float))
                check(ok, "{}: finished position {} is {!r}".format(tag, (a, b), got))
            else:
                ok = bool(np.all(pd.isnull(got)))
                check(ok, "{}: missing position {} is {!r}".format(tag, (a, b), got))


def check_df(tag, df, kind, avals, bvals, finished_pos):
    check(isinstance(df, pd.DataFrame), tag + ": not a DataFrame")
    check(len(df) == len(avals) * len(bvals), tag + ": number of rows")
    seen = set()
    for _, row in df.iterrows():
        a, b = int(row["a"]), int(row["b"])
        seen.add((a, b))
        got = row["x"]
        if (a, b) in finished_pos:
            exp = expected_x(kind, a, b)
            if kind in ("str", "bool"):
                ok = got == exp
            else:
                ok = float(got) == float(exp)
            check(ok, "{}: finished row {} is {!r}".format(tag, (a, b), got))
        else:
            check(bool(pd.isnull(got)),
                  "{}: missing row {} is {!r}".format(tag, (a, b), got))
    check(seen == set(itertools.product(avals, bvals)), tag + ": rows")


# ------------------------- 1. the exhaustive sweep ------------------------- #

# (values of a, values of b, batch settings) -> up to 7 batches, with and
# without a remainder, divided by batchsize or by num_batches
CONFIGS = [
    ([1, 2], [10, 20, 30], dict(batchsize=1)),       # 6 x 1
    ([1, 2], [10, 20, 30], dict(batchsize=2)),       # 3 x 2
    ([1, 2], [10, 20, 30], dict(batchsize=4)),       # 4 + 2
    ([1, 2], [10, 20, 30], dict(num_batches=4)),     # 2 2 1 1
    ([1], [1, 2, 3, 4, 5, 6, 7], dict(num_batches=7)),
    ([1], [1, 2, 3, 4, 5, 6, 7], dict(num_batches=3)),   # 3 2 2
    ([1], [1, 2, 3, 4, 5, 6, 7], dict(batchsize=3)),     # 3 3 1
    ([1, 2, 3], [5, 6, 7], dict(num_batches=5)),     # 2 2 2 2 1
    ([1, 2, 3], [5, 6, 7], dict(batchsize=2)),       # 2 2 2 2 1
]


def sweep(tdir, kind, mode, avals, bvals, bopts, shuffle, exhaustive,
          special_name=False):
    fn = KINDS[kind]
    name = "we[i]rd*crop?" if special_name else "crop"
    parent = tempfile.mkdtemp(dir=tdir)
    hold = tempfile.mkdtemp(dir=tdir)
    tag0 = "{}/{}/{}/{}/shuffle={}".format(kind, mode, len(avals) * len(bvals),
                                           bopts, shuffle)

    crop = Crop(fn=fn, name=name, parent_dir=parent, **bopts)
    crop.sow_combos({"a": avals, "b": bvals}, shuffle=shuffle, verbosity=0)
    nb = crop.num_batches
    check(2 <= nb <= 7, tag0 + ": unexpected number of batches {}".format(nb))
    check(crop.num_sown_batches == nb, tag0 + ": sown batches")
    members = batch_members(crop, nb)
    check(sorted(sum(members.values(), [])) ==
          sorted(itertools.product(avals, bvals)), tag0 + ": sown positions")

    # nothing grown at all: no stand-in can be inferred
    try:
        crop.reap(allow_incomplete=True)
        check(False, tag0 + ": reaped a crop with no results at all")
    except XYZError:
        pass

    crop.grow(tuple(range(1, nb + 1)), verbosity=0)
    check(crop.is_ready_to_reap(), tag0 + ": should be ready")
    check(crop.missing_results() == (), tag0 + ": nothing should be missing")

    subsets = all_subsets(nb) if exhaustive else some_subsets(nb)
    for finished in subsets:
        tag = "{} finished={}".format(tag0, sorted(finished))
        hold_back(crop, hold, nb, finished)
        finished_pos = set(p for i in finished for p in members[i])

        # a fresh Crop object, as a separate reaping process would make
        c = Crop(name=name, parent_dir=parent)
        before = snapshot(c.location)
        check(c.num_results == len(finished), tag + ": num_results")
        check(c.missing_results() ==
              tuple(i for i in range(1, nb + 1) if i not in finished),
              tag + ": missing_results")
        check(not c.is_ready_to_reap(), tag + ": should not be ready")

        # refused without allow_incomplete, and left untouched
        for refuse in (lambda: c.reap(), lambda: c.reap_combos(),
                       lambda: c.reap_combos_to_ds(**ds_opts(kind))):
            try:
                refuse()
                check(False, tag + ": incomplete crop was not refused")
            except XYZError as e:
                check("not ready to reap" in str(e), tag + ": wrong refusal")
        check(snapshot(c.location) == before, tag + ": refusal touched files")

        if mode == "raw":
            res = c.reap(allow_incomplete=True)
            check_raw(tag, res, avals, bvals, fn, finished_pos)
        elif mode == "ds":
            ds = c.reap_combos_to_ds(allow_incomplete=True, **ds_opts(kind))
            check_ds(tag, ds, kind, avals, bvals, finished_pos)
        else:
            df = c.reap_combos_to_ds(allow_incomplete=True, to_df=True,
                                     **ds_opts(kind))
            check_df(tag, df, kind, avals, bvals, finished_pos)

        check(snapshot(c.location) == before,
              tag + ": partial reap changed the crop's files")

    # growing continues (for real) and the later full reap is exact
    last = set(some_subsets(nb)[-1])
    hold_back(crop, hold, nb, last)
    for i in range(1, nb + 1):
        if i not in last:
            os.remove(os.path.join(hold, str(i)))
    c = Crop(name=name, parent_dir=parent)
    c.grow_missing(verbosity=0)
    check(c.is_ready_to_reap(), tag0 + ": not ready after growing the rest")
    everything = set(itertools.product(avals, bvals))
    # complete + allow_incomplete: still deletes nothing
    before = snapshot(c.location)
    if mode == "raw":
        check_raw(tag0 + " full/ai", c.reap(allow_incomplete=True), avals,
                  bvals, fn, everything)
    check(snapshot(c.location) == before, tag0 + ": full/ai reap changed files")
    if mode == "raw":
        check_raw(tag0 + " full", c.reap(), avals, bvals, fn, everything)
    elif mode == "ds":
        check_ds(tag0 + " full", c.reap_combos_to_ds(**ds_opts(kind)), kind,
                 avals, bvals, everything)
    else:
        check_df(tag0 + " full", c.reap_combos_to_ds(to_df=True, **ds_opts(kind)),
                 kind, avals, bvals, everything)
    check(not os.path.exists(c.location), tag0 + ": full reap should clean up")
    shutil.rmtree(parent, ignore_errors=True)
    shutil.rmtree(hold, ignore_errors=True)


def part_sweeps(tdir):
    # exhaustive over subsets: raw scalar results, all configs, all shuffles
    for avals, bvals, bopts in CONFIGS:
        for shuffle in (False, True, 2):
            sweep(tdir, "scalar", "raw", avals, bvals, bopts, shuffle, True)
    # exhaustive for the other views / kinds on the configs with a remainder
    for kind, mode in [("scalar", "ds"), ("scalar", "df"), ("bool", "raw"),
                       ("str", "raw"), ("array", "raw"), ("dataset", "raw")]:
        sweep(tdir, kind, mode, *CONFIGS[3], shuffle=2, exhaustive=True)
    # a selection of subsets for every kind and view
    for kind in KINDS:
        for mode in ("raw", "ds", "df"):
            if (kind, mode) in [("dataset", "df"), ("array", "df")]:
                continue
            for avals, bvals, bopts in (CONFIGS[2], CONFIGS[5], CONFIGS[7]):
                sweep(tdir, kind, mode, avals, bvals, bopts, True, False)
    # a crop location full of glob characters
    sweep(tdir, "scalar", "raw", *CONFIGS[3], shuffle=False, exhaustive=False,
          special_name=True)


# ----------------------- 2. clean_up option, waiting ----------------------- #


def part_clean_up(tdir):
    avals, bvals = [1, 2], [10, 20, 30]
    everything = set(itertools.product(avals, bvals))
    for how in ("raw", "ds"):
        for allow_incomplete in (False, True):
            for clean_up in (None, True, False):
                parent = tempfile.mkdtemp(dir=tdir)
                c = Crop(fn=f_scalar, name="cu", parent_dir=parent, num_batches=4)
                c.sow_combos({"a": avals, "b": bvals}, verbosity=0)
                members = batch_members(c, 4)
                grown = (1, 2, 3, 4) if not allow_incomplete else (2, 3)
                c.grow(grown, verbosity=0)
                pos = set(p for i in grown for p in members[i])
                tag = "clean_up={} ai={} {}".format(clean_up, allow_incomplete, how)
                before = snapshot(c.location)
                if how == "raw":
                    res = c.reap_combos(clean_up=clean_up,
                                        allow_incomplete=allow_incomplete)
                    check_raw(tag, res, avals, bvals, f_scalar, pos)
                else:
                    res = c.reap_combos_to_ds(var_names=["x"], clean_up=clean_up,
                                              allow_incomplete=allow_incomplete)
                    check_ds(tag, res, "scalar", avals, bvals, pos)
                deleted = (not allow_incomplete) if clean_up is None else clean_up
                if deleted:
                    check(not os.path.exists(c.location), tag + ": not deleted")
                else:
                    check(snapshot(c.location) == before, tag + ": files changed")
                shutil.rmtree(parent, ignore_errors=True)

    # waiting for a complete crop reaps it like a plain reap
    parent = tempfile.mkdtemp(dir=tdir)
    c = Crop(fn=f_scalar, name="w", parent_dir=parent, batchsize=4)
    c.sow_combos({"a": avals, "b": bvals}, verbosity=0)
    c.grow_missing(verbosity=0)
    check_raw("wait", c.reap(wait=True), avals, bvals, f_scalar, everything)
    check(not os.path.exists(c.location), "wait: not cleaned up")

    # an empty result file is reported, stand-ins or not
    parent = tempfile.mkdtemp(dir=tdir)
    c = Crop(fn=f_scalar, name="e", parent_dir=parent, batchsize=2)
    c.sow_combos({"a": avals, "b": bvals}, verbosity=0)
    c.grow(1, verbosity=0)
    c.all_nan_result  # inferred (and remembered) from the one good result
    cropping.write_to_disk((), result_path(c, 2))
    try:
        c.reap(allow_incomplete=True)
        check(False, "empty result file went unnoticed")
    except ValueError as e:
        check("contains no data" in str(e), "empty result: wrong error")
    check(os.path.exists(c.location), "empty result: crop deleted")


# --------------------- 3. Runner / Harvester / Sampler --------------------- #


def part_farmers(tdir):
    avals, bvals = [1, 2], [10, 20, 30]
    combos = {"a": avals, "b": bvals}
    everything = set(itertools.product(avals, bvals))

    # Runner, to Dataset
    parent = tempfile.mkdtemp(dir=tdir)
    r = Runner(f_scalar, var_names=["x"])
    c = r.Crop(name="r", parent_dir=parent, num_batches=4)
    c.sow_combos(combos, verbosity=0)
    members = batch_members(c, 4)
    c.grow((1, 4), verbosity=0)
    pos = set(members[1] + members[4])
    before = snapshot(c.location)
    try:
        c.reap()
        check(False, "runner: incomplete crop not refused")
    except XYZError:
        pass
    ds = c.reap(allow_incomplete=True)
    check_ds("runner partial", ds, "scalar", avals, bvals, pos)
    check(r.last_ds is ds, "runner: last_ds")
    check(snapshot(c.location) == before, "runner: partial reap changed files")
    c.grow_missing(verbosity=0)
    ds = c.reap()
    check_ds("runner full", ds, "scalar", avals, bvals, everything)
    check(not os.path.exists(c.location), "runner: full reap should clean up")

    # Harvester, syncing with a file
    parent = tempfile.mkdtemp(dir=tdir)
    h = Harvester(Runner(f_scalar, var_names=["x"]),
                  os.path.join(parent, "data.h5"))
    c = h.Crop(name="h", parent_dir=parent, batchsize=4)
    c.sow_combos(combos, verbosity=0)
    members = batch_members(c, 2)
    c.grow(2, verbosity=0)
    before = snapshot(c.location)
    ds = c.reap(allow_incomplete=True)
    check_ds("harvester partial", ds, "scalar", avals, bvals, set(members[2]))
    check_ds("harvester partial, file", xyzpy.load_ds(h.data_name), "scalar",
             avals, bvals, set(members[2]))
    check(snapshot(c.location) == before, "harvester: partial reap changed files")
    c.grow_missing(verbosity=0)
    ds = c.reap()
    check_ds("harvester full", ds, "scalar", avals, bvals, everything)
    check_ds("harvester full, file", xyzpy.load_ds(h.data_name), "scalar",
             avals, bvals, everything)
    check(not os.path.exists(c.location), "harvester: full reap should clean up")

    # Harvester, explicit clean_up
    for clean_up in (True, False):
        parent = tempfile.mkdtemp(dir=tdir)
        h = Harvester(Runner(f_scalar, var_names=["x"]),
                      os.path.join(parent, "data.h5"))
        c = h.Crop(name="h", parent_dir=parent, batchsize=4)
        c.sow_combos(combos, verbosity=0)
        c.grow(1, verbosity=0)
        c.reap(allow_incomplete=True, clean_up=clean_up)
        check(os.path.exists(c.location) == (not clean_up),
              "harvester: explicit clean_up={}".format(clean_up))

    # Sampler, to a DataFrame
    parent = tempfile.mkdtemp(dir=tdir)
    s = Sampler(Runner(f_scalar, var_names=["x"]),
                os.path.join(parent, "data.pkl"),
                default_combos={"a": [1, 2, 3], "b": [10, 20, 30, 40]})
    c = s.Crop(name="s", parent_dir=parent, num_batches=3)
    c.sow_samples(7, verbosity=0)
    sown = [[(kw["a"], kw["b"]) for kw in read_from_disk(batch_path(c, i))]
            for i in (1, 2, 3)]
    check([len(x) for x in sown] == [3, 2, 2], "sampler: batch sizes")
    c.grow((1, 3), verbosity=0)
    before = snapshot(c.location)
    df = c.reap(allow_incomplete=True)
    flat = [(p, i in (0, 2)) for i, x in enumerate(sown) for p in x]
    check(len(df) == 7, "sampler partial: rows")
    for (_, row), ((a, b), done) in zip(df.iterrows(), flat):
        check((row["a"], row["b"]) == (a, b), "sampler partial: labels")
        if done:
            check(row["x"] == f_scalar(a, b), "sampler partial: value")
        else:
            check(pd.isnull(row["x"]), "sampler partial: missing")
    check(snapshot(c.location) == before, "sampler: partial reap changed files")
    c.grow_missing(verbosity=0)
    df = c.reap(sync=False)
    check(len(df) == 7, "sampler full: rows")
    for (_, row), ((a, b), _) in zip(df.iterrows(), flat):
        check((row["a"], row["b"]) == (a, b) and row["x"] == f_scalar(a, b),
              "sampler full: row")
    check(not os.path.exists(c.location), "sampler: full reap should clean up")

    # check_bad on a partially grown crop finds nothing and deletes nothing
    parent = tempfile.mkdtemp(dir=tdir)
    c = Crop(fn=f_scalar, name="b", parent_dir=parent, num_batches=4)
    c.sow_combos(combos, verbosity=0)
    c.grow((1, 3), verbosity=0)
    before = snapshot(c.location)
    check(c.check_bad() == (), "check_bad: found bad results")
    check(snapshot(c.location) == before, "check_bad: files changed")


def main():
    here = os.path.dirname(os.path.abspath(xyzpy.__file__))
    assert here.startswith(os.getcwd()), (here, os.getcwd())
    tdir = tempfile.mkdtemp(prefix="c09-t8-")
    try:
        part_sweeps(tdir)
        part_clean_up(tdir)
        part_farmers(tdir)
    finally:
        shutil.rmtree(tdir, ignore_errors=True)
    finish()


if __name__ == "__main__":
    main()
