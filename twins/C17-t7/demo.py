"""Demo / check for the histogram and heat-map data paths of the classic
matplotlib plots.

Run as ``cd <worktree> && python /path/to/demo.py``.  Exercises
``Plotter.prepare_x_vals_histogram``, ``Plotter.prepare_heatmap_data``,
``Histogram.plot_histogram`` and ``HeatMap.plot_heatmap`` (single plots, auto_*
variants and row/col grids, with NaN / inf / all-NaN data and the colour,
label, legend and stacking options) and, more briefly, lineplot and scatter;
checks that what is drawn is exactly the data and that the dataset passed in
is never modified.
"""
import os
import sys
import shutil
import tempfile
import warnings

sys.path.insert(0, os.getcwd())

import matplotlib  # noqa: E402

matplotlib.use("Agg")
warnings.filterwarnings("ignore")

import matplotlib.pyplot as plt  # noqa: E402
import numpy as np  # noqa: E402
import xarray as xr  # noqa: E402

import xyzpy  # noqa: E402
from xyzpy.plot.color import xyz_colormaps  # noqa: E402
from xyzpy.plot.plotter_matplotlib import (  # noqa: E402
    lineplot, scatter, histogram, heatmap,
    auto_lineplot, auto_scatter, auto_histogram, auto_heatmap,
)

assert os.path.dirname(os.path.dirname(os.path.abspath(xyzpy.__file__))) \
    == os.path.abspath(os.getcwd()), xyzpy.__file__

N_CHECKS = [0]


def check(cond, msg):
    N_CHECKS[0] += 1
    if not cond:
        raise AssertionError(msg)


def close(a, b):
    a, b = np.asarray(a, dtype=float), np.asarray(b, dtype=float)
    return a.shape == b.shape and np.allclose(a, b, rtol=0, atol=1e-12,
                                              equal_nan=True)


class Unchanged:
    """Context manager: the dataset passed in is not modified."""

    def __init__(self, ds):
        self.ds = ds

    def __enter__(self):
        self.copy = self.ds.copy(deep=True)
        return self.ds

    def __exit__(self, et, ev, tb):
        if et is None:
            check(self.ds.identical(self.copy), "dataset was modified")
            for k in self.ds.variables:
                check(self.ds[k].dtype == self.copy[k].dtype, "dtype changed")
        return False


def expect_error(exc, fragment, fn):
    try:
        fn()
    except exc as e:
        check(fragment in str(e), "message %r lacks %r" % (str(e), fragment))
    else:
        check(False, "expected %s" % exc.__name__)
    finally:
        plt.close('all')  # a failed plot leaves its figure open


def lin(v, lo, hi):
    return (v - lo) / (hi - lo)


# ------------------------------ histograms --------------------------------- #

def polys_by_label(ax):
    out = {}
    for p in ax.patches:
        check(p.get_label() not in out, "duplicate histogram label")
        out[p.get_label()] = p
    return out


def check_hist_poly(poly, values, nb, rnge, bottom=None, total=None):
    """``poly`` is the step outline of the density of ``values``."""
    if isinstance(nb, int):
        counts, edges = np.histogram(values, bins=nb, range=rnge)
    else:
        counts, edges = np.histogram(values, bins=nb)
    n = len(edges) - 1
    widths = np.diff(edges)
    if total is None:
        # independent densities
        tops = counts / widths / counts.sum()
    else:
        # stacked: cumulative, jointly normalised
        tops = (bottom + counts) / widths / total
    xy = poly.get_xy()
    check(close(xy[0:2 * n + 1:2, 0], edges), "bin edges")
    check(close(xy[1:2 * n + 1:2, 1], tops), "bin heights")
    return counts


def finite(a):
    a = np.asarray(a, dtype=float).flatten()
    return a[np.isfinite(a)]


def make_hist_ds(zvals, n=40, seed=0):
    rng = np.random.default_rng(seed)
    nz = len(zvals)
    v = rng.normal(size=(nz, 4, n // 4))
    u = rng.normal(loc=2.0, size=(nz, 4, n // 4))
    v[0, 0, :5] = np.nan
    v[nz - 1, 1, 3] = np.inf
    u[0, 2, 1] = -np.inf
    return xr.Dataset(coords={'z': zvals},
                      data_vars={'v': (('z', 'a', 'b'), v),
                                 'u': (('z', 'a', 'b'), u)})


def test_histogram_z():
    for zvals in ([5.0], [1.0, 2.0], [1, 2, 4], ['p', 'q', 'r', 's'],
                  list(np.arange(11.0))):
        ds = make_hist_ds(zvals, seed=len(zvals))
        nz = len(zvals)
        fin = [finite(ds['v'].values[i]) for i in range(nz)]
        rnge = (min(f.min() for f in fin), max(f.max() for f in fin))
        for bins in (6, 30):
            with Unchanged(ds):
                P = histogram(ds, 'v', z='z', bins=bins, call='both')
            ax = P._fig.axes[0]
            polys = polys_by_label(ax)
            check(sorted(polys) == sorted(str(z) for z in zvals),
                  "one histogram per z, labelled with it")
            for zv, f in zip(zvals, fin):
                check_hist_poly(polys[str(zv)], f, bins, rnge)
            check(isinstance(P._legend_labels, tuple)
                  and P._legend_labels == tuple(str(z) for z in zvals),
                  "legend labels in z order")
            check(isinstance(P._legend_handles, tuple)
                  and len(P._legend_handles) == nz, "legend handles")
            check((ax.get_xlabel(), ax.get_ylabel()) == ('x', 'f(x)'),
                  "histogram axes titles")
            lg = ax.get_legend()
            if 1 < nz <= 10:
                check([t.get_text() for t in lg.get_texts()]
                      == [str(z) for z in zvals]
                      and lg.get_title().get_text() == 'z', "legend")
            else:
                check(lg is None, "no legend")
        # default colours, marker_alpha, line widths and z-orders per series
        tab = matplotlib.cm.tab10.colors
        with Unchanged(ds):
            P = histogram(ds, 'v', z='z', bins=5, marker_alpha=0.6,
                          line_widths=[1.0, 2.5], zorders=[4, 7, 9],
                          zlabels=['L%d' % i for i in range(nz)],
                          legend_reverse=True, legend=True, call='both')
        polys = polys_by_label(P._fig.axes[0])
        for i in range(nz):
            p = polys['L%d' % i]
            rgb = tuple(tab[i % 10])
            check(close(p.get_edgecolor(), rgb + (0.6,))
                  and close(p.get_facecolor(), rgb + (0.15,)),
                  "edge / face colours")
            check(p.get_linewidth() == [1.0, 2.5][i % 2]
                  and p.get_zorder() == [4, 7, 9][i % 3], "widths, z-orders")
            h = P._legend_handles[i]
            check(close(h.get_edgecolor(), rgb + (0.6,))
                  and close(h.get_facecolor(), rgb + (0.15,)),
                  "legend handle colours")
        check([t.get_text() for t in P._fig.axes[0].get_legend().get_texts()]
              == ['L%d' % i for i in range(nz)][::-1], "reversed legend")
        # colours from the z coordinate
        cmap = xyz_colormaps('viridis')
        if nz > 1:
            with Unchanged(ds):
                fig = histogram(ds, 'v', z='z', bins=5, colors=True,
                                colormap='viridis')
            polys = polys_by_label(fig.axes[0])
            if isinstance(zvals[0], str):
                rv = np.linspace(0, 1, nz)
            else:
                zz = np.asarray(zvals, dtype=float)
                rv = lin(zz, zz.min(), zz.max())
            for i, zv in enumerate(zvals):
                check(close(polys[str(zv)].get_edgecolor(), cmap(rv[i])),
                      "histogram colour from z")


def test_histogram_stacked_multivar_single():
    ds = make_hist_ds([1, 2, 3], seed=21)
    fin = [finite(ds['v'].values[i]) for i in range(3)]
    rnge = (min(f.min() for f in fin), max(f.max() for f in fin))
    with Unchanged(ds):
        fig = histogram(ds, 'v', z='z', bins=8, stacked=True)
    polys = polys_by_label(fig.axes[0])
    total = sum(len(f) for f in fin)
    bottom = np.zeros(8)
    for zv, f in zip([1, 2, 3], fin):
        bottom = bottom + check_hist_poly(polys[str(zv)], f, 8, rnge,
                                          bottom=bottom, total=total)
    # explicit bin edges
    edges = np.linspace(-2.0, 2.0, 9)
    with Unchanged(ds):
        fig = histogram(ds, 'v', z='z', bins=edges)
    polys = polys_by_label(fig.axes[0])
    for zv, f in zip([1, 2, 3], fin):
        check_hist_poly(polys[str(zv)], f, edges, None)
    # several variables instead of a z coordinate
    with Unchanged(ds):
        P = histogram(ds, ['v', 'u'], bins=7, call='both')
    polys = polys_by_label(P._fig.axes[0])
    fv, fu = finite(ds['v'].values), finite(ds['u'].values)
    rnge = (min(fv.min(), fu.min()), max(fv.max(), fu.max()))
    check(sorted(polys) == ['u', 'v'], "one histogram per variable")
    check_hist_poly(polys['v'], fv, 7, rnge)
    check_hist_poly(polys['u'], fu, 7, rnge)
    check(P._legend_labels == ('v', 'u'), "variables in the order given")
    # a single variable, all dimensions flattened
    with Unchanged(ds):
        P = histogram(ds, 'u', bins=9, call='both')
    (p,) = P._fig.axes[0].patches
    check_hist_poly(p, fu, 9, (fu.min(), fu.max()))
    check(P._legend_labels == (None,), "no label for a single histogram")
    # an all-NaN series keeps its place
    ds2 = ds.copy(deep=True)
    ds2['v'][1] = np.nan
    with Unchanged(ds2):
        P = histogram(ds2, 'v', z='z', bins=4, call='both')
    polys = polys_by_label(P._fig.axes[0])
    check(sorted(polys) == ['1', '2', '3'], "three series")
    f0, f2 = finite(ds2['v'].values[0]), finite(ds2['v'].values[2])
    rnge = (min(f0.min(), f2.min()), max(f0.max(), f2.max()))
    check_hist_poly(polys['1'], f0, 4, rnge)
    check_hist_poly(polys['3'], f2, 4, rnge)
    check(np.all(np.isnan(polys['2'].get_xy()[1:8:2, 1])), "empty series")
    # what the series generator hands over
    P = histogram(ds2, 'v', z='z', call=False)
    P.prepare_data_single()
    got = list(P._gen_xy())
    check([sorted(d) for d in got] == [['x']] * 3, "only x values")
    check(close(got[0]['x'], f0) and got[1]['x'].size == 0
          and close(got[2]['x'], f2), "finite values, flattened, in z order")
    check(close([d['x'].size for d in P._gen_xy()], [len(f0), 0, len(f2)]),
          "generator can be restarted")


def test_histogram_errors():
    ds = make_hist_ds([1, 2, 3], seed=2)
    # series generator runs inside a generator: exhaustion -> RuntimeError
    expect_error(RuntimeError, 'StopIteration',
                 lambda: histogram(ds, 'v', z='z', zlabels=['only one']))
    expect_error(RuntimeError, 'StopIteration',
                 lambda: histogram(ds, 'v', z='z', c='u'))
    expect_error(ValueError, 'expected 7, got 0',
                 lambda: histogram(ds.isel(z=[]), 'v', z='z'))
    expect_error(KeyError, 'nope', lambda: histogram(ds, 'nope', z='z'))
    expect_error(KeyError, '', lambda: histogram(ds, ['v', 'nope']))
    expect_error(ValueError, 'not valid',
                 lambda: histogram(ds, 'v', z='z', binz=3))


# ------------------------------- heat maps --------------------------------- #

def bounds(c):
    c = np.asarray(c, dtype=float)
    av = np.mean(c[1:] - c[:-1])
    return np.append(c - av / 2, c[-1] + av / 2)


def check_mesh(mesh, xs, ys, zyx):
    """``mesh`` shows ``zyx`` (indexed [y, x]) on the x-y mesh."""
    co = mesh.get_coordinates()
    ny, nx = len(ys), len(xs)
    check(co.shape == (ny + 1, nx + 1, 2), "mesh shape")
    check(all(close(co[r, :, 0], bounds(xs)) for r in range(ny + 1))
          and all(close(co[:, c, 1], bounds(ys)) for c in range(nx + 1)),
          "mesh corners half a bin around the coordinates")
    exp = np.ma.masked_invalid(np.asarray(zyx, dtype=float))
    got = np.ma.asarray(mesh.get_array()).reshape(ny, nx)
    check(np.array_equal(np.ma.getmaskarray(got), np.ma.getmaskarray(exp)),
          "non-finite cells masked")
    check(close(got.filled(0.0), exp.filled(0.0)), "cell values")


def test_heatmap_single():
    rng = np.random.default_rng(5)
    xs = [0.0, 1.0, 3.0, 4.0, 7.0]      # uneven spacing
    ys = [10, 20, 40]                   # integer coordinate
    h = rng.random((5, 1, 3)) + 0.2
    h[1, 0, 2] = np.nan
    h[4, 0, 0] = np.inf
    # stored as (x, k, y): squeezed and transposed for plotting
    ds = xr.Dataset(coords={'x': xs, 'y': ys, 'k': [7]},
                    data_vars={'h': (('x', 'k', 'y'), h),
                               'g': (('y', 'x'), rng.random((3, 5)))})
    hyx = h[:, 0, :].T
    lo, hi = finite(h).min(), finite(h).max()
    with Unchanged(ds):
        P = heatmap(ds, 'x', 'y', 'h', call='both')
    fig = P._fig
    check(len(fig.axes) == 2 and len(fig.axes[0].collections) == 1,
          "one mesh and a colorbar")
    mesh = fig.axes[0].collections[0]
    check_mesh(mesh, xs, ys, hyx)
    check(P._heatmap is mesh, "mesh kept")
    check(close(P._heatmap_x, xs) and close(P._heatmap_y, ys),
          "mesh coordinates")
    check(isinstance(P._heatmap_var, np.ma.MaskedArray)
          and P._heatmap_var.shape == (3, 5)
          and close(P._heatmap_var.filled(-1.0),
                    np.where(np.isfinite(hyx), hyx, -1.0)), "masked data")
    check((fig.axes[0].get_xlabel(), fig.axes[0].get_ylabel(),
           fig.axes[1].get_title()) == ('x', 'y', 'h'), "titles")
    check(mesh.cmap.name == 'inferno' and P._cbar.extend == 'neither',
          "default colormap")
    # another variable, stored (y, x) already
    with Unchanged(ds):
        fig = heatmap(ds, 'x', 'y', 'g', colormap='viridis')
    check_mesh(fig.axes[0].collections[0], xs, ys, ds['g'].values)
    gl, gh = float(ds['g'].min()), float(ds['g'].max())
    nrm = fig.axes[0].collections[0].norm
    check((nrm.vmin, nrm.vmax) == (gl, gh), "norm spans the data")
    # swapped roles of the coordinates
    with Unchanged(ds):
        fig = heatmap(ds, 'y', 'x', 'g')
    check_mesh(fig.axes[0].collections[0], ys, xs, ds['g'].values.T)
    # clipped colour range -> colorbar extends
    with Unchanged(ds):
        P = heatmap(ds, 'x', 'y', 'g', vmin=gl + 0.1, vmax=gh - 0.1,
                    call='both')
    check(P._cbar.extend == 'both', "colorbar extends both ways")
    nrm = P._fig.axes[0].collections[0].norm
    check(close([nrm.vmin, nrm.vmax], [gl + 0.1, gh - 0.1]), "given range")
    # the range found while preparing the data
    P = heatmap(ds, 'x', 'y', 'h', call=False)
    P.prepare_data_single()
    check(float(P._zmin) == lo and float(P._zmax) == hi
          and not isinstance(P._zmin, xr.DataArray), "masked min / max")
    P = heatmap(ds, 'x', 'y', 'h', call=False)
    P.prepare_heatmap_data(grid=True)
    check(isinstance(P._zmin, xr.DataArray) and P._zmin.ndim == 0
          and float(P._zmin) == lo and np.isinf(float(P._zmax))
          and not hasattr(P, '_heatmap_var'), "grid: range only")
    check(P._multi_var is False, "one data set only")
    # other drawing method
    with Unchanged(ds):
        fig = heatmap(ds, 'x', 'y', 'g', method='pcolor')
    coll = fig.axes[0].collections[0]
    check(close(np.ma.asarray(coll.get_array()).filled(0).reshape(3, 5),
                ds['g'].values), "pcolor values")
    # errors
    expect_error(AttributeError, 'nope',
                 lambda: heatmap(ds, 'x', 'y', 'g', method='nope'))
    expect_error(KeyError, 'nope', lambda: heatmap(ds, 'nope', 'y', 'g'))
    expect_error(KeyError, 'nope', lambda: heatmap(ds, 'x', 'y', 'nope'))
    expect_error(ValueError, 'x', lambda: heatmap(ds.isel(x=[0]), 'x', 'y',
                                                  'g'))
    sds = xr.Dataset(coords={'x': ['a', 'b'], 'y': [1.0, 2.0]},
                     data_vars={'g': (('x', 'y'), rng.random((2, 2)))})
    expect_error(TypeError, 'subtract', lambda: heatmap(sds, 'x', 'y', 'g'))


# --------------------------------- grids ----------------------------------- #

def test_grids():
    rng = np.random.default_rng(8)
    # heat maps over rows and columns
    xs, ys = np.array([0.0, 1.0, 2.0, 4.0]), np.array([1.0, 2.0, 3.0])
    h = rng.random((2, 3, 3, 4))
    h[1, 0, 1, 2] = np.nan
    ds = xr.Dataset(coords={'x': xs, 'y': ys, 'r': [0.5, 1.5],
                            'k': ['p', 'q', 's']},
                    data_vars={'h': (('r', 'k', 'y', 'x'), h)})
    lo, hi = np.nanmin(h), np.nanmax(h)
    with Unchanged(ds):
        fig = heatmap(ds, 'x', 'y', 'h', row='r', col='k')
    check(len(fig.axes) == 7, "six panels and one colorbar")
    for i, r in enumerate(ds['r'].values):
        for j, k in enumerate(ds['k'].values):
            ax = fig.axes[3 * i + j]
            mesh = ax.collections[0]
            check_mesh(mesh, xs, ys, h[i, j])
            check((mesh.norm.vmin, mesh.norm.vmax) == (lo, hi),
                  "common colour range")
            if i == 0:
                check(ax.get_title() == 'k = %s' % k, "column title")
            if j == 2:
                check(ax.get_ylabel() == 'r = %s' % r, "row title")
    with Unchanged(ds):
        fig = heatmap(ds.isel(k=1), 'x', 'y', 'h', row='r', rowtitle='R')
    check(len(fig.axes) == 3, "two panels and one colorbar")
    for i in range(2):
        check_mesh(fig.axes[i].collections[0], xs, ys, h[i, 1])
        check(fig.axes[i].get_ylabel() == 'R = %s' % [0.5, 1.5][i], "rows")
    # histograms over columns
    v = rng.normal(size=(3, 2, 30))
    v[0, 1, :4] = np.nan
    hds = xr.Dataset(coords={'k': [10, 20, 30], 'z': ['a', 'b']},
                     data_vars={'v': (('k', 'z', 'n'), v)})
    with Unchanged(hds):
        fig = histogram(hds, 'v', z='z', col='k', bins=5)
    check(len(fig.axes) == 3 and len(fig.legends) == 1, "three panels")
    check([t.get_text() for t in fig.legends[0].get_texts()] == ['a', 'b'],
          "one legend entry per z")
    for j in range(3):
        ax = fig.axes[j]
        check(ax.get_title() == 'k = %d' % hds['k'].values[j], "panel title")
        polys = polys_by_label(ax)
        fa, fb = finite(v[j, 0]), finite(v[j, 1])
        rnge = (min(fa.min(), fb.min()), max(fa.max(), fb.max()))
        check_hist_poly(polys['a'], fa, 5, rnge)
        check_hist_poly(polys['b'], fb, 5, rnge)


# ---------------------------- lines and points ----------------------------- #

def series_points(ds, x, y, sel):
    sub = ds.isel(sel) if sel else ds
    bx, by = xr.broadcast(sub[x], sub[y])
    fx, fy = bx.values.flatten(), by.values.flatten()
    ok = np.isfinite(fx) & np.isfinite(fy)
    return fx[ok], fy[ok], ok


def test_lines_and_points():
    rng = np.random.default_rng(1)
    y = rng.random((3, 6))
    y[0, 2] = np.nan
    y[1, :] = np.nan
    y[2, 5] = np.inf
    ds = xr.Dataset(coords={'x': np.arange(1.0, 7.0), 'z': [1.0, 2.0, 4.0]},
                    data_vars={'y': (('z', 'x'), y),
                               'e': (('z', 'x'), rng.random((3, 6)) / 10)})
    for opts in ({}, {'xlog': True, 'ylog': True}, {'markers': False},
                 {'colors': True, 'legend': False}):
        with Unchanged(ds):
            fig = lineplot(ds, 'x', 'y', 'z', **opts)
        lines = fig.axes[0].lines
        check(len(lines) == 3, "one line per z")
        for i, ln in enumerate(lines):
            ex, ey, _ = series_points(ds, 'x', 'y', {'z': i})
            check(close(ln.get_xdata(), ex) and close(ln.get_ydata(), ey)
                  and ln.get_label() == str(ds['z'].values[i]), "line")
    with Unchanged(ds):
        fig = lineplot(ds, 'x', ['y', 'e'], )
    check([ln.get_label() for ln in fig.axes[0].lines] == ['y', 'e'],
          "one line per variable")
    sds = xr.Dataset(coords={'z': ['u', 'v']},
                     data_vars={'a': (('z', 'n'), rng.random((2, 7))),
                                'b': (('z', 'n'), rng.random((2, 7)))})
    sds['a'][0, 3] = np.nan
    with Unchanged(sds):
        fig = scatter(sds, 'a', 'b', 'z')
    for i, coll in enumerate(fig.axes[0].collections):
        ex, ey, _ = series_points(sds, 'a', 'b', {'z': i})
        off = np.asarray(coll.get_offsets(), dtype=float).reshape(-1, 2)
        check(close(off[:, 0], ex) and close(off[:, 1], ey)
              and coll.get_label() == ['u', 'v'][i], "scatter series")


def test_auto_variants(tmp):
    rng = np.random.default_rng(9)
    # histogram of a plain array of any shape
    for shape in ((50,), (6, 7), (2, 3, 4)):
        v = rng.normal(size=shape)
        v.flat[3] = np.nan
        v.flat[5] = -np.inf
        keep = v.copy()
        fig = auto_histogram(v, bins=6)
        (p,) = fig.axes[0].patches
        f = finite(v)
        check_hist_poly(p, f, 6, (f.min(), f.max()))
        check(np.array_equal(v, keep, equal_nan=True), "array not modified")
    # heat map of a matrix: first axis along x (named y), second along y
    m = rng.random((3, 5))
    m[2, 1] = np.nan
    fig = auto_heatmap(m, colorbar=False)
    check(len(fig.axes) == 1, "no colorbar")
    mesh = fig.axes[0].collections[0]
    co = mesh.get_coordinates()
    got = np.ma.asarray(mesh.get_array()).reshape(co.shape[0] - 1,
                                                   co.shape[1] - 1)
    check(got.shape == (5, 3)
          and np.array_equal(np.ma.getmaskarray(got), np.isnan(m.T))
          and close(got.filled(0), np.nan_to_num(m.T)), "auto_heatmap cells")
    check(close(co[0, :, 0], np.arange(-0.5, 3.0))
          and close(co[:, 0, 1], np.arange(-0.5, 5.0)), "auto_heatmap mesh")
    x = np.arange(1.0, 6.0)
    ys = rng.random((2, 5))
    fig = auto_lineplot(x, ys)
    check(all(close(ln.get_ydata(), ys[i])
              for i, ln in enumerate(fig.axes[0].lines)), "auto_lineplot")
    fig = auto_scatter(x, ys)
    check(len(fig.axes[0].collections) == 2, "auto_scatter")
    out = os.path.join(tmp, 'auto.png')
    fig.savefig(out)
    check(os.path.getsize(out) > 0, "figure saved")


def main():
    tmp = tempfile.mkdtemp(prefix='c17_t7_')
    try:
        test_histogram_z()
        test_histogram_stacked_multivar_single()
        test_histogram_errors()
        test_heatmap_single()
        test_grids()
        test_lines_and_points()
        test_auto_variants(tmp)
    finally:
        shutil.rmtree(tmp, ignore_errors=True)
        plt.close('all')
    print("checks:", N_CHECKS[0])
    print("PASS")


if __name__ == '__main__':
    main()
