"""Demo for the C07 helper-extraction refactoring (behaviour preserving).

Run as ``cd <worktree> && /venv/bin/python /path/to/demo.py``.

Sows crops for every N in 1..48 with every batchsize in 1..N+1 and every
num_batches in 1..N+2 (grids and case lists, shuffled or not, with sown and
farmer-provided constants / resources) and checks that

* every setting appears in exactly one batch with exactly the keyword
  arguments that a direct run passes, no batch is empty, ids are 1..B,
* the requested size / count is honoured,
* the crop reports the same numbers before and after a reload from disk,
* the files written are exactly the expected ones,
* the error behaviour and the sow-time overrides are what they always were,
* a sown crop grows and reaps to the same results as a direct run.

Prints PASS and exits 0 when everything holds.
"""

import os
import sys

sys.path.insert(0, os.getcwd())

import io
import math
import contextlib
import pickle
import random
import shutil
import tempfile
import traceback

import xyzpy as xyz
from xyzpy.gen.cropping import Crop, Sower

assert os.path.dirname(os.path.dirname(os.path.abspath(xyz.__file__))) == (
    os.path.abspath(os.getcwd())
), "xyzpy must be imported from the current directory"


def fn(a, b, c=0, r=0):
    return 1000 * a + 10 * b + c + r


RECORD = []


def rec(**kws):
    RECORD.append(kws)
    return 0


def key(kws):
    return tuple(sorted(kws.items()))


def grid_for(n):
    p = max(d for d in range(1, int(math.isqrt(n)) + 1) if n % d == 0)
    return {"a": list(range(10, 10 + p)), "b": list(range(n // p))}


def unsorted_grid_for(n):
    # sowing sorts the arguments by name, so this must sow identically
    return dict(reversed(list(grid_for(n).items())))


def cases_for(n):
    return [(i, (7 * i) % 5) for i in range(n)]


def flatten(x):
    if isinstance(x, tuple):
        for y in x:
            yield from flatten(y)
    else:
        yield x


FAILURES = []


def check(cond, *msg):
    if not cond:
        FAILURES.append(" ".join(str(m) for m in msg))
        if len(FAILURES) > 20:
            finish()


def finish():
    if FAILURES:
        print("FAIL")
        for f in FAILURES[:20]:
            print("  -", f)
        sys.exit(1)
    print("PASS")
    sys.exit(0)


def direct_settings(kind, n, const_mode):
    """The keyword arguments a direct run passes, in the order it runs."""
    del RECORD[:]
    if const_mode == "farmer":
        runner = xyz.Runner(
            rec, var_names=["out"], constants={"c": 3}, resources={"r": 5}
        )
        if kind == "grid":
            runner.run_combos(grid_for(n), verbosity=0)
        else:
            runner.run_cases(cases_for(n), fn_args=["a", "b"], verbosity=0)
    else:
        constants = {"c": 2} if const_mode == "sown" else {}
        if kind == "grid":
            xyz.combo_runner(
                rec, grid_for(n), constants=constants, verbosity=0
            )
        else:
            xyz.case_runner(
                rec, ["a", "b"], cases_for(n), constants=constants,
                verbosity=0,
            )
    return list(RECORD)


def make_crop(tdir, kind, shuffle, const_mode, **opts):
    if kind == "cases":
        opts["shuffle"] = shuffle
    if const_mode == "farmer":
        runner = xyz.Runner(
            fn, var_names=["out"], constants={"c": 3}, resources={"r": 5}
        )
        if kind == "cases":
            # the farmers do not take ``shuffle``
            crop = Crop(farmer=runner, name="demo", parent_dir=tdir, **opts)
        else:
            crop = runner.Crop(name="demo", parent_dir=tdir, **opts)
    else:
        crop = Crop(fn=fn, name="demo", parent_dir=tdir, **opts)
    return crop


def sow(crop, kind, n, shuffle, const_mode, **sow_opts):
    constants = {"c": 2} if const_mode == "sown" else None
    if kind == "grid":
        crop.sow_combos(
            unsorted_grid_for(n),
            constants=constants,
            shuffle=shuffle,
            verbosity=0,
            **sow_opts
        )
    else:
        crop.sow_cases(
            ["a", "b"],
            cases_for(n),
            constants=constants,
            verbosity=0,
            **sow_opts
        )


def read_batches(crop, tag):
    """Check the files on disk and return the list of batches."""
    top = sorted(os.listdir(crop.location))
    check(
        top == ["batches", "results", "xyz-function.clpkl",
                "xyz-settings.jbdmp"],
        tag, "unexpected crop directory contents", top,
    )
    check(os.listdir(os.path.join(crop.location, "results")) == [],
          tag, "results present straight after sowing")
    names = os.listdir(os.path.join(crop.location, "batches"))
    nb = len(names)
    expected = ["xyz-batch-{}.jbdmp".format(i) for i in range(1, nb + 1)]
    check(sorted(names) == sorted(expected),
          tag, "batch files are not numbered 1..B:", sorted(names))
    batches = []
    for name in expected:
        path = os.path.join(crop.location, "batches", name)
        if not os.path.isfile(path):
            continue
        with open(path, "rb") as f:
            batches.append(pickle.load(f))
    return batches


def check_partition(tag, batches, direct, shuffle):
    check(all(isinstance(b, list) and len(b) > 0 for b in batches),
          tag, "empty batch")
    flat = [kws for b in batches for kws in b]
    check(sorted(map(key, flat)) == sorted(map(key, direct)),
          tag, "batches do not hold every direct setting exactly once")
    if not shuffle:
        check(flat == direct, tag, "order of the sown settings changed")
    else:
        random.seed(int(shuffle))
        order = list(direct)
        random.shuffle(order)
        check(flat == order, tag, "shuffled order of sown settings changed")


def check_reports(tag, crop, tdir, nb, size, remainder):
    info = crop.load_info()
    for c, which in ((crop, "sowing crop"),
                     (Crop(name="demo", parent_dir=tdir), "reloaded crop")):
        check(c.num_batches == nb, tag, which, "num_batches", c.num_batches,
              "but", nb, "batches on disk")
        check(c.batchsize == size, tag, which, "batchsize", c.batchsize,
              "expected", size)
        check(c._batch_remainder == remainder, tag, which, "remainder",
              c._batch_remainder, "expected", remainder)
        check(c.num_sown_batches == nb, tag, which, "num_sown_batches",
              c.num_sown_batches, "expected", nb)
        check(c.num_results == 0, tag, which, "num_results", c.num_results)
        check(c.missing_results() == tuple(range(1, nb + 1)), tag, which,
              "missing_results", c.missing_results())
        check(not c.is_ready_to_reap(), tag, which, "ready to reap too soon")
        check(repr(c) == "<Crop(name='demo', batchsize={}, num_batches={})>"
              .format(size, nb), tag, which, "repr", repr(c))
        check("0 / {} batches of size {} completed".format(nb, size)
              in str(c), tag, which, "str", str(c))
    check((info["batchsize"], info["num_batches"], info["_batch_remainder"])
          == (size, nb, remainder), tag, "info on disk",
          (info["batchsize"], info["num_batches"], info["_batch_remainder"]))


def one(kind, n, shuffle, const_mode, direct, batchsize=None,
        num_batches=None, at_sow=False):
    tag = "[{} N={} shuffle={} constants={} batchsize={} num_batches={}{}]" \
        .format(kind, n, shuffle, const_mode, batchsize, num_batches,
                " given at sow time" if at_sow else "")
    tdir = tempfile.mkdtemp(prefix="c07-t8-")
    try:
        opts = {}
        if batchsize is not None:
            opts["batchsize"] = batchsize
        if num_batches is not None:
            opts["num_batches"] = num_batches
        if at_sow:
            crop = make_crop(tdir, kind, shuffle, const_mode)
            sow(crop, kind, n, shuffle, const_mode, **opts)
        else:
            crop = make_crop(tdir, kind, shuffle, const_mode, **opts)
            sow(crop, kind, n, shuffle, const_mode)
        batches = read_batches(crop, tag)
        nb = len(batches)
        sizes = [len(b) for b in batches]
        check_partition(tag, batches, direct, shuffle)
        if num_batches is None:
            s = 1 if batchsize is None else batchsize
            check(nb == math.ceil(n / s), tag, "B =", nb)
            check(max(sizes) <= s, tag, "oversized batch", sizes)
            check(sizes[:-1] == [s] * (nb - 1), tag, "sizes", sizes)
            check_reports(tag, crop, tdir, nb, s, 0)
        else:
            b = min(num_batches, n)
            check(nb == b, tag, "B =", nb, "expected", b)
            check(max(sizes) - min(sizes) <= 1, tag, "uneven sizes", sizes)
            check(sizes == sorted(sizes, reverse=True), tag,
                  "larger batches must come first", sizes)
            check_reports(tag, crop, tdir, nb, n // b, n % b)
    except SystemExit:
        raise
    except Exception:
        check(False, tag, "raised", traceback.format_exc(limit=3))
    finally:
        shutil.rmtree(tdir, ignore_errors=True)


def sweep():
    full = [("grid", False, "none"), ("cases", False, "farmer")]
    light = [
        (kind, shuffle, const_mode)
        for kind in ("grid", "cases")
        for shuffle in (False, True, 7)
        for const_mode in ("none", "sown", "farmer")
        if (kind, shuffle, const_mode) not in full
    ]
    for variants, ns in ((full, range(1, 49)),
                         (light, (1, 2, 3, 7, 12, 48))):
        for kind, shuffle, const_mode in variants:
            for n in ns:
                direct = direct_settings(kind, n, const_mode)
                check(len(direct) == n, "direct run size", len(direct), n)
                one(kind, n, shuffle, const_mode, direct)
                for s in range(1, n + 2):
                    one(kind, n, shuffle, const_mode, direct, batchsize=s)
                for k in range(1, n + 3):
                    one(kind, n, shuffle, const_mode, direct, num_batches=k)
                # the same options given when sowing rather than constructing
                for s in (1, 2, n, n + 1):
                    one(kind, n, shuffle, const_mode, direct, batchsize=s,
                        at_sow=True)
                for k in (1, 2, n, n + 2):
                    one(kind, n, shuffle, const_mode, direct, num_batches=k,
                        at_sow=True)


def expect_raises(exc, msg, f):
    try:
        f()
    except exc as e:
        check(msg is None or str(e) == msg, "wrong message:", repr(str(e)))
    except Exception as e:
        check(False, "expected", exc.__name__, "got", repr(e))
    else:
        check(False, "expected", exc.__name__, "but nothing was raised")


def errors_and_state():
    combos = [("a", [1, 2, 3])]
    both = ("`batchsize` and `num_batches` cannot bothbe specified if they "
            "do not not multiplyto the correct number of total cases.")

    def settle(**opts):
        c = Crop(fn=fn, save_fn=False, name="never-written", **opts)
        return c, (lambda **kw: c.choose_batch_settings(
            **(kw or {"combos": combos})))

    c, go = settle(batchsize=0.5)
    expect_raises(TypeError, "`batchsize` must be an integer.", go)
    check((c.batchsize, c.num_batches, c._batch_remainder)
          == (0.5, None, None), "state after TypeError", vars(c))
    c, go = settle(batchsize=0)
    expect_raises(ValueError, "`batchsize` must be >= 1.", go)
    c, go = settle(batchsize=-1)
    expect_raises(ValueError, "`batchsize` must be >= 1.", go)
    c, go = settle(num_batches=1.5)
    expect_raises(TypeError, "`num_batches` must be an integer.", go)
    check((c.batchsize, c.num_batches, c._batch_remainder)
          == (None, 1.5, None), "state after TypeError", vars(c))
    c, go = settle(num_batches=2.5)
    expect_raises(TypeError, "`num_batches` must be an integer.", go)
    check((c.batchsize, c.num_batches, c._batch_remainder)
          == (None, 2.5, None), "state after TypeError", vars(c))
    # the cap is applied before the check, and so 7.5 is accepted for 3
    c, go = settle(num_batches=7.5)
    go()
    check((c.batchsize, c.num_batches, c._batch_remainder) == (1, 3, 0),
          "capped before the type check", vars(c))
    c, go = settle(num_batches=0)
    expect_raises(ValueError, "`num_batches` must be >= 1.", go)
    c, go = settle(num_batches=-2)
    expect_raises(ValueError, "`num_batches` must be >= 1.", go)
    check(c.num_batches == -2 and c.batchsize is None, "state", vars(c))
    c, go = settle(num_batches="2")
    expect_raises(TypeError, None, go)

    for bs, nb, ok in [(1, 2, False), (2, 3, False), (1, 3, True),
                       (2, 2, True), (3, 1, True), (4, 1, True),
                       (3, 2, False)]:
        c, go = settle(batchsize=bs, num_batches=nb)
        if ok:
            go()
        else:
            expect_raises(ValueError, both, go)
        check((c.batchsize, c.num_batches, c._batch_remainder)
              == (bs, nb, None), "both given: state changed", vars(c))

    # a remainder already known takes part in the consistency check
    c, go = settle(num_batches=2)
    go(combos=[("a", range(5))])
    check((c.batchsize, c.num_batches, c._batch_remainder) == (2, 2, 1),
          "5 into 2", vars(c))
    go(combos=[("a", range(5))])
    go(combos=[("a", range(4))], cases=None)
    expect_raises(ValueError, both, lambda: go(combos=[("a", range(6))]))
    expect_raises(ValueError, both, lambda: go(combos=[("a", range(3))]))

    # no combos / no cases count as one
    c, go = settle()
    c.choose_batch_settings()
    check((c.batchsize, c.num_batches, c._batch_remainder) == (1, 1, 0),
          "nothing to run", vars(c))
    c, go = settle(batchsize=4)
    c.choose_batch_settings(combos=[("a", range(3)), ("b", range(5))],
                            cases=[{"c": 1}, {"c": 2}])
    check((c.batchsize, c.num_batches, c._batch_remainder) == (4, 8, 0),
          "2 x 3 x 5", vars(c))

    # both given explicitly with no remainder: historical behaviour is that
    # the sower can not compare against the missing remainder
    tdir = tempfile.mkdtemp(prefix="c07-t8-")
    try:
        c = Crop(fn=fn, name="demo", parent_dir=tdir, batchsize=2,
                 num_batches=2)
        expect_raises(TypeError, None, lambda: c.sow_combos(
            {"a": [1, 2, 3], "b": [1]}, verbosity=0))
        # ... but the first setting is still flushed as the sower exits
        check(os.listdir(os.path.join(c.location, "batches"))
              == ["xyz-batch-1.jbdmp"], "files after the failed sow",
              os.listdir(os.path.join(c.location, "batches")))
        with open(os.path.join(c.location, "batches", "xyz-batch-1.jbdmp"),
                  "rb") as f:
            check(pickle.load(f) == [{"a": 1, "b": 1}], "flushed batch")
        check(c.is_prepared(), "the information is written before the batches")
    finally:
        shutil.rmtree(tdir, ignore_errors=True)

    # the sower on its own: the overfill is flushed on exit, once
    tdir = tempfile.mkdtemp(prefix="c07-t8-")
    try:
        c = Crop(fn=fn, name="demo", parent_dir=tdir, num_batches=3)
        c.choose_batch_settings(combos=[("a", range(8))])
        c.ensure_dirs_exists()
        with Sower(c) as s:
            for i in range(7):
                s(a=i)
            check(s._batch_counter == 2 and s._counter == 1
                  and s._batch_cases == [{"a": 6}], "sower state", vars(s))
        check(s._batch_counter == 3 and s._counter == 0
              and s._batch_cases == [], "sower state after exit", vars(s))
        check(sorted(os.listdir(os.path.join(c.location, "batches")))
              == ["xyz-batch-{}.jbdmp".format(i) for i in (1, 2, 3)],
              "sower files")
        with Sower(c) as s:
            pass
        check(s._batch_counter == 0, "an empty sower writes nothing")
    finally:
        shutil.rmtree(tdir, ignore_errors=True)


def grow_and_reap():
    for kind, shuffle, const_mode, opts in [
        ("grid", False, "none", dict(batchsize=5)),
        ("grid", 3, "sown", dict(num_batches=7)),
        ("grid", True, "farmer", dict(num_batches=50)),
        ("cases", False, "farmer", dict(batchsize=4)),
        ("cases", True, "sown", dict(num_batches=5)),
    ]:
        n = 24
        tag = "[grow/reap {} {} {} {}]".format(kind, shuffle, const_mode, opts)
        tdir = tempfile.mkdtemp(prefix="c07-t8-")
        try:
            crop = make_crop(tdir, kind, shuffle, const_mode, **opts)
            sow(crop, kind, n, shuffle, const_mode)
            nb = crop.num_batches
            other = Crop(name="demo", parent_dir=tdir)
            other.grow(1, verbosity=0)
            check(crop.missing_results() == tuple(range(2, nb + 1)), tag,
                  "missing after one", crop.missing_results())
            check(crop.num_results == 1 and crop.num_sown_batches == nb, tag,
                  "progress", crop.num_results, crop.num_sown_batches)
            other.grow_missing(verbosity=0)
            check(crop.missing_results() == (), tag, "missing at the end")
            check(crop.is_ready_to_reap(), tag, "not ready")
            check(not crop.check_bad(), tag, "bad results")
            c = {"none": 0, "sown": 2, "farmer": 3}[const_mode]
            r = 5 if const_mode == "farmer" else 0
            if kind == "grid":
                with contextlib.redirect_stderr(io.StringIO()):
                    got = crop.reap_combos()
                g = grid_for(n)
                want = tuple(tuple(fn(a, b, c, r) for b in g["b"])
                             for a in g["a"])
                check(got == want, tag, "results", got)
            else:
                with contextlib.redirect_stderr(io.StringIO()):
                    got = crop.reap_combos()
                check(sum(x == x for x in flatten(got)) == n, tag,
                      "number of reaped results")
                check(not os.path.exists(crop.location), tag, "not cleaned")
        except SystemExit:
            raise
        except Exception:
            check(False, tag, "raised", traceback.format_exc(limit=3))
        finally:
            shutil.rmtree(tdir, ignore_errors=True)


if __name__ == "__main__":
    errors_and_state()
    grow_and_reap()
    sweep()
    finish()
