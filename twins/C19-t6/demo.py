"""C19 / t6 demo: RunningCovariance and RunningCovarianceMatrix.

Run as ``cd <worktree> && /venv/bin/python /path/to/demo.py``.
"""
import os
import sys

sys.path.insert(0, os.getcwd())

import itertools
import shutil
import tempfile
import warnings

import numpy as np

import xyzpy
from xyzpy import RunningCovariance, RunningCovarianceMatrix

assert os.path.dirname(os.path.abspath(xyzpy.__file__)) == os.path.join(
    os.getcwd(), "xyzpy"
), xyzpy.__file__

CHECKS = [0]


def check(cond, msg):
    CHECKS[0] += 1
    if not cond:
        raise AssertionError(msg)


def close(a, b, scale, what):
    a = np.asarray(a, dtype=float)
    b = np.asarray(b, dtype=float)
    tol = 1e-9 * scale
    check(np.all(np.abs(a - b) <= tol), f"{what}: {a} != {b} (tol {tol})")


# --- a bit-exact reference of the documented recurrence --------------------


class RefCov:
    def __init__(self):
        self.count = 0
        self.xmean = 0.0
        self.ymean = 0.0
        self.C = 0.0

    def update(self, x, y):
        self.count += 1
        dx = x - self.xmean
        dy = y - self.ymean
        self.xmean += dx / self.count
        self.ymean += dy / self.count
        self.C += dx * (y - self.ymean)


def same_state(rc, ref, what):
    check(rc.count == ref.count, f"{what}: count")
    check(type(rc.count) is int, f"{what}: count type")
    for a in ("xmean", "ymean", "C"):
        check(
            repr(getattr(rc, a)) == repr(getattr(ref, a)),
            f"{what}: {a} {getattr(rc, a)!r} != {getattr(ref, a)!r}",
        )


def make_series(rng, nseries, length, offset, spread):
    base = rng.standard_normal(length)
    out = []
    for k in range(nseries):
        mix = rng.uniform(-1, 1)
        s = offset * (k + 1) + spread * (
            mix * base + (1 - abs(mix)) * rng.standard_normal(length)
        )
        out.append([float(v) for v in s])
    return out


def chunkings(rng, length):
    yield [length]
    yield [1] * length
    if length > 2:
        cuts = sorted(
            set(rng.integers(1, length, size=min(5, length - 1)).tolist())
        )
        edges = [0] + cuts + [length]
        yield [b - a for a, b in zip(edges[:-1], edges[1:])]


def pairwise(rng):
    # RunningCovariance on its own: single updates, chunks, permutations
    for length, offset, spread in itertools.product(
        (1, 2, 3, 17, 500), (0.0, 1e3, 1e9), (1e-3, 1.0, 1e4)
    ):
        xs, ys = make_series(rng, 2, length, offset, spread)
        scale = (abs(offset) * 2 + spread) or 1.0
        for perm_no in range(2):
            order = (
                list(range(length))
                if perm_no == 0
                else rng.permutation(length).tolist()
            )
            px = [xs[i] for i in order]
            py = [ys[i] for i in order]
            for chunks in chunkings(rng, length):
                rc = RunningCovariance()
                ref = RefCov()
                pos = 0
                for c in chunks:
                    if c == 1:
                        ret = rc.update(px[pos], py[pos])
                    else:
                        ret = rc.update_from_it(
                            px[pos : pos + c], iter(py[pos : pos + c])
                        )
                    check(ret is None, "update returns None")
                    for k in range(pos, pos + c):
                        ref.update(px[k], py[k])
                    pos += c
                what = f"pair n={length} off={offset} spr={spread}"
                same_state(rc, ref, what)
                close(rc.xmean, np.mean(xs), scale, what + " xmean")
                close(rc.ymean, np.mean(ys), scale, what + " ymean")
                want = np.mean(
                    (np.array(xs) - np.mean(xs)) * (np.array(ys) - np.mean(ys))
                )
                close(rc.covar, want, scale * max(spread, 1e-3), what + " cov")
                check(
                    repr(rc.covar) == repr(ref.C / ref.count), what + " covar"
                )
                if length > 1:
                    close(
                        rc.sample_covar,
                        want * length / (length - 1),
                        scale * max(spread, 1e-3),
                        what + " sample cov",
                    )
                    check(
                        repr(rc.sample_covar)
                        == repr(ref.C / (ref.count - 1)),
                        what + " sample_covar",
                    )
                else:
                    try:
                        rc.sample_covar
                    except ZeroDivisionError:
                        check(True, "")
                    else:
                        check(False, what + " sample_covar of one point")

    # a value that cannot be subtracted: the count has moved on, the means
    # and the co-moment have not
    for bad in ((1.0, None), (None, 1.0)):
        rc = RunningCovariance()
        rc.update(2.0, 3.0)
        try:
            rc.update(*bad)
        except TypeError:
            check(True, "")
        else:
            check(False, "None accepted")
        check(
            (rc.count, rc.xmean, rc.ymean, rc.C) == (2, 2.0, 3.0, 0.0),
            f"state after failed update {vars(rc)}",
        )

    # unequal lengths: zip stops at the shorter one
    rc = RunningCovariance()
    rc.update_from_it([1.0, 2.0, 3.0, 4.0], [2.0, 1.0])
    check(rc.count == 2, "zip truncation")
    # empty object
    rc = RunningCovariance()
    check((rc.count, rc.xmean, rc.ymean, rc.C) == (0, 0.0, 0.0, 0.0), "init")
    for attr in ("covar", "sample_covar"):
        try:
            getattr(rc, attr)
        except ZeroDivisionError:
            check(True, "")
        else:
            check(attr == "sample_covar", "empty " + attr)
    rc = RunningCovariance()
    check(rc.sample_covar == -0.0, "empty sample_covar is 0.0 / -1")


def matrix(rng):
    for nseries, length, offset, spread in itertools.product(
        (1, 2, 3, 4), (1, 2, 5, 120), (0.0, 1e9), (1e-3, 10.0)
    ):
        series = make_series(rng, nseries, length, offset, spread)
        scale = (abs(offset) * nseries + spread) or 1.0
        for perm_no in range(2):
            order = (
                list(range(length))
                if perm_no == 0
                else rng.permutation(length).tolist()
            )
            ps = [[s[i] for i in order] for s in series]
            for chunks in chunkings(rng, length):
                rcm = RunningCovarianceMatrix(n=nseries)
                keys = [
                    (i, j) for i in range(nseries) for j in range(i, nseries)
                ]
                check(list(rcm.rcs) == keys, "key order")
                check(
                    all(type(v) is RunningCovariance for v in rcm.rcs.values()),
                    "value types",
                )
                check(
                    len({id(v) for v in rcm.rcs.values()}) == len(keys),
                    "distinct accumulators",
                )
                refs = {k: RefCov() for k in keys}
                pos = 0
                for c in chunks:
                    if c == 1:
                        ret = rcm.update(*(s[pos] for s in ps))
                    else:
                        ret = rcm.update_from_it(
                            *(s[pos : pos + c] for s in ps)
                        )
                    check(ret is None, "update returns None")
                    for k in range(pos, pos + c):
                        for i, j in keys:
                            refs[i, j].update(ps[i][k], ps[j][k])
                    pos += c
                    check(rcm.count == pos, "running count")
                what = f"matrix m={nseries} n={length} off={offset} spr={spread}"
                for k in keys:
                    same_state(rcm.rcs[k], refs[k], what + f" {k}")
                check(rcm.n == nseries, "n")
                arr = np.array(series).reshape(nseries, length)
                want = np.atleast_2d(np.cov(arr, bias=True))
                got = rcm.covar_matrix
                check(type(got) is np.ndarray, "matrix type")
                check(got.shape == (nseries, nseries), "matrix shape")
                check(got.dtype == np.float64, "matrix dtype")
                close(got, want, scale * max(spread, 1e-3), what + " covar")
                check(np.array_equal(got, got.T), what + " symmetric")
                exact = np.array(
                    [
                        [
                            refs[min(i, j), max(i, j)].C / length
                            for j in range(nseries)
                        ]
                        for i in range(nseries)
                    ]
                ).reshape(nseries, nseries)
                check(np.array_equal(got, exact), what + " exact covar")
                check(rcm.covar_matrix is not got, "fresh array every time")
                if length > 1:
                    wants = np.atleast_2d(np.cov(arr))
                    gots = rcm.sample_covar_matrix
                    close(
                        gots,
                        wants,
                        scale * max(spread, 1e-3),
                        what + " sample covar",
                    )
                    exact = np.array(
                        [
                            [
                                refs[min(i, j), max(i, j)].C / (length - 1)
                                for j in range(nseries)
                            ]
                            for i in range(nseries)
                        ]
                    ).reshape(nseries, nseries)
                    check(np.array_equal(gots, exact), what + " exact sample")
                else:
                    try:
                        rcm.sample_covar_matrix
                    except ZeroDivisionError:
                        check(True, "")
                    else:
                        check(False, what + " sample matrix of one point")
                means = [rcm.rcs[i, i].xmean for i in range(nseries)]
                close(means, arr.mean(axis=1), scale, what + " means")


def matrix_edges():
    # default size
    rcm = RunningCovarianceMatrix()
    check(rcm.n == 2 and list(rcm.rcs) == [(0, 0), (0, 1), (1, 1)], "default")
    check(rcm.count == 0, "empty count")
    for attr in ("covar_matrix", "sample_covar_matrix"):
        rcm = RunningCovarianceMatrix()
        try:
            got = getattr(rcm, attr)
        except ZeroDivisionError:
            check(attr == "covar_matrix", "empty " + attr)
        else:
            # 0.0 / -1 everywhere
            check(attr == "sample_covar_matrix", "empty " + attr)
            check(np.array_equal(got, np.zeros((2, 2))), "empty sample")

    # n = 0: nothing to track, count has nothing to look at
    rcm = RunningCovarianceMatrix(n=0)
    check(rcm.rcs == {}, "n=0 rcs")
    check(rcm.update() is None and rcm.update_from_it() is None, "n=0 upd")
    check(rcm.covar_matrix.shape == (0, 0), "n=0 covar")
    check(rcm.sample_covar_matrix.shape == (0, 0), "n=0 sample covar")
    try:
        rcm.count
    except KeyError:
        check(True, "")
    else:
        check(False, "n=0 count")

    # bad size
    try:
        RunningCovarianceMatrix(n="2")
    except TypeError:
        check(True, "")
    else:
        check(False, "string n")

    # too few values: earlier pairs are already updated, then IndexError
    rcm = RunningCovarianceMatrix(n=3)
    rcm.update(1.0, 2.0, 3.0)
    try:
        rcm.update(4.0, 6.0)
    except IndexError:
        check(True, "")
    else:
        check(False, "short update")
    counts = {k: v.count for k, v in rcm.rcs.items()}
    check(
        counts
        == {(0, 0): 2, (0, 1): 2, (0, 2): 1, (1, 1): 1, (1, 2): 1, (2, 2): 1},
        f"partial update {counts}",
    )
    check(rcm.count == 2, "count follows the first accumulator")
    rcm = RunningCovarianceMatrix(n=2)
    try:
        rcm.update_from_it([1.0, 2.0])
    except IndexError:
        check(True, "")
    else:
        check(False, "short update_from_it")
    check(
        [v.count for v in rcm.rcs.values()] == [2, 0, 0],
        "partial update_from_it",
    )
    # extra values are ignored
    rcm = RunningCovarianceMatrix(n=2)
    rcm.update(1.0, 2.0, "ignored")
    rcm.update_from_it([2.0, 4.0], [1.0, 0.0], None)
    check(rcm.count == 3, "extra values")
    close(rcm.covar_matrix, np.cov([[1, 2, 4], [2, 1, 0]], bias=True), 1, "x")

    # each pair pulls from the iterables it is given, in pair order
    log = []

    class Loud(list):
        def __init__(self, name, vals):
            super().__init__(vals)
            self.name = name

        def __iter__(self):
            log.append(self.name)
            return super().__iter__()

    rcm = RunningCovarianceMatrix(n=3)
    rcm.update_from_it(
        Loud("a", [1.0, 2.0]), Loud("b", [3.0, 5.0]), Loud("c", [0.0, 1.0])
    )
    check(
        log == ["a", "a", "a", "b", "a", "c", "b", "b", "b", "c", "c", "c"],
        f"iteration order {log}",
    )

    # numpy scalars: zero count gives nan with a warning, not an exception,
    # once per matrix element
    rcm = RunningCovarianceMatrix(n=2)
    for rc in rcm.rcs.values():
        rc.C = np.float64(0.0)
    with warnings.catch_warnings(record=True) as w:
        warnings.simplefilter("always")
        got = rcm.covar_matrix
    check(np.isnan(got).all(), "nan matrix")
    check(len(w) == 4, f"one warning per element ({len(w)})")

    # to_uncertainties needs the optional package
    rcm = RunningCovarianceMatrix(n=2)
    rcm.update_from_it((1, 3, 2), (2, 6, 4))
    try:
        import uncertainties  # noqa
    except ImportError:
        for bias in (True, False):
            try:
                rcm.to_uncertainties(bias=bias)
            except ImportError:
                check(True, "")
            else:
                check(False, "to_uncertainties without the package")
    else:
        x, y = rcm.to_uncertainties()
        check(abs((x / y).n - 0.5) < 1e-12, "ratio")
        check(abs((x / y).s) < 1e-7, "ratio error")
        xb, yb = rcm.to_uncertainties(bias=False)
        check(abs(xb.s**2 - rcm.sample_covar_matrix[0, 0]) < 1e-12, "bessel")
        check(abs(x.s**2 - rcm.covar_matrix[0, 0]) < 1e-12, "biased")
        check(x.n == 2.0 and y.n == 4.0, "means")


def main():
    tmp = tempfile.mkdtemp(prefix="c19_t6_")
    cwd = os.getcwd()
    try:
        os.chdir(tmp)
        rng = np.random.default_rng(190006)
        pairwise(rng)
        matrix(rng)
        matrix_edges()
        check(os.listdir(tmp) == [], "nothing written")
    finally:
        os.chdir(cwd)
        shutil.rmtree(tmp, ignore_errors=True)
    print(f"{CHECKS[0]} checks")
    print("PASS")


if __name__ == "__main__":
    main()
