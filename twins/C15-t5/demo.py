"""Demo for C15 (sampling only ever appends correct rows) -- crop / disk side.

Run as ``cd <worktree> && /venv/bin/python /path/to/demo.py``.
Exercises ``Crop.sow_samples``, ``Crop.reap`` (dispatch), ``Crop.reap_runner``,
``Crop.reap_samples``, ``Crop.reap_harvest`` (deferred clean up) and
``xyzpy.manage.save_df`` / ``load_df`` as used by the ``Sampler``.
"""
import os
import sys

sys.path.insert(0, os.getcwd())

import shutil
import tempfile
import warnings
from unittest import mock

import numpy as np
import pandas as pd
from pandas.testing import assert_frame_equal

import xyzpy
from xyzpy import Runner, Harvester, Sampler, Crop
from xyzpy.manage import load_df, save_df
from xyzpy.gen.farming import XYZError

assert os.path.dirname(os.path.dirname(os.path.abspath(xyzpy.__file__))) \
    == os.path.abspath(os.getcwd()), xyzpy.__file__

warnings.simplefilter("ignore")

A_CHOICES = (1, 2, 3, 4, 5)
A_OVERRIDE = (100, 200)
B_LO, B_HI = 10, 20
C_CONST = 42


def fn(a, b, c):
    return a + b, a - b, a % b == 0, c


def make_runner():
    return Runner(
        fn,
        var_names=["sum", "diff", "divisor", "const"],
        constants={"c": C_CONST},
    )


def gen_b():
    return np.random.randint(B_LO, B_HI)


DEFAULT_COMBOS = (("a", A_CHOICES), ("b", gen_b))


def check_rows(df, a_choices, c=C_CONST):
    for row in df.to_dict("records"):
        a, b = int(row["a"]), int(row["b"])
        assert a in a_choices, (a, a_choices)
        assert B_LO <= b < B_HI, b
        assert int(row["c"]) == c
        s, d, dv, cc = fn(a, b, c)
        assert int(row["sum"]) == s
        assert int(row["diff"]) == d
        assert bool(row["divisor"]) == bool(dv)
        assert int(row["const"]) == cc


def same_table(x, y, exact=True):
    x = x.reset_index(drop=True)
    y = y.reset_index(drop=True)
    assert sorted(x.columns) == sorted(y.columns), (x.columns, y.columns)
    cols = sorted(x.columns)
    assert_frame_equal(x[cols], y[cols], check_dtype=exact)


def files_in(d):
    return sorted(f for f in os.listdir(d)
                  if os.path.isfile(os.path.join(d, f)))


# --------------------------------------------------------------------------- #


def test_save_load_df():
    tmpdir = tempfile.mkdtemp()
    try:
        df = pd.DataFrame({"a": [1, 2, 3], "x": [0.5, 1.5, 2.5],
                           "ok": [True, False, True]},
                          index=[5, 6, 7])

        # pickle is the default, index preserved
        p = os.path.join(tmpdir, "d.pkl")
        assert save_df(df, p) is None
        assert_frame_equal(load_df(p), df)
        assert_frame_equal(pd.read_pickle(p), df)

        # csv: index is not written by default, but can be asked for
        c = os.path.join(tmpdir, "d.csv")
        save_df(df, c, engine="csv")
        with open(c) as f:
            assert f.read() == "a,x,ok\n1,0.5,True\n2,1.5,False\n3,2.5,True\n"
        assert_frame_equal(load_df(c, engine="csv"),
                           df.reset_index(drop=True))
        save_df(df, c, engine="csv", index=True)
        with open(c) as f:
            assert f.readline() == ",a,x,ok\n"
        save_df(df, c, engine="csv", sep=";")
        with open(c) as f:
            assert f.readline() == "a;x;ok\n"
        # extra keyword arguments are not forwarded when loading
        assert list(load_df(c, engine="csv", sep=";").columns) == ["a;x;ok"]

        # json also goes through the generic route
        j = os.path.join(tmpdir, "d.json")
        save_df(df, j, engine="json")
        assert_frame_equal(load_df(j, engine="json"), df, check_dtype=False)

        # the 'key' is only used for hdf, elsewhere it is ignored
        save_df(df, p, engine="pickle", key="other")
        assert_frame_equal(load_df(p, engine="pickle", key="other"), df)

        # hdf passes the key along to the writer
        seen = []
        with mock.patch.object(
            pd.DataFrame, "to_hdf", create=True,
            new=lambda self, name, **kw: seen.append((name, kw)),
        ):
            save_df(df, "nm.h5", engine="hdf")
            save_df(df, "nm.h5", engine="hdf", key="k2", mode="a")
        assert seen == [("nm.h5", {"key": "df"}),
                        ("nm.h5", {"key": "k2", "mode": "a"})]
        seen = []
        with mock.patch.object(
            pd, "read_hdf", create=True,
            new=lambda *a, **kw: seen.append((a, kw)) or "loaded",
        ):
            assert load_df("nm.h5", engine="hdf", key="k2") == "loaded"
        assert seen == [(("nm.h5",), {})]

        # unknown engines: attribute errors naming the method, nothing written
        before = files_in(tmpdir)
        for eng in ("nope", None, 3):
            try:
                save_df(df, os.path.join(tmpdir, "z"), engine=eng)
            except AttributeError as e:
                assert "to_{}".format(eng) in str(e), str(e)
            else:
                raise AssertionError("expected AttributeError")
            try:
                load_df(p, engine=eng)
            except AttributeError as e:
                assert "read_{}".format(eng) in str(e), str(e)
            else:
                raise AssertionError("expected AttributeError")
        assert files_in(tmpdir) == before

        # missing file
        try:
            load_df(os.path.join(tmpdir, "missing.pkl"))
        except FileNotFoundError:
            pass
        else:
            raise AssertionError("expected FileNotFoundError")
    finally:
        shutil.rmtree(tmpdir)


def test_sow_samples_details():
    tmpdir = tempfile.mkdtemp()
    try:
        s = Sampler(make_runner(), os.path.join(tmpdir, "t.pkl"),
                    default_combos=DEFAULT_COMBOS)
        crop = s.Crop(name="sd", parent_dir=tmpdir, batchsize=3)

        # sow_samples hands exactly what gen_cases_fnargs drew to sow_cases
        calls = []
        real_sow_cases = Crop.sow_cases

        def spy(self, *args, **kwargs):
            calls.append((args, kwargs))
            return real_sow_cases(self, *args, **kwargs)

        np.random.seed(99)
        expect_args, expect_cases = s.gen_cases_fnargs(7, {"a": A_OVERRIDE})
        np.random.seed(99)
        with mock.patch.object(Crop, "sow_cases", spy):
            assert crop.sow_samples(7, {"a": A_OVERRIDE}, verbosity=0) is None
        assert len(calls) == 1
        args, kwargs = calls[0]
        names = ("fn_args", "cases")
        merged = dict(zip(names, args))
        merged.update(kwargs)
        assert merged == {"fn_args": expect_args, "cases": expect_cases,
                          "constants": None, "verbosity": 0}
        assert expect_args == ("a", "b")

        info = crop.load_info()
        assert tuple(info["fn_args"]) == ("a", "b")
        assert tuple((c["a"], c["b"]) for c in info["cases"]) == expect_cases
        assert all(tuple(c) == ("a", "b") for c in info["cases"])
        assert info["combos"] is None and info["constants"] == {}
        assert crop.num_sown_batches == 3
        assert crop.batchsize == 3

        crop.grow_missing()
        df = crop.reap()
        assert [(int(r["a"]), int(r["b"])) for r in df.to_dict("records")] \
            == [tuple(c) for c in expect_cases]
        check_rows(df, A_OVERRIDE)

        # constants at sow time; n that does not divide the batch size
        crop = s.Crop(name="sd2", parent_dir=tmpdir, batchsize=4)
        crop.sow_samples(6, constants={"c": 7}, verbosity=0)
        assert crop.num_sown_batches == 2
        crop.grow(1)
        crop.grow((2,))
        df2 = crop.reap()
        check_rows(df2, A_CHOICES, c=7)
        assert len(s.full_df) == 13
        same_table(s.full_df.iloc[:7], df, exact=False)
        same_table(s.full_df.iloc[7:], df2, exact=False)
        same_table(pd.read_pickle(s.data_name), s.full_df)

        # sow_samples needs a sampler
        rcrop = make_runner().Crop(name="rr", parent_dir=tmpdir)
        try:
            rcrop.sow_samples(2)
        except AttributeError as e:
            assert "gen_cases_fnargs" in str(e)
        else:
            raise AssertionError("expected AttributeError")
        assert not os.path.exists(rcrop.location)
    finally:
        shutil.rmtree(tmpdir)


def run_sequence(engine, fname):
    tmpdir = tempfile.mkdtemp()
    try:
        path = os.path.join(tmpdir, fname)
        total = 0
        previous = None
        allowed = set(A_CHOICES) | set(A_OVERRIDE)
        plan = [(4, None, 2), (1, {"a": A_OVERRIDE}, 1), (5, None, 5),
                (3, (("a", A_OVERRIDE),), 2), (6, None, 4)]
        for i, (n, combos, batchsize) in enumerate(plan):
            s = Sampler(make_runner(), path, default_combos=DEFAULT_COMBOS,
                        engine=engine)
            crop = s.Crop(name="c{}".format(i), parent_dir=tmpdir,
                          batchsize=batchsize)
            crop.sow_samples(n, combos, verbosity=0)
            # interleave a direct sampling run while the crop is pending
            if i % 2:
                s.sample_combos(2, verbosity=0)
                total += 2
                previous = load_df(path, engine=engine)
                assert len(previous) == total
            crop.grow_missing()
            df = crop.reap()
            total += n

            assert df is s.last_df
            assert len(df) == n
            check_rows(df, A_CHOICES if combos is None else A_OVERRIDE)
            full = s.full_df
            assert len(full) == total
            assert list(full.index) == list(range(total))
            check_rows(full, allowed)
            same_table(full.iloc[-n:], df, exact=False)
            if previous is not None:
                same_table(full.iloc[:len(previous)], previous, exact=False)
            on_disk = load_df(path, engine=engine)
            same_table(on_disk, full, exact=(engine == "pickle"))
            assert files_in(tmpdir) == [fname]
            assert not os.path.exists(crop.location)
            same_table(Sampler(make_runner(), path, engine=engine).full_df,
                       on_disk)
            previous = on_disk
        assert total == 23
    finally:
        shutil.rmtree(tmpdir)


def test_reap_options():
    tmpdir = tempfile.mkdtemp()
    try:
        path = os.path.join(tmpdir, "t.pkl")
        s = Sampler(make_runner(), path, default_combos=DEFAULT_COMBOS)
        crop = s.Crop(name="opt", parent_dir=tmpdir, batchsize=2)
        crop.sow_samples(5, verbosity=0)
        crop.grow((1, 2))

        # not everything grown yet -> error, nothing written or deleted
        try:
            crop.reap()
        except XYZError:
            pass
        else:
            raise AssertionError("expected XYZError")
        assert not os.path.exists(path)
        assert s.last_df is None
        assert os.path.exists(crop.location)

        # clean_up=False keeps the crop, clean_up left as None with
        # allow_incomplete=True keeps the crop too; both append 5 rows
        part = crop.reap(allow_incomplete=True)
        assert len(part) == 5 and part is s.last_df
        # the missing batch (last sample) is filled in with nan outputs
        for col in ("sum", "diff", "divisor", "const"):
            assert np.isnan(float(part[col].iloc[4]))
        assert int(part["a"].iloc[4]) in A_CHOICES
        check_rows(part.iloc[:4], A_CHOICES)
        assert os.path.exists(crop.location)
        assert len(s.full_df) == 5
        same_table(pd.read_pickle(path).iloc[:4], s.full_df.iloc[:4])
        assert len(pd.read_pickle(path)) == 5

        crop.grow_missing()
        whole = crop.reap(clean_up=False)
        assert os.path.exists(crop.location)
        assert len(whole) == 5 and whole is s.last_df
        check_rows(whole, A_CHOICES)
        assert len(s.full_df) == 10
        same_table(s.full_df.iloc[:4], part.iloc[:4], exact=False)
        same_table(s.full_df.iloc[5:], whole, exact=False)
        same_table(pd.read_pickle(path).iloc[5:], s.full_df.iloc[5:])
        # same arguments as the incomplete reap of the same crop
        assert list(whole["a"]) == list(part["a"])
        assert list(whole["b"]) == list(part["b"])

        # sync=False returns the rows but neither memory nor disk changes,
        # the crop is still cleaned up by default
        mtime = os.stat(path).st_mtime_ns
        again = crop.reap(sync=False)
        same_table(again, whole)
        assert s.last_df is whole
        assert len(s.full_df) == 10
        assert os.stat(path).st_mtime_ns == mtime
        assert len(pd.read_pickle(path)) == 10
        assert not os.path.exists(crop.location)
        # although the runner remembers it
        assert s.runner._last_df is again

        # allow_incomplete with explicit clean_up=True does delete
        crop = s.Crop(name="opt2", parent_dir=tmpdir, batchsize=1)
        crop.sow_samples(2, verbosity=0)
        crop.grow(1)
        part = crop.reap(allow_incomplete=True, clean_up=True)
        assert len(part) == 2 and len(s.full_df) == 12
        assert not os.path.exists(crop.location)

        # a failing sync must not delete the grown results
        crop = s.Crop(name="opt3", parent_dir=tmpdir, batchsize=2)
        crop.sow_samples(3, verbosity=0)
        crop.grow_missing()
        import xyzpy.gen.farming as farming

        def failing_save(*a, **kw):
            raise IOError("disk full")

        with mock.patch.object(farming, "save_df", failing_save):
            try:
                crop.reap()
            except IOError as e:
                assert str(e) == "disk full"
            else:
                raise AssertionError("expected IOError")
        assert os.path.exists(crop.location)
        assert crop.is_ready_to_reap()
        assert len(pd.read_pickle(path)) == 12
        assert len(s._full_df) == 12
        df = crop.reap()
        assert len(df) == 3 and len(s.full_df) == 15
        same_table(pd.read_pickle(path), s.full_df)
        assert not os.path.exists(crop.location)

        # reap_samples directly, with and without a sampler
        crop = s.Crop(name="opt4", parent_dir=tmpdir, batchsize=2)
        crop.sow_samples(2, verbosity=0)
        crop.grow_missing()
        try:
            crop.reap_samples(None)
        except ValueError as e:
            assert str(e) == "Cannot reap samples without a 'Sampler'."
        else:
            raise AssertionError("expected ValueError")
        assert os.path.exists(crop.location)
        other = Sampler(make_runner(), path)
        df = crop.reap_samples(other, wait=True)
        assert other.last_df is df and len(other.full_df) == 17
        assert len(pd.read_pickle(path)) == 17
        assert not os.path.exists(crop.location)
        assert files_in(tmpdir) == ["t.pkl"]
    finally:
        shutil.rmtree(tmpdir)


def test_other_farmers():
    """The other branches of ``Crop.reap`` sharing the touched code."""
    tmpdir = tempfile.mkdtemp()
    try:
        # Runner: dataset by default, also remembered on the runner
        r = make_runner()
        crop = r.Crop(name="run", parent_dir=tmpdir, batchsize=2)
        crop.sow_combos({"a": [1, 2], "b": [10, 11]}, verbosity=0)
        crop.grow_missing()
        ds = crop.reap()
        assert r.last_ds is ds
        assert ds["sum"].sel(a=2, b=11).item() == 13
        assert not os.path.exists(crop.location)

        # Runner reaped into a dataframe
        crop = r.Crop(name="run2", parent_dir=tmpdir, batchsize=3)
        crop.sow_cases(("a", "b"), [(1, 10), (2, 12), (5, 15)], verbosity=0)
        crop.grow_missing()
        df = crop.reap_runner(r, to_df=True, clean_up=False)
        assert r._last_df is df and r.last_ds is ds
        assert list(df["sum"]) == [11, 14, 20]
        assert os.path.exists(crop.location)
        crop.delete_all()

        # Harvester: overwrite option forwarded, clean up deferred
        path = os.path.join(tmpdir, "h.h5")
        h = Harvester(make_runner(), path)
        crop = h.Crop(name="har", parent_dir=tmpdir, batchsize=2)
        crop.sow_combos({"a": [1, 2], "b": [10]}, verbosity=0)
        crop.grow_missing()
        ds1 = crop.reap(clean_up=False)
        assert os.path.exists(crop.location) and os.path.exists(path)
        assert h.last_ds is ds1
        crop.reap(overwrite=True)
        assert not os.path.exists(crop.location)
        assert h.full_ds["sum"].sel(a=2, b=10).item() == 12

        crop = h.Crop(name="har2", parent_dir=tmpdir, batchsize=1)
        crop.sow_combos({"a": [3, 4], "b": [10]}, verbosity=0)
        crop.grow(1)
        crop.reap(allow_incomplete=True)
        assert os.path.exists(crop.location)
        crop.grow_missing()
        crop.reap(sync=False)
        assert not os.path.exists(crop.location)
        try:
            crop.reap_harvest(None)
        except ValueError as e:
            assert str(e) == "Cannot reap and harvest if no Harvester is set."
        else:
            raise AssertionError("expected ValueError")
        h.full_ds.close()

        # no farmer at all: nested tuple
        crop = Crop(fn=lambda a, b: a * b, name="raw", parent_dir=tmpdir,
                    batchsize=2)
        crop.sow_combos({"a": [1, 2], "b": [3, 4]}, verbosity=0)
        crop.grow_missing()
        assert crop.reap() == ((3, 4), (6, 8))
        assert not os.path.exists(crop.location)
    finally:
        shutil.rmtree(tmpdir)


if __name__ == "__main__":
    test_save_load_df()
    test_sow_samples_details()
    np.random.seed(11)
    run_sequence("pickle", "tbl.pkl")
    run_sequence("csv", "tbl.csv")
    test_reap_options()
    test_other_farmers()
    print("PASS")
