#!/usr/bin/env python
"""Demo for refactoring t3 (``Harvester.save_full_ds`` / ``Sampler.save_full_df``
in ``xyzpy.gen.farming``).

Property C10: killing a worker at any instant while sowing / growing /
reaping-and-syncing never corrupts what is later reaped, and data already
merged into a harvester's / sampler's on-disk file survives.

Part 1 tests ``save_full_ds`` / ``save_full_df`` / ``add_ds`` / ``add_df``
directly: several engines, with and without a new dataset, the ``overwrite``
options, no left-over temporary files, and a kill at every boundary while
over-writing an existing file (the file always loads and holds exactly the old
or exactly the new data).

Part 2 forks a child for every file-system operation boundary while sowing,
growing and reaping-and-syncing Harvester and Sampler crops (the boundaries
include: before the save, target created but empty, half written, completely
written, before / after the rename, between all deletions of the clean up),
lets the child die there with ``os._exit`` (like SIGKILL) and checks in the
parent that the previously merged data is still on disk, that a naive ``reap``
refuses or is exact, and that the documented recovery gives exactly the result
of an uninterrupted run (also if the recovery itself is killed once).

Run as:  cd <worktree> && /venv/bin/python /path/to/demo.py
"""
import os
import sys

sys.path.insert(0, os.getcwd())

import builtins  # noqa: E402
import glob  # noqa: E402
import pickle  # noqa: E402
import shutil  # noqa: E402
import tempfile  # noqa: E402
import traceback  # noqa: E402
import warnings  # noqa: E402

warnings.filterwarnings("ignore")

import numpy as np  # noqa: E402
import pandas as pd  # noqa: E402
import xarray as xr  # noqa: E402
import tqdm  # noqa: E402


class _QuietTqdm(tqdm.tqdm):
    """No progress bars on stderr please."""

    def __init__(self, *args, **kwargs):
        kwargs["disable"] = True
        super().__init__(*args, **kwargs)


tqdm.tqdm = _QuietTqdm

import xyzpy  # noqa: E402
from xyzpy.gen import cropping, farming  # noqa: E402
from xyzpy.gen.cropping import Crop, grow  # noqa: E402

assert os.path.abspath(xyzpy.__file__).startswith(
    os.path.abspath(os.getcwd()) + os.sep
), xyzpy.__file__

KILL = 77
N_CHECKS = 0
N_KILLS = 0


# --------------------------------------------------------------------------- #
#                           crash injection machinery                         #
# --------------------------------------------------------------------------- #


class Inject:
    """Counts the file-system operation boundaries that are passed, the
    process dies at boundary number ``target``."""

    def __init__(self, root, target, rev=False):
        self.root = os.path.realpath(root)
        self.target = target
        self.rev = rev
        self.n = 0

    def hit(self):
        self.n += 1
        return self.n == self.target

    def point(self):
        if self.hit():
            os._exit(KILL)

    def mine(self, path):
        if not isinstance(path, (str, bytes, os.PathLike)):
            return False
        p = os.path.realpath(os.fsdecode(os.fspath(path)))
        return p == self.root or p.startswith(self.root + os.sep)


class FileProxy:
    """A binary file being written, that can die in the middle of a write."""

    def __init__(self, f, inj):
        self._f = f
        self._inj = inj

    def write(self, data):
        data = bytes(data)
        n = len(data)
        for cut in (n // 2,):
            if 0 < cut < n and self._inj.hit():
                # a prefix of the data reaches the disk, then we die
                self._f.write(data[:cut])
                self._f.flush()
                os._exit(KILL)
        r = self._f.write(data)
        if self._inj.hit():
            # everything written so far reaches the disk, file never closed
            self._f.flush()
            os._exit(KILL)
        return r

    def close(self):
        if not self._f.closed:
            self._inj.point()  # before close: buffered data is lost
            self._f.close()
            self._inj.point()  # after close
        else:
            self._f.close()

    def __enter__(self):
        return self

    def __exit__(self, *exc):
        self.close()

    def __getattr__(self, name):
        return getattr(self._f, name)


def install(inj):
    """Only ever called in a forked child."""
    real_open = builtins.open
    real_replace = os.replace
    real_remove = os.remove
    real_rmtree = shutil.rmtree
    real_makedirs = os.makedirs

    def open_(file, mode="r", *args, **kwargs):
        if ("w" in mode) and ("b" in mode) and inj.mine(file):
            inj.point()  # before open
            f = real_open(file, mode, *args, **kwargs)
            inj.point()  # after create / truncate
            return FileProxy(f, inj)
        return real_open(file, mode, *args, **kwargs)

    def replace_(src, dst, **kwargs):
        if inj.mine(dst):
            inj.point()  # before rename
            real_replace(src, dst, **kwargs)
            inj.point()  # after rename
        else:
            real_replace(src, dst, **kwargs)

    def remove_(path, **kwargs):
        if inj.mine(path):
            inj.point()
            real_remove(path, **kwargs)
            inj.point()
        else:
            real_remove(path, **kwargs)

    def makedirs_(path, *args, **kwargs):
        if inj.mine(path):
            inj.point()
            real_makedirs(path, *args, **kwargs)
            inj.point()
        else:
            real_makedirs(path, *args, **kwargs)

    def rmtree_(path, *args, **kwargs):
        if not inj.mine(path):
            return real_rmtree(path, *args, **kwargs)

        def rm(d):
            for e in sorted(os.listdir(d), reverse=inj.rev):
                p = os.path.join(d, e)
                if os.path.isdir(p) and not os.path.islink(p):
                    rm(p)
                else:
                    inj.point()  # between the deletions
                    real_remove(p)
            inj.point()
            os.rmdir(d)

        rm(path)
        inj.point()

    def wrap_save(real_save, fname_of):
        def save_(obj, name, *args, **kwargs):
            inj.point()  # before the save starts
            if inj.hit():
                # created but nothing written
                real_open(fname_of(name, *args, **kwargs), "wb").close()
                os._exit(KILL)
            if inj.hit():
                # partially written
                real_save(obj, name, *args, **kwargs)
                fname = fname_of(name, *args, **kwargs)
                os.truncate(fname, os.path.getsize(fname) // 2)
                os._exit(KILL)
            real_save(obj, name, *args, **kwargs)
            inj.point()  # after the save finished

        return save_

    def ds_fname(name, engine="h5netcdf", **kwargs):
        return xyzpy.manage.auto_add_extension(name, engine)

    def df_fname(name, engine="pickle", **kwargs):
        return name

    builtins.open = open_
    os.replace = replace_
    os.remove = remove_
    os.makedirs = makedirs_
    shutil.rmtree = rmtree_
    farming.save_ds = wrap_save(farming.save_ds, ds_fname)
    farming.save_df = wrap_save(farming.save_df, df_fname)


def run_killed(root, target, action, rev=False):
    """Run ``action()`` in a forked child that dies at boundary ``target``.
    Returns 'killed', or 'done' if the action finished before that."""
    global N_KILLS
    sys.stdout.flush()
    sys.stderr.flush()
    pid = os.fork()
    if pid == 0:
        code = 1
        try:
            install(Inject(root, target, rev))
            action()
            code = 0
        except BaseException:
            traceback.print_exc()
            sys.stderr.flush()
        finally:
            os._exit(code)
    _, status = os.waitpid(pid, 0)
    code = os.waitstatus_to_exitcode(status)
    if code == 0:
        return "done"
    if code == KILL:
        N_KILLS += 1
        return "killed"
    raise AssertionError("child failed with exit code {}".format(code))


def check(cond, msg):
    global N_CHECKS
    N_CHECKS += 1
    if not cond:
        raise AssertionError(msg)


# --------------------------------------------------------------------------- #
#                                 scenarios                                   #
# --------------------------------------------------------------------------- #

from xyzpy.gen.cropping import XYZError  # noqa: E402
from xyzpy.manage import load_ds, load_df, auto_add_extension  # noqa: E402


def fn_num(a, b):
    return a * 10 + b


def fn_arr(a, b):
    return np.arange(3) * a + b, a * 10 + b


COMBOS = {"a": [1, 2, 3], "b": [10, 20]}
OLD_COMBOS = {"a": [7, 8], "b": [10, 20]}


def make_runner_arr():
    return xyzpy.Runner(fn_arr, var_names=["x", "y"], var_dims={"x": ["t"]},
                        var_coords={"t": [0, 1, 2]})


class HarvesterScenario:
    """A crop of a Harvester, reaped and merged into an on-disk dataset that
    already holds other data."""

    def __init__(self, name, crop_opts, engine, overwrite=None):
        self.name = name
        self.crop_opts = crop_opts
        self.engine = engine
        self.overwrite = overwrite

    def farmer(self, root):
        return xyzpy.Harvester(
            make_runner_arr(),
            data_name=os.path.join(root, "data"),
            engine=self.engine,
        )

    def data_file(self, root):
        return auto_add_extension(os.path.join(root, "data"), self.engine)

    def crop(self, root):
        return self.farmer(root).Crop(
            name="c", parent_dir=root, **self.crop_opts
        )

    def prepare(self, root):
        self.farmer(root).harvest_combos(OLD_COMBOS, verbosity=0)
        check(os.path.isfile(self.data_file(root)), "no data file")

    def sow(self, crop):
        crop.sow_combos(COMBOS, verbosity=0)

    def grow(self, crop):
        crop.grow_missing(verbosity=0)

    def reap(self, crop):
        return crop.reap(overwrite=self.overwrite)

    def on_disk(self, root):
        return load_ds(self.data_file(root), engine=self.engine)

    def survives(self, root):
        """The previously merged data is all there."""
        ds = self.on_disk(root)
        for a in OLD_COMBOS["a"]:
            for b in OLD_COMBOS["b"]:
                x, y = fn_arr(a, b)
                check(float(ds["y"].sel(a=a, b=b)) == y, "old y lost")
                check(np.array_equal(ds["x"].sel(a=a, b=b).values, x),
                      "old x lost")

    def survives_naive_reap(self, root):
        self.survives(root)

    def final(self, root, reaped):
        return self.on_disk(root)

    def same_reaped(self, x, y):
        return x.identical(y)

    def same_final(self, x, y):
        return x.identical(y)

    def merge_landed(self, root):
        return False

    def n_leftovers_ok(self, root):
        # at most the one well known staging file may be left behind
        extra = set(os.listdir(root)) - {
            os.path.basename(self.data_file(root)), ".xyz-c"
        }
        return extra <= {os.path.basename(self.data_file(root)) + ".tmp"}


class SamplerScenario(HarvesterScenario):
    """A crop of a Sampler, reaped and appended to an on-disk dataframe that
    already holds other rows."""

    N_OLD = 3
    N_NEW = 5

    def farmer(self, root):
        return xyzpy.Sampler(
            xyzpy.Runner(fn_num, var_names=["y"]),
            data_name=self.data_file(root),
            default_combos=COMBOS,
            engine=self.engine,
        )

    def data_file(self, root):
        return os.path.join(root, "samples." + self.engine)

    def prepare(self, root):
        np.random.seed(0)
        self.farmer(root).sample_combos(self.N_OLD, verbosity=0)
        old = self.on_disk(root)
        check(len(old) == self.N_OLD, "old rows")
        if not hasattr(self, "old"):
            self.old = old
        check(self.old.equals(old), "old rows should be reproducible")

    def sow(self, crop):
        crop.sow_samples(self.N_NEW, verbosity=0)

    def reap(self, crop):
        return crop.reap()

    def on_disk(self, root):
        return load_df(self.data_file(root), engine=self.engine)

    def rows_valid(self, df):
        return (
            sorted(df.columns) == ["a", "b", "y"]
            and all(a in COMBOS["a"] for a in df["a"])
            and all(b in COMBOS["b"] for b in df["b"])
            and all(df["y"] == df["a"] * 10 + df["b"])
        )

    def survives(self, root):
        df = self.on_disk(root)
        check(len(df) >= self.N_OLD, "old rows lost")
        check(
            df.iloc[:self.N_OLD].reset_index(drop=True).equals(self.old),
            "old rows changed",
        )
        check(self.rows_valid(df), "invalid rows on disk")
        check(len(df) in (self.N_OLD, self.N_OLD + self.N_NEW),
              "partly merged rows on disk")

    def survives_naive_reap(self, root):
        # (a second reap of an already merged crop appends its rows again)
        df = self.on_disk(root)
        check(
            df.iloc[:self.N_OLD].reset_index(drop=True).equals(self.old),
            "old rows lost by naive reap",
        )
        check(self.rows_valid(df), "invalid rows after naive reap")

    def same_reaped(self, x, y):
        # the sampled points are random, but the rows must be right
        return len(x) == self.N_NEW and self.rows_valid(x)

    def same_final(self, x, y):
        return (
            len(x) == self.N_OLD + self.N_NEW
            and self.rows_valid(x)
            and x.iloc[:self.N_OLD].reset_index(drop=True).equals(self.old)
        )

    def merge_landed(self, root):
        # appending is not idempotent: if the new rows are already in the file
        # the reap is over and only the left-overs of the crop are removed
        return len(self.on_disk(root)) == self.N_OLD + self.N_NEW


def sown_files_complete(crop):
    """Is everything that sowing writes there?"""
    loc = crop.location
    if not (
        crop.is_prepared()
        and os.path.isfile(os.path.join(loc, cropping.FNCT_NM))
        and os.path.isdir(os.path.join(loc, "batches"))
        and os.path.isdir(os.path.join(loc, "results"))
    ):
        return False
    info = crop.load_info()
    return all(
        os.path.isfile(
            os.path.join(loc, "batches", cropping.BTCH_NM.format(i))
        )
        for i in range(1, info["num_batches"] + 1)
    )


def recover(sc, root):
    """The documented recovery."""
    crop = sc.crop(root)
    if sc.merge_landed(root):
        if os.path.exists(crop.location):
            shutil.rmtree(crop.location)
        return None
    if not sown_files_complete(crop):
        sc.sow(crop)
    crop.check_bad(delete_bad=True)
    sc.grow(crop)
    return sc.reap(crop)


def uninterrupted(sc):
    with tempfile.TemporaryDirectory() as root:
        sc.prepare(root)
        crop = sc.crop(root)
        sc.sow(crop)
        sc.grow(crop)
        res = sc.reap(crop)
        check(not os.path.exists(crop.location), "crop not cleaned up")
        check(sc.n_leftovers_ok(root) and not any(
            f.endswith(".tmp") for f in os.listdir(root)), "left-overs")
        return res, sc.final(root, res)


def setup_phase(sc, root, phase):
    sc.prepare(root)
    crop = sc.crop(root)
    if phase in ("grow", "reap"):
        sc.sow(crop)
    if phase in ("reap",):
        sc.grow(crop)


def phase_action(sc, root, phase, expected):
    def action():
        crop = sc.crop(root)
        if phase == "sow":
            sc.sow(crop)
        elif phase == "grow":
            sc.grow(crop)
        elif phase == "reap":
            res = sc.reap(crop)
            assert sc.same_reaped(res, expected[0]), "child reaped wrong data"
            assert sc.same_final(sc.final(root, res), expected[1]), \
                "child synced wrong data"
        else:
            raise ValueError(phase)

    return action


def naive_reap_check(sc, root, expected, what):
    """Reaping a crashed crop refuses or is exact."""
    with tempfile.TemporaryDirectory() as tmp:
        copy = os.path.join(tmp, "copy")
        shutil.copytree(root, copy)
        try:
            res = sc.reap(sc.crop(copy))
        except Exception:
            pass
        else:
            check(sc.same_reaped(res, expected[0]),
                  "{}: naive reap returned wrong data".format(what))
            if not sc.merge_landed(root):
                check(sc.same_final(sc.final(copy, res), expected[1]),
                      "{}: naive reap synced wrong data".format(what))
        # whatever happened, the old data is still there
        sc.survives_naive_reap(copy)


def check_crashed(sc, root, expected, what, second_stride=0):
    check(sc.n_leftovers_ok(root), what + ": unexpected left-overs")
    sc.survives(root)
    naive_reap_check(sc, root, expected, what)

    if second_stride:
        # kill the recovery as well
        j = 1
        while True:
            with tempfile.TemporaryDirectory() as tmp:
                copy = os.path.join(tmp, "copy")
                shutil.copytree(root, copy)
                out = run_killed(copy, j, lambda: recover(sc, copy))
                if out == "done":
                    break
                what2 = "{} + recovery kill {}".format(what, j)
                check_crashed(sc, copy, expected, what2, 0)
            j += second_stride

    res = recover(sc, root)
    if res is not None:
        check(sc.same_reaped(res, expected[0]),
              "{}: recovery reaped wrong data".format(what))
    check(sc.same_final(sc.final(root, res), expected[1]),
          "{}: recovery not exact".format(what))
    sc.survives(root)
    check(not os.path.exists(sc.crop(root).location),
          "{}: crop not cleaned up".format(what))


def crash_everywhere(sc, phases, second=None, rev=False):
    expected = uninterrupted(sc)
    counts = {}
    for phase in phases:
        k = 1
        while True:
            with tempfile.TemporaryDirectory() as root:
                setup_phase(sc, root, phase)
                out = run_killed(
                    root, k, phase_action(sc, root, phase, expected), rev
                )
                if out == "done":
                    if phase != "reap":
                        # finish the job normally
                        res = recover(sc, root)
                        check(sc.same_final(sc.final(root, res), expected[1]),
                              "plain run differs")
                    check(not any(f.endswith(".tmp")
                                  for f in os.listdir(root)), "left-overs")
                    break
                what = "{} / {} / kill {}".format(sc.name, phase, k)
                stride = 0
                if second and (k % second[0] == 0):
                    stride = second[1]
                check_crashed(sc, root, expected, what, stride)
            k += 1
        counts[phase] = k - 1
        check(k - 1 >= 4, "suspiciously few kill points in " + phase)
    print("  {:<28} kill points per phase: {}".format(sc.name, counts))


# --------------------------------------------------------------------------- #
#                  direct tests of the saving of the full data                #
# --------------------------------------------------------------------------- #


def expect_raises(excs, f, what):
    try:
        f()
    except excs:
        check(True, what)
    except Exception as e:
        check(False, "{}: wrong exception {!r}".format(what, e))
    else:
        check(False, "{}: no exception".format(what))


def unit_harvester():
    r = make_runner_arr()
    ds_old = r.run_combos(OLD_COMBOS, verbosity=0).copy(deep=True)
    ds_new = r.run_combos(COMBOS, verbosity=0).copy(deep=True)
    ds_clash = ds_old.copy(deep=True)
    ds_clash["y"] = ds_clash["y"] + 1

    for engine in ("h5netcdf", "joblib"):
        with tempfile.TemporaryDirectory() as root:
            name = os.path.join(root, "full")
            fname = auto_add_extension(name, engine)

            def harvester():
                return xyzpy.Harvester(r, data_name=name, engine=engine)

            def disk():
                return load_ds(fname, engine=engine)

            # no data name -> refuses
            expect_raises(
                XYZError,
                lambda: xyzpy.Harvester(r).save_full_ds(ds_old),
                "no data_name",
            )

            # first save, then re-save of the current data, then new data
            h = harvester()
            h.save_full_ds(ds_old.copy(deep=True))
            check(disk().identical(ds_old), "first save")
            h.save_full_ds()
            check(disk().identical(ds_old), "re-save")
            check(os.listdir(root) == [os.path.basename(fname)], "left-overs")
            h.save_full_ds(ds_new.copy(deep=True))
            check(disk().identical(ds_new), "replaced")
            check(h.full_ds.identical(ds_new), "in memory")
            check(os.listdir(root) == [os.path.basename(fname)], "left-overs")

            # a stale staging file of a killed predecessor does not matter
            with open(fname + ".tmp", "wb") as f:
                f.write(b"garbage")
            h.save_full_ds(ds_old.copy(deep=True))
            check(disk().identical(ds_old), "stale staging file")
            check(os.listdir(root) == [os.path.basename(fname)], "left-overs")

            # engine given explicitly -> other file
            other = "joblib" if engine == "h5netcdf" else "h5netcdf"
            h.save_full_ds(engine=other)
            fother = auto_add_extension(name, other)
            check(load_ds(fother, engine=other).identical(ds_old), "other")
            check(sorted(os.listdir(root)) == sorted(
                [os.path.basename(fname), os.path.basename(fother)]), "files")
            os.remove(fother)

            # merging through add_ds, fresh harvester objects each time
            merged = ds_old.merge(ds_new, compat="no_conflicts")
            harvester().add_ds(ds_new.copy(deep=True))
            check(disk().identical(merged), "add_ds merge")
            harvester().add_ds(ds_new.copy(deep=True))
            check(disk().identical(merged), "add_ds idempotent")
            expect_raises(
                Exception, lambda: harvester().add_ds(ds_clash.copy(deep=True)),
                "conflict refuses",
            )
            check(disk().identical(merged), "conflict leaves file alone")
            harvester().add_ds(ds_clash.copy(deep=True), overwrite=False)
            check(disk().identical(merged), "overwrite=False")
            harvester().add_ds(ds_clash.copy(deep=True), overwrite=True)
            check(disk().identical(ds_clash.combine_first(merged)),
                  "overwrite=True")
            h2 = harvester()
            h2.add_ds(ds_new.copy(deep=True), sync=False)
            check(disk().identical(ds_clash.combine_first(merged)),
                  "sync=False leaves file alone")
            check(os.listdir(root) == [os.path.basename(fname)], "left-overs")

            # kill at every boundary while OLD is replaced by NEW
            k = 1
            while True:
                for f in os.listdir(root):
                    os.remove(os.path.join(root, f))
                harvester().save_full_ds(ds_old.copy(deep=True))
                out = run_killed(
                    root, k,
                    lambda: harvester().save_full_ds(ds_new.copy(deep=True)),
                )
                now = disk()
                if out == "done":
                    check(now.identical(ds_new), "new data")
                    check(os.listdir(root) == [os.path.basename(fname)],
                          "left-overs")
                    break
                check(now.identical(ds_old) or now.identical(ds_new),
                      "torn dataset at kill {}".format(k))
                check(set(os.listdir(root)) <= {
                    os.path.basename(fname), os.path.basename(fname) + ".tmp"
                }, "unexpected files")
                # and the next save just works
                harvester().add_ds(ds_new.copy(deep=True))
                check(disk().identical(
                    now.merge(ds_new, compat="no_conflicts")), "next save")
                k += 1
            check(k - 1 >= 6, "too few kill points")
            print("  Harvester[{}] unit checks ok ({} kill points)".format(
                engine, k - 1))


def unit_sampler():
    old = pd.DataFrame({"a": [1, 2], "b": [10, 20], "y": [20, 40]})
    new = pd.DataFrame({"a": [3, 3, 1], "b": [10, 20, 20], "y": [40, 50, 30]})
    both = pd.concat([old, new], ignore_index=True, sort=True)
    r = xyzpy.Runner(fn_num, var_names=["y"])

    for engine in ("pickle", "csv"):
        with tempfile.TemporaryDirectory() as root:
            name = os.path.join(root, "rows." + engine)

            def sampler():
                return xyzpy.Sampler(r, data_name=name, engine=engine,
                                     default_combos=COMBOS)

            def disk():
                return load_df(name, engine=engine)

            s = sampler()
            s.save_full_df(old.copy())
            check(disk().equals(old), "first save")
            s.save_full_df()
            check(disk().equals(old), "re-save")
            s.save_full_df(new.copy())
            check(disk().equals(new), "replace")
            check(s.full_df.equals(new), "in memory")
            check(os.listdir(root) == [os.path.basename(name)], "left-overs")

            with open(name + ".tmp", "wb") as f:
                f.write(b"garbage")
            s.save_full_df(old.copy())
            check(disk().equals(old), "stale staging file")
            check(os.listdir(root) == [os.path.basename(name)], "left-overs")

            sampler().add_df(new.copy())
            check(disk().equals(both), "add_df appends")
            s3 = sampler()
            s3.add_df(new.copy(), sync=False)
            check(disk().equals(both), "sync=False leaves file alone")
            sampler().add_df({"a": [2], "b": [10], "y": [30]})
            check(len(disk()) == 6 and disk().iloc[:5].equals(both),
                  "add_df with a dict")

            k = 1
            while True:
                for f in os.listdir(root):
                    os.remove(os.path.join(root, f))
                sampler().save_full_df(old.copy())
                out = run_killed(
                    root, k, lambda: sampler().add_df(new.copy())
                )
                now = disk()
                if out == "done":
                    check(now.equals(both), "new rows")
                    check(os.listdir(root) == [os.path.basename(name)],
                          "left-overs")
                    break
                check(now.equals(old) or now.equals(both),
                      "torn dataframe at kill {}".format(k))
                check(set(os.listdir(root)) <= {
                    os.path.basename(name), os.path.basename(name) + ".tmp"
                }, "unexpected files")
                k += 1
            check(k - 1 >= 6, "too few kill points")
            print("  Sampler[{}] unit checks ok ({} kill points)".format(
                engine, k - 1))


def main():
    unit_harvester()
    unit_sampler()

    crash_everywhere(
        HarvesterScenario("harvester/h5netcdf/bs=2", dict(batchsize=2),
                          "h5netcdf"),
        ["grow", "reap"],
        second=(8, 6),
    )
    crash_everywhere(
        HarvesterScenario("harvester/joblib/nb=4/ow", dict(num_batches=4),
                          "joblib", overwrite=True),
        ["sow", "reap"],
        rev=True,
    )
    crash_everywhere(
        SamplerScenario("sampler/pickle/bs=2", dict(batchsize=2), "pickle"),
        ["sow", "grow", "reap"],
        second=(8, 6),
        rev=True,
    )
    crash_everywhere(
        SamplerScenario("sampler/csv/nb=2", dict(num_batches=2), "csv"),
        ["reap"],
    )
    print("{} kills, {} checks".format(N_KILLS, N_CHECKS))
    print("PASS")


if __name__ == "__main__":
    main()
