"""Demo for property C11: concurrent growers and a waiting reaper agree.

Run as ``cd <worktree> && /venv/bin/python /path/to/demo.py``.  Prints PASS
and exits 0 when every check holds.
"""
import os
import sys

sys.path.insert(0, os.getcwd())

import contextlib
import fnmatch
import glob
import io
import logging
import math
import pickle
import random
import shutil
import subprocess
import tempfile
import threading
import time
import types

import xyzpy
from xyzpy.gen import cropping
from xyzpy.gen.cropping import (
    BTCH_NM,
    RSLT_NM,
    Crop,
    Reaper,
    XYZError,
    grow,
    read_from_disk,
    write_to_disk,
)

assert os.path.dirname(os.path.dirname(os.path.abspath(xyzpy.__file__))) == (
    os.path.abspath(os.getcwd())
), xyzpy.__file__

NCHECKS = 0


def check(cond, msg="check failed"):
    global NCHECKS
    NCHECKS += 1
    if not cond:
        raise AssertionError(msg)


@contextlib.contextmanager
def raises(exc, match=None):
    try:
        yield
    except exc as e:
        if match is not None:
            check(match in str(e), "{!r} not in {!r}".format(match, str(e)))
        check(True)
    else:
        raise AssertionError("{} not raised".format(exc))


# ------------------------------------------------------------------------- #
# a result type whose pickling can be paused half way through a dump         #
# ------------------------------------------------------------------------- #


HELPERS = r'''
import threading


class Gate:
    def __init__(self):
        self.entered = threading.Semaphore(0)
        self.release = threading.Event()
        self.timed_out = False


GATE = None


class Slow:
    """Result which pauses *inside* ``pickle.dump`` while a gate is set."""

    def __init__(self, a, b, pad=b""):
        self.a, self.b, self.pad = a, b, pad

    def __eq__(self, other):
        return (
            isinstance(other, Slow)
            and (self.a, self.b, self.pad) == (other.a, other.b, other.pad)
        )

    def __repr__(self):
        return "Slow({}, {})".format(self.a, self.b)

    def __reduce__(self):
        g = GATE
        is_grower = threading.current_thread().name.startswith("grower")
        if (g is not None) and is_grower and self.b == 99:
            g.entered.release()
            if not g.release.wait(60):
                g.timed_out = True
        return (Slow, (self.a, self.b, self.pad))
'''

# the helpers live in a real (if synthetic) module so that they are always
# pickled by reference, however the function using them is shipped around
helpers = types.ModuleType("xyz_c11_demo_helpers")
exec(HELPERS, helpers.__dict__)
sys.modules[helpers.__name__] = helpers
Gate, Slow = helpers.Gate, helpers.Slow


def fn_num(a, b):
    return 10 * a + b


def fn_slow(a, b):
    # large padding means the pickler flushes the early results to the
    # file before it reaches the gated one
    return Slow(a, b, bytes([a % 251]) * 70000)


def fn_jitter(a, b):
    time.sleep(random.random() * 0.01)
    return (a, b, a * b + 0.5)


def direct(fn, combos):
    return tuple(tuple(fn(a, b) for b in combos["b"]) for a in combos["a"])


def results_dir(crop):
    return os.path.join(crop.location, "results")


def listing(crop):
    return sorted(os.listdir(results_dir(crop)))


def finished_names(crop):
    return [x for x in listing(crop) if x.endswith(".jbdmp")]


def tmp_names(crop):
    return [x for x in listing(crop) if x.endswith(".tmp")]


def start(name, target, *args, **kwargs):
    box = {}

    def run():
        try:
            box["value"] = target(*args, **kwargs)
        except BaseException as e:  # noqa
            box["error"] = e

    t = threading.Thread(target=run, name=name, daemon=True)
    t.box = box
    t.start()
    return t


def finish(t, timeout=120):
    t.join(timeout)
    check(not t.is_alive(), "thread {} hung".format(t.name))
    if "error" in t.box:
        raise t.box["error"]
    return t.box.get("value")


class Poller:
    """Keeps asking for progress and checks that everything which is counted
    as finished really can be loaded in full."""

    def __init__(self, crop, sizes):
        self.crop = crop
        self.sizes = sizes
        self.stop = threading.Event()
        self.seen = []
        self.thread = start("poller", self.run)

    def run(self):
        last = 0
        while True:
            stopping = self.stop.is_set()
            n = self.crop.num_results
            files = glob.glob(
                os.path.join(results_dir(self.crop), RSLT_NM.format("*"))
            )
            # results only ever appear, each one complete
            check(n >= last, "progress went backwards")
            check(len(files) >= n)
            for f in files:
                i = int(os.path.basename(f).split("-")[2].split(".")[0])
                res = read_from_disk(f)
                check(isinstance(res, tuple) and len(res) == self.sizes[i])
            missing = self.crop.missing_results()
            check(len(missing) <= len(self.sizes) - n)
            check(self.crop.is_ready_to_reap() or n < len(self.sizes))
            last = n
            self.seen.append(n)
            if stopping:
                return
            time.sleep(0.002)

    def finish(self):
        self.stop.set()
        finish(self.thread)
        return self.seen


# ------------------------------------------------------------------------- #
# 1. the writer itself                                                        #
# ------------------------------------------------------------------------- #


def test_write_to_disk(tmp):
    d = os.path.join(tmp, "w")
    os.makedirs(d)
    fname = os.path.join(d, RSLT_NM.format(1))

    write_to_disk((1, 2, 3), fname)
    check(os.listdir(d) == [RSLT_NM.format(1)])
    check(read_from_disk(fname) == (1, 2, 3))

    # overwriting replaces the whole file, leaves nothing else behind
    write_to_disk(("x",), fname)
    check(os.listdir(d) == [RSLT_NM.format(1)])
    check(read_from_disk(fname) == ("x",))

    # observe the directory at the moment of the rename
    seen = []
    real_replace = os.replace

    def spy(src, dst):
        seen.append((src, dst, sorted(os.listdir(d)), read_from_disk(src)))
        return real_replace(src, dst)

    os.replace = spy
    try:
        write_to_disk({"k": [1.5]}, os.path.join(d, RSLT_NM.format(2)))
    finally:
        os.replace = real_replace
    check(len(seen) == 1)
    src, dst, names, content = seen[0]
    check(dst == os.path.join(d, RSLT_NM.format(2)))
    check(os.path.dirname(src) == d)
    base = os.path.basename(src)
    check(base.startswith(RSLT_NM.format(2) + ".{}-".format(os.getpid())))
    check(base.endswith(".tmp"))
    check(len(base) == len(RSLT_NM.format(2)) + len(str(os.getpid())) + 38)
    check(names == sorted([RSLT_NM.format(1), base]))
    check(content == {"k": [1.5]})
    check(not fnmatch.fnmatch(base, RSLT_NM.format("*")))
    check(sorted(os.listdir(d)) == [RSLT_NM.format(1), RSLT_NM.format(2)])

    # a failing dump never touches the destination
    with raises((pickle.PicklingError, AttributeError, TypeError)):
        write_to_disk((lambda: 1,), fname)
    check(read_from_disk(fname) == ("x",))
    left = [x for x in os.listdir(d) if x.endswith(".tmp")]
    check(len(left) == 1 and left[0].startswith(RSLT_NM.format(1) + "."))
    check(
        glob.glob(os.path.join(d, RSLT_NM.format("*")))
        and len(glob.glob(os.path.join(d, RSLT_NM.format("*")))) == 2
    )

    # writing into a missing directory fails on the open
    with raises(FileNotFoundError):
        write_to_disk(1, os.path.join(d, "nope", "f"))


# ------------------------------------------------------------------------- #
# 2. a grower paused in the middle of writing its result                      #
# ------------------------------------------------------------------------- #


def test_partial_write(tmp):
    combos = {"a": [1, 2], "b": [7, 99]}
    expected = direct(fn_slow, combos)

    for nb in (1, 2):
        crop = Crop(
            fn=fn_slow, name="partial{}".format(nb), parent_dir=tmp,
            num_batches=nb,
        )
        crop.sow_combos(combos, verbosity=0)
        check(crop.num_sown_batches == nb and crop.num_results == 0)

        reaper = start(
            "reaper", crop.reap_combos, wait=True, clean_up=False
        )
        watcher = Crop(name=crop.name, parent_dir=tmp)

        helpers.GATE = gate = Gate()
        growers = [
            start(
                "grower-{}".format(i), grow, i,
                crop=crop, fn=fn_slow, verbosity=0,
            )
            for i in range(1, nb + 1)
        ]
        for _ in growers:
            check(gate.entered.acquire(timeout=60), "grower never wrote")

        # every grower is now stuck part way through pickle.dump
        tmps = tmp_names(crop)
        check(len(tmps) == nb, tmps)
        check(finished_names(crop) == [])
        for t in tmps:
            path = os.path.join(results_dir(crop), t)
            check(os.path.getsize(path) > 0, "nothing flushed yet")
            with raises((EOFError, pickle.UnpicklingError)):
                read_from_disk(path)
        check(watcher.num_results == 0)
        check(crop.num_results == 0)
        check(not watcher.is_ready_to_reap())
        check(watcher.missing_results() == tuple(range(1, nb + 1)))
        with raises(XYZError, "not ready to reap"):
            watcher.reap_combos(clean_up=False)
        with raises(XYZError, "at least one finished result"):
            Crop(name=crop.name, parent_dir=tmp).reap_combos(
                allow_incomplete=True
            )
        time.sleep(0.5)
        check(reaper.is_alive(), "reaper returned before any result")
        check("value" not in reaper.box and "error" not in reaper.box)

        gate.release.set()
        for g in growers:
            finish(g)
        helpers.GATE = None
        check(not gate.timed_out)

        check(finish(reaper) == expected)
        check(tmp_names(crop) == [])
        check(
            finished_names(crop)
            == [RSLT_NM.format(i) for i in range(1, nb + 1)]
        )
        check(watcher.num_results == nb and watcher.is_ready_to_reap())
        check(watcher.missing_results() == ())
        check(watcher.reap_combos() == expected)
        check(not os.path.exists(crop.location))


def test_same_batch_twice(tmp):
    combos = {"a": [1, 2, 3], "b": [99]}
    expected = direct(fn_slow, combos)

    crop = Crop(fn=fn_slow, name="twice", parent_dir=tmp, batchsize=2)
    crop.sow_combos(combos, verbosity=0)
    check(crop.num_sown_batches == 2)
    # batch two is grown up front, batch one by two workers at once
    grow(2, crop=crop, fn=fn_slow, verbosity=0)
    check(crop.num_results == 1 and crop.missing_results() == (1,))

    reaper = start("reaper", crop.reap_combos, wait=True, clean_up=False)
    helpers.GATE = gate = Gate()
    g1 = start("grower-a", grow, 1, crop=crop, fn=fn_slow, verbosity=0)
    g2 = start("grower-b", grow, 1, crop=crop, fn=fn_slow, verbosity=0)
    for _ in range(2):
        check(gate.entered.acquire(timeout=60))
    tmps = tmp_names(crop)
    check(len(tmps) == 2 and len(set(tmps)) == 2)
    check(all(t.startswith(RSLT_NM.format(1) + ".") for t in tmps))
    check(finished_names(crop) == [RSLT_NM.format(2)])
    check(crop.num_results == 1 and not crop.is_ready_to_reap())

    # stand-ins are used for the unfinished batch, never the partial file
    partial = Crop(name="twice", parent_dir=tmp).reap_combos(
        allow_incomplete=True
    )
    check(partial[2] == expected[2])
    for row in partial[:2]:
        check(len(row) == 1 and not isinstance(row[0], Slow))
    time.sleep(0.3)
    check(reaper.is_alive())

    gate.release.set()
    finish(g1)
    finish(g2)
    helpers.GATE = None
    check(not gate.timed_out)
    check(finish(reaper) == expected)
    check(tmp_names(crop) == [])
    check(finished_names(crop) == [RSLT_NM.format(1), RSLT_NM.format(2)])
    check(crop.reap_combos(wait=True) == expected)
    check(not os.path.exists(crop.location))


# ------------------------------------------------------------------------- #
# 3. free running threads and processes                                       #
# ------------------------------------------------------------------------- #


def batch_sizes(crop, nb):
    return {
        i: len(
            read_from_disk(
                os.path.join(crop.location, "batches", BTCH_NM.format(i))
            )
        )
        for i in range(1, nb + 1)
    }


def test_random_schedules(tmp):
    combos = {"a": [1, 2, 3, 4, 5], "b": [0, 1]}
    expected = direct(fn_jitter, combos)

    for seed in range(6):
        rng = random.Random(seed)
        nb = rng.choice([1, 2, 3])
        ngrowers = rng.choice([1, 2, 3])
        crop = Crop(
            fn=fn_jitter, name="rand{}".format(seed), parent_dir=tmp,
            num_batches=nb, shuffle=(seed % 2 == 1),
        )
        crop.sow_combos(combos, verbosity=0, shuffle=(seed % 2 == 1))
        sizes = batch_sizes(crop, nb)
        check(sum(sizes.values()) == 10)

        # every batch gets grown at least once, some of them twice
        jobs = [[] for _ in range(ngrowers)]
        todo = list(range(1, nb + 1)) + [rng.randint(1, nb)]
        rng.shuffle(todo)
        for k, b in enumerate(todo):
            jobs[k % ngrowers].append(b)

        reaper = start("reaper", crop.reap_combos, wait=True, clean_up=False)
        poller = Poller(Crop(name=crop.name, parent_dir=tmp), sizes)

        def work(batches, delay):
            time.sleep(delay)
            for b in batches:
                grow(b, crop=crop, verbosity=0)

        growers = [
            start("grower-{}".format(k), work, js, rng.random() * 0.05)
            for k, js in enumerate(jobs)
        ]
        got = finish(reaper)
        for g in growers:
            finish(g)
        seen = poller.finish()
        check(got == expected, "seed {}".format(seed))
        check(seen[-1] == nb and seen == sorted(seen))
        check(tmp_names(crop) == [])
        check(crop.reap_combos() == expected)


CHILD = """
import os, sys, time
sys.path.insert(0, os.getcwd())
from xyzpy.gen.cropping import Crop, grow
time.sleep(float(sys.argv[3]))
crop = Crop(name=sys.argv[1], parent_dir=sys.argv[2])
for b in sys.argv[4:]:
    grow(int(b), crop=crop, verbosity=0)
"""


def test_processes(tmp):
    combos = {"a": [1, 2, 3], "b": [4, 5]}
    expected = direct(fn_num, combos)

    crop = Crop(fn=fn_num, name="procs", parent_dir=tmp, num_batches=3)
    crop.sow_combos(combos, verbosity=0)
    reaper = start("reaper", crop.reap_combos, wait=True, clean_up=False)
    poller = Poller(Crop(name="procs", parent_dir=tmp), {1: 2, 2: 2, 3: 2})
    procs = [
        subprocess.Popen(
            [sys.executable, "-c", CHILD, "procs", tmp, delay] + batches
        )
        for delay, batches in [
            ("0.0", ["3", "1"]),
            ("0.1", ["1", "2"]),
            ("0.2", ["2", "3"]),
        ]
    ]
    got = finish(reaper)
    for p in procs:
        check(p.wait(120) == 0)
    seen = poller.finish()
    check(got == expected)
    check(seen[-1] == 3)
    check(tmp_names(crop) == [])
    check(listing(crop) == [RSLT_NM.format(i) for i in (1, 2, 3)])

    # to a dataset via the runner as well
    r = xyzpy.Runner(fn_num, var_names="out")
    rcrop = r.Crop(name="procs2", parent_dir=tmp, batchsize=4)
    rcrop.sow_combos(combos, verbosity=0)
    t = start("reaper", rcrop.reap, wait=True)
    time.sleep(0.1)
    g = [start("grower-{}".format(i), rcrop.grow, i) for i in (2, 1, 2)]
    ds = finish(t)
    for x in g:
        finish(x)
    check(ds["out"].values.tolist() == [list(row) for row in expected])


# ------------------------------------------------------------------------- #
# 4. the reaper's loading rules                                               #
# ------------------------------------------------------------------------- #


def test_reaper_rules(tmp):
    combos = {"a": [1, 2, 3, 4, 5], "b": [6]}
    expected = direct(fn_num, combos)
    crop = Crop(fn=fn_num, name="rules", parent_dir=tmp, num_batches=3)
    crop.sow_combos(combos, verbosity=0)
    sizes = batch_sizes(crop, 3)
    check(sizes == {1: 2, 2: 2, 3: 1})

    def rfile(i):
        return os.path.join(results_dir(crop), RSLT_NM.format(i))

    # nothing grown
    with raises(XYZError, "not ready to reap"):
        crop.reap_combos()
    with raises(XYZError, "at least one finished result"):
        crop.reap_combos(allow_incomplete=True)
    with raises(FileNotFoundError):
        with Reaper(crop, num_batches=3) as r:
            r()

    # constructing a waiting reaper neither blocks nor touches anything
    r = Reaper(crop, num_batches=3, wait=True)
    check(r.crop is crop and r.__enter__() is r)

    crop.grow(2)
    got = crop.reap_combos(allow_incomplete=True)
    check(got[2:4] == expected[2:4])
    check(all(len(row) == 1 and math.isnan(row[0]) for row in got[:2]))
    check(math.isnan(got[4][0]))
    check(os.path.exists(crop.location))

    # explicit stand-in, including ``None``, sized like the sown batch
    for default in (None, "gap", 0.0):
        with Reaper(crop, num_batches=3, default_result=default) as r:
            vals = [r(a=1, b=2) for _ in range(5)]
        check(vals == [default] * 2 + [36, 46] + [default])
    # ... but a waiting reaper ignores the stand-in and only takes the file
    with Reaper(crop, 3, wait=True, default_result="gap") as r:
        t = start("reaper", lambda: [r() for _ in range(5)])
        time.sleep(0.45)
        check(t.is_alive())
        crop.grow((3, 1))
        check(finish(t) == [16, 26, 36, 46, 56])

    # leaving results behind is an error
    with raises(XYZError, "Not all results reaped!"):
        with Reaper(crop, num_batches=3) as r:
            check([r(), r()] == [16, 26])
    # asking for too many as well
    with raises(StopIteration):
        with Reaper(crop, num_batches=1) as r:
            r(), r(), r()
    check(crop.reap_combos(clean_up=False) == expected)
    check(crop.reap_combos(wait=True, clean_up=False) == expected)
    check(
        crop.reap_combos(wait=True, allow_incomplete=True, clean_up=False)
        == expected
    )

    # bad result contents
    for bad in ((), None, []):
        write_to_disk(bad, rfile(2))
        for wait in (False, True):
            with raises(ValueError, "no data upon read from disk"):
                crop.reap_combos(wait=wait, clean_up=False)
            with raises(ValueError, rfile(2)):
                crop.reap_combos(
                    wait=wait, allow_incomplete=True, clean_up=False
                )
    # a directory where the result should be
    os.remove(rfile(2))
    os.mkdir(rfile(2))
    with raises(ValueError, "{} is not a file.".format(rfile(2))):
        crop.reap_combos(wait=True, clean_up=False)
    with raises(IsADirectoryError):
        crop.reap_combos(clean_up=False)
    got = crop.reap_combos(allow_incomplete=True, clean_up=False)
    check(got[:2] == expected[:2] and got[4] == expected[4])
    check(math.isnan(got[2][0]) and math.isnan(got[3][0]))
    check(crop.missing_results() == (2,))
    check(crop.num_results == 3)
    os.rmdir(rfile(2))
    check(crop.num_results == 2 and not crop.is_ready_to_reap())
    crop.grow_missing()
    check(crop.reap_combos() == expected)
    check(not os.path.exists(crop.location))

    # a stray temporary file is neither progress nor a result
    crop = Crop(fn=fn_num, name="stray", parent_dir=tmp, batchsize=5)
    crop.sow_combos(combos, verbosity=0)
    stray = rfile(1) + ".123-abc.tmp"
    with open(stray, "wb") as f:
        f.write(b"\x80\x04partial")
    check(crop.num_results == 0 and crop.missing_results() == (1,))
    with raises(XYZError, "not ready to reap"):
        crop.reap_combos()
    t = start("reaper", crop.reap_combos, wait=True, clean_up=False)
    time.sleep(0.3)
    check(t.is_alive())
    crop.grow(1)
    check(finish(t) == expected)
    check(tmp_names(crop) == [os.path.basename(stray)])
    check(crop.num_results == 1)


# ------------------------------------------------------------------------- #
# 5. the grower's options                                                     #
# ------------------------------------------------------------------------- #


def capture(f, *args, **kwargs):
    out, err = io.StringIO(), io.StringIO()
    with contextlib.redirect_stdout(out), contextlib.redirect_stderr(err):
        f(*args, **kwargs)
    return out.getvalue(), err.getvalue()


def test_grow_options(tmp):
    combos = {"a": [1, 2], "b": [3, 4]}
    expected = direct(fn_num, combos)
    crop = Crop(fn=fn_num, name="opts", parent_dir=tmp, num_batches=2)
    crop.sow_combos(combos, verbosity=0)

    def rfile(i):
        return os.path.join(results_dir(crop), RSLT_NM.format(i))

    # verbosity
    out, err = capture(grow, 1, crop=crop, verbosity=0)
    check(out == "" and err == "")
    check(read_from_disk(rfile(1)) == (13, 14))
    os.remove(rfile(1))
    out, err = capture(grow, 1, crop=crop, verbosity=1)
    check(
        out
        == "xyzpy: loaded batch 1 of opts.\n"
        "xyzpy: success - batch 1 completed.\n"
    )
    check("2/2" in err and "'a': 1" not in err)
    out, err = capture(grow, 2, crop=crop)
    check("loaded batch 2 of opts" in out and "batch 2 completed" in out)
    check("{'a': 2, 'b': 4}" in err or "{'b': 4, 'a': 2}" in err)
    check(read_from_disk(rfile(2)) == (23, 24))

    # explicit function overrides the stored one
    grow(2, crop=crop, fn=lambda a, b: (a, b), verbosity=0)
    check(read_from_disk(rfile(2)) == ((2, 3), (2, 4)))
    grow(2, crop=crop, verbosity=0)

    # mpi ranks: only rank zero saves
    saved = dict(os.environ)
    try:
        for var in ("OMPI_COMM_WORLD_RANK", "PMI_RANK"):
            for rank, check_mpi, written in [
                ("1", True, False), ("0", True, True), ("3", False, True),
            ]:
                os.remove(rfile(1))
                os.environ[var] = rank
                out, _ = capture(
                    grow, 1, crop=crop, verbosity=1, check_mpi=check_mpi
                )
                check(os.path.exists(rfile(1)) == written)
                check(
                    ("xyzpy: detected mpi rank {}.".format(rank) in out)
                    == check_mpi
                )
                check("batch 1 completed" in out)
                check(tmp_names(crop) == [])
                del os.environ[var]
                if not written:
                    check(crop.num_results == 1)
                    grow(1, crop=crop, verbosity=0)
        # the first variable wins
        os.environ["OMPI_COMM_WORLD_RANK"] = "0"
        os.environ["PMI_RANK"] = "5"
        os.remove(rfile(1))
        out, _ = capture(grow, 1, crop=crop, verbosity=1)
        check("detected mpi rank 0." in out and os.path.exists(rfile(1)))
    finally:
        os.environ.clear()
        os.environ.update(saved)

    # debugging flag
    root = logging.getLogger()
    level = root.level
    try:
        root.setLevel(logging.WARNING)
        grow(1, crop=crop, verbosity=0)
        check(root.level == logging.WARNING)
        grow(1, crop=crop, verbosity=0, debugging=True)
        check(root.level == logging.DEBUG)
    finally:
        root.setLevel(level)

    # pool of workers
    os.remove(rfile(1))
    grow(1, crop=crop, verbosity=0, num_workers=2)
    check(read_from_disk(rfile(1)) == (13, 14))
    try:
        cropping.get_reusable_executor().shutdown(wait=True)
    except Exception:
        pass

    # a failing function writes nothing at all
    def boom(a, b):
        raise RuntimeError("boom")

    os.remove(rfile(1))
    with raises(RuntimeError, "boom"):
        grow(1, crop=crop, fn=boom, verbosity=0)
    check(listing(crop) == [RSLT_NM.format(2)])
    with raises(FileNotFoundError):
        grow(7, crop=crop, verbosity=0)
    check(listing(crop) == [RSLT_NM.format(2)])

    # located from the working directory
    cwd = os.getcwd()
    try:
        os.chdir(tmp)
        with raises(XYZError, "`grow` should be run in a"):
            grow(1, verbosity=0)
        os.chdir(crop.location)
        out, _ = capture(grow, 1, verbosity=1)
        check("loaded batch 1 of opts." in out)
    finally:
        os.chdir(cwd)
    check(read_from_disk(rfile(1)) == (13, 14))

    # empty batch
    bfile = os.path.join(crop.location, "batches", BTCH_NM.format(1))
    good = read_from_disk(bfile)
    write_to_disk([], bfile)
    os.remove(rfile(1))
    with raises(ValueError, "loading of batch xyz-batch-1.jbdmp for the"):
        grow(1, crop=crop, verbosity=0)
    try:
        os.chdir(crop.location)
        with raises(AttributeError):
            grow(1, verbosity=0)
    finally:
        os.chdir(cwd)
    check(not os.path.exists(rfile(1)))
    write_to_disk(good, bfile)
    crop.grow_missing()
    check(crop.reap_combos() == expected)

    # progress of a crop that is not there
    ghost = Crop(name="ghost", parent_dir=tmp)
    check(ghost.num_results == -1 and ghost.num_sown_batches == -1)
    check(not ghost.is_ready_to_reap())
    with raises(TypeError):
        ghost.missing_results()
    ghost = Crop(name="ghost", parent_dir=tmp, num_batches=2)
    check(ghost.missing_results() == (1, 2))


def main():
    tmp = tempfile.mkdtemp(prefix="xyz-c11-demo-")
    # progress bars go to stderr: keep them, but only show them on failure
    noise = io.StringIO()
    try:
        with contextlib.redirect_stderr(noise):
            test_write_to_disk(tmp)
            test_partial_write(tmp)
            test_same_batch_twice(tmp)
            test_random_schedules(tmp)
            test_processes(tmp)
            test_reaper_rules(tmp)
            test_grow_options(tmp)
    except BaseException:
        sys.stderr.write(noise.getvalue()[-2000:] + "\n")
        raise
    finally:
        shutil.rmtree(tmp, ignore_errors=True)
    print("PASS ({} checks)".format(NCHECKS))


if __name__ == "__main__":
    main()
