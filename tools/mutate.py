#!/usr/bin/env python3
"""AST-computed single-edit mutants of the functions the checks analyse (a gap finder, not a check).

For every function listed in some evidence file's coverage.functions_analysed, small syntactic edits are generated
(comparison / boolean operator swaps, constant flips, off-by-one, dropped `not`, dropped statement, swapped call
arguments, is/== swaps).  Each mutant is applied to a scratch copy of /repo/xyzpy (never to /repo), compiled, and the
checks of the properties that analyse that function are run on the copy.  Output: JSON lines
{id, file, func, line, op, before, after, props, outcome: reported|exit2|silent, rules}.

usage: mutate.py [-j N] [--only substr-of-qualname] [--max-per-func K] --out FILE
"""
import argparse, ast, glob, json, os, random, shutil, subprocess, sys, tempfile
from concurrent.futures import ProcessPoolExecutor
sys.path.insert(0, "/verif")

CMP = {ast.Lt: ast.LtE, ast.LtE: ast.Lt, ast.Gt: ast.GtE, ast.GtE: ast.Gt, ast.Eq: ast.NotEq, ast.NotEq: ast.Eq, ast.Is: ast.IsNot, ast.IsNot: ast.Is, ast.In: ast.NotIn, ast.NotIn: ast.In}


def func_props():
    fp = {}
    for f in sorted(glob.glob("/verif/evidence/C*.json")):
        d = json.load(open(f))
        pid = os.path.basename(f)[:-5]
        for q in d["coverage"].get("functions_analysed", []):
            fp.setdefault(q, []).append(pid)
    return fp


def locate(prog, q):
    return prog.func(q)


class Mut(ast.NodeTransformer):
    """apply exactly the k-th candidate edit inside the target function"""

    def __init__(self, k):
        self.k, self.i, self.desc = k, -1, None

    def hit(self, what):
        self.i += 1
        if self.i == self.k:
            self.desc = what
            return True
        return False

    def visit_Compare(self, n):
        self.generic_visit(n)
        for j, op in enumerate(n.ops):
            if type(op) in CMP and self.hit("cmp %s->%s" % (type(op).__name__, CMP[type(op)].__name__)):
                n.ops[j] = CMP[type(op)]()
        return n

    def visit_BoolOp(self, n):
        self.generic_visit(n)
        if self.hit("boolop swap"):
            n.op = ast.Or() if isinstance(n.op, ast.And) else ast.And()
        return n

    def visit_UnaryOp(self, n):
        self.generic_visit(n)
        if isinstance(n.op, ast.Not) and self.hit("drop not"):
            return n.operand
        return n

    def visit_Constant(self, n):
        if isinstance(n.value, bool):
            if self.hit("bool flip"):
                return ast.copy_location(ast.Constant(not n.value), n)
        elif isinstance(n.value, int) and abs(n.value) <= 3:
            if self.hit("int +1"):
                return ast.copy_location(ast.Constant(n.value + 1), n)
        elif n.value is None:
            pass
        return n

    def visit_BinOp(self, n):
        self.generic_visit(n)
        if isinstance(n.op, (ast.Add, ast.Sub)) and self.hit("add<->sub"):
            n.op = ast.Sub() if isinstance(n.op, ast.Add) else ast.Add()
        return n

    def visit_Call(self, n):
        self.generic_visit(n)
        if len(n.args) == 2 and not any(isinstance(a, ast.Starred) for a in n.args) and ast.dump(n.args[0]) != ast.dump(n.args[1]) and self.hit("swap args"):
            n.args = [n.args[1], n.args[0]]
        return n

    def visit_Expr(self, n):
        self.generic_visit(n)
        if isinstance(n.value, ast.Call) and self.hit("drop call statement"):
            return ast.copy_location(ast.Pass(), n)
        return n

    def visit_IfExp(self, n):
        self.generic_visit(n)
        if self.hit("ifexp swap arms"):
            n.body, n.orelse = n.orelse, n.body
        return n


def candidates(fnode):
    """number of candidate edits inside fnode"""
    import copy
    m = Mut(-1)
    m.visit(ast.parse(ast.unparse(fnode)))
    return m.i + 1


BASE_TAIL = {"plot": "110 failed, 121 passed", "core": "1 failed, 236 passed, 12 skipped, 1 xpassed"}


def test_work(job):
    """re-create a mutant in a scratch copy of the repository and run the part of the test-suite that can see it"""
    mid, relfile, qual, lineno, end_lineno, k, props = job
    tmp = tempfile.mkdtemp(prefix="mt-")
    try:
        shutil.copytree("/repo/xyzpy", os.path.join(tmp, "xyzpy"))
        shutil.copytree("/repo/tests", os.path.join(tmp, "tests"))
        for f in ("setup.py", "setup.cfg", "versioneer.py", "pyproject.toml", "conftest.py"):
            if os.path.exists(os.path.join("/repo", f)):
                shutil.copy(os.path.join("/repo", f), tmp)
        r = work(job, only_apply=tmp)
        if r is None:
            return None
        sel = "tests/test_plot.py" if "/plot/" in relfile else "tests/test_gen tests/test_manage.py tests/test_utils.py"
        # no -x: some tests fail on the unchanged tree here (bokeh absent, benchmarker); a mutant is killed when the
        # failed / passed counts differ from the unchanged tree's
        p = subprocess.run("cd %s && /venv/bin/python -m pytest -q -p no:cacheprovider --timeout=300 %s 2>&1 | tail -3" % (tmp, sel), shell=True, capture_output=True, text=True, timeout=1500)
        out = p.stdout
        last = out.strip().splitlines()[-1] if out.strip() else ""
        base = BASE_TAIL["plot" if "/plot/" in relfile else "core"]
        killed = not last.startswith(base)
        r["tests"] = "killed" if killed else "survived"
        r["tests_tail"] = out.strip().splitlines()[-1][:160] if out.strip() else ""
        return r
    finally:
        shutil.rmtree(tmp, ignore_errors=True)


def work(job, only_apply=None):
    mid, relfile, qual, lineno, end_lineno, k, props = job
    from xyzsa.cli import run_property
    tmp = only_apply or tempfile.mkdtemp(prefix="mu-")
    try:
        if only_apply is None:
            shutil.copytree("/repo/xyzpy", os.path.join(tmp, "xyzpy"))
            shutil.copy("/repo/setup.py", tmp)
        path = os.path.join(tmp, relfile)
        src = open(path).read()
        lines = src.splitlines(keepends=True)
        seg = "".join(lines[lineno - 1:end_lineno])
        import textwrap
        ind = len(seg) - len(seg.lstrip(" "))
        ded = textwrap.dedent(seg)
        try:
            tree = ast.parse(ded)
        except SyntaxError:
            return None
        m = Mut(k)
        new = m.visit(tree)
        if m.desc is None:
            return None
        ast.fix_missing_locations(new)
        out = ast.unparse(new)
        out = textwrap.indent(out, " " * ind) + "\n"
        if out.strip() == textwrap.indent(ast.unparse(ast.parse(ded)), " " * ind).strip():
            return None
        new_src = "".join(lines[:lineno - 1]) + out + "".join(lines[end_lineno:])
        try:
            compile(new_src, path, "exec")
        except SyntaxError:
            return None
        open(path, "w").write(new_src)
        # the function is re-printed by ast.unparse (comments / layout lost): the diff against a re-printed original isolates the edit
        base_seg = textwrap.indent(ast.unparse(ast.parse(ded)), " " * ind) + "\n"
        import difflib
        diff = [l for l in difflib.unified_diff(base_seg.splitlines(), out.splitlines(), lineterm="", n=0) if not l.startswith(("---", "+++", "@@"))]
        res = {"id": mid, "file": relfile, "func": qual, "op": m.desc, "diff": diff[:6], "props": props, "outcome": "silent", "rules": [], "job": list(job)}
        if only_apply is not None:
            return res
        for p in props:
            code, new_f, ctx, lines_ = run_property(p, "quick", tmp, write=False, quiet=True)
            if code == 1:
                res["outcome"] = "reported"
                res["rules"] += sorted({f.rule for f in new_f})
            elif code == 2 and res["outcome"] != "reported":
                res["outcome"] = "exit2"
        if res["outcome"] == "silent":
            res["patched_file"] = None
        return res
    finally:
        if only_apply is None:
            shutil.rmtree(tmp, ignore_errors=True)


def main():
    ap = argparse.ArgumentParser()
    ap.add_argument("-j", type=int, default=14)
    ap.add_argument("--only", default=None)
    ap.add_argument("--max-per-func", type=int, default=40)
    ap.add_argument("--out", required=True)
    ap.add_argument("--tests-for", default=None, help="JSON lines from an earlier run: run the test-suite on the silent mutants in it (filter: test-killed / survived)")
    ap.add_argument("--files", default=None, help="comma separated substrings of file names to restrict --tests-for to")
    ap.add_argument("--recheck", default=None, help="JSON lines from an earlier run: run the checks again on exactly those mutants")
    a = ap.parse_args()
    if a.recheck:
        jobs = [tuple(json.loads(l)["job"]) for l in open(a.recheck)]
        with open(a.out, "w") as fo, ProcessPoolExecutor(a.j) as ex:
            for r in ex.map(work, jobs, chunksize=2):
                if r is not None:
                    fo.write(json.dumps(r) + "\n")
        return
    if a.tests_for:
        rows = [json.loads(l) for l in open(a.tests_for)]
        jobs = [tuple(r["job"]) for r in rows if r["outcome"] == "silent" and "job" in r and (not a.files or any(x in r["file"] for x in a.files.split(",")))]
        print("%d silent mutants to test" % len(jobs), file=sys.stderr)
        with open(a.out, "w") as fo, ProcessPoolExecutor(a.j) as ex:
            for r in ex.map(test_work, jobs, chunksize=2):
                if r is not None:
                    fo.write(json.dumps(r) + "\n")
                    fo.flush()
        return
    from xyzsa.loader import Program
    prog = Program("/repo")
    fp = func_props()
    jobs = []
    rnd = random.Random(7)
    for q, props in sorted(fp.items()):
        if a.only and a.only not in q:
            continue
        fi = prog.func(q)
        if fi is None or fi.parent is not None:
            continue      # nested functions are mutated as part of their parent
        node = fi.node
        rel = os.path.relpath(fi.module.path, "/repo")
        n = candidates(node)
        ks = list(range(n))
        if n > a.max_per_func:
            ks = sorted(rnd.sample(ks, a.max_per_func))
        # properties that analyse this function or a function nested in it
        pp = sorted(set(props) | {p for q2, ps in fp.items() if q2.startswith(q + ".") for p in ps})
        for k in ks:
            jobs.append(("%s#%d" % (q, k), rel, q, node.lineno if not node.decorator_list else node.decorator_list[0].lineno, node.end_lineno, k, pp))
    print("%d mutants over %d functions" % (len(jobs), len({j[2] for j in jobs})), file=sys.stderr)
    n = 0
    with open(a.out, "w") as fo, ProcessPoolExecutor(a.j) as ex:
        for r in ex.map(work, jobs, chunksize=4):
            if r is None:
                continue
            fo.write(json.dumps(r) + "\n")
            n += 1
    print("%d evaluated" % n, file=sys.stderr)


main()
