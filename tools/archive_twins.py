#!/usr/bin/env python3
import json, os, shutil
res = {}
for l in open('/tmp/confirm/twresults.jsonl'):
    d = json.loads(l); res[d['label']] = d
for label, d in sorted(res.items()):
    prop, k = label.split('-')
    src = '/tmp/tw/%s.out/%s' % (prop, k)
    dst = '/verif/twins/%s' % label
    os.makedirs(dst, exist_ok=True)
    for fn in ('patch.diff', 'demo.py', 'notes.md'):
        if os.path.exists(os.path.join(src, fn)):
            shutil.copy(os.path.join(src, fn), os.path.join(dst, fn))
    if d['confirmed']:
        how = "tools/confirm_twin.py on /repo HEAD at archive time: patch applies, demo exit 0 with the patch, 0 HEAD-passing tests lost"
    elif d.get('apply'):
        how = "confirmed by the producing sub-agent on base commit 70aa08c (demo passes with and without, tests unchanged); no longer applies to /repo HEAD after later fix: commits -- evaluated differentially on its base commit by tools/twin_matrix.py"
    else:
        how = "confirmed by the producing sub-agent on base commit 70aa08c; its demo asserts a then-existing defect (short last batch, F18) as-is and therefore fails on the repaired HEAD -- evaluated differentially on its base commit"
    meta = {"id": label, "property": prop, "kind": "behaviour-preserving refactoring (twin)", "base_commit": "70aa08c",
            "origin": "independent sub-agent given only the property text and a scratch worktree", "confirmed_by": how}
    json.dump(meta, open(os.path.join(dst, 'meta.json'), 'w'), indent=1)
print(len(res))
