#!/usr/bin/env python3
"""Run every claimed check against every seeded change and every reverse fix.

For each patch: copy /repo/xyzpy to a scratch directory outside /repo and
/verif, apply the patch there, run the checks with --repo, remove the copy.
Prints a matrix: which checks report which change.  (Equivalent to applying
the patch to /repo, running the registered commands and undoing it, but
parallel and without touching /repo.)

usage: matrix.py [-j N] [--props C11,C12] [--only substring] [--json out]
"""
import argparse, glob, json, os, shutil, subprocess, sys, tempfile
from concurrent.futures import ProcessPoolExecutor
sys.path.insert(0, "/verif")

def claimed():
    m = json.load(open("/verif/MANIFEST.json"))
    return [c["property_id"] for c in m["checks"]]

def work(args):
    label, patch, props = args
    import io, contextlib
    from xyzsa.cli import run_property
    tmp = tempfile.mkdtemp(prefix="mx-")
    try:
        shutil.copytree("/repo/xyzpy", os.path.join(tmp, "xyzpy"))
        shutil.copy("/repo/setup.py", tmp)
        r = subprocess.run(["git", "apply", "--unsafe-paths", "--directory=" + tmp, patch], capture_output=True, text=True, cwd="/")
        if r.returncode:
            r = subprocess.run(["patch", "-p1", "-s", "-i", patch], cwd=tmp, capture_output=True, text=True)
            if r.returncode:
                return label, {"_apply": "FAILED " + r.stderr[-200:]}
        out = {}
        for p in props:
            code, findings, ctx, lines = run_property(p, "quick", tmp, write=False, quiet=True)
            msg = ""
            if code == 1:
                msg = "; ".join(sorted({f.rule for f in findings}))
            elif code == 2:
                msg = [l for l in lines if "ANALYSIS-ERROR" in l][0][:160]
            out[p] = (code, msg)
        return label, out
    finally:
        shutil.rmtree(tmp, ignore_errors=True)

def main():
    ap = argparse.ArgumentParser()
    ap.add_argument("-j", type=int, default=14)
    ap.add_argument("--props", default=None)
    ap.add_argument("--only", default=None)
    ap.add_argument("--json", default=None)
    ap.add_argument("--write-expect", action="store_true", help="record which checks report which change in /verif/selftest_expect.json (controls of the thorough tier)")
    ap.add_argument("--glob", default=None, help="evaluate patches matching this glob instead of the committed corpora (label = two last path components)")
    a = ap.parse_args()
    props = a.props.split(",") if a.props else claimed()
    from xyzsa.cli import run_property
    for p in props:
        code, f, c, lines = run_property(p, "quick", "/repo", write=False, quiet=True)
        if code != 0:
            print("check %s does not pass on the unchanged tree (exit %d); fix that first" % (p, code))
            print("\n".join(l for l in lines if "VIOLATION" in l or "ANALYSIS" in l or l.startswith("  xyzpy"))[:1500])
            sys.exit(3)
    jobs = []
    if a.glob:
        for d in sorted(glob.glob(a.glob)):
            parts = d.split(os.sep)
            jobs.append((parts[-3].replace(".out", "") + "-" + parts[-2], d, props))
    for d in ([] if a.glob else sorted(glob.glob("/verif/seeded/*/patch.diff"))):
        jobs.append((os.path.basename(os.path.dirname(d)), d, props))
    for d in ([] if a.glob else sorted(glob.glob("/verif/controls/H*.diff"))):
        jobs.append((os.path.basename(d)[:-5], d, props))
    for d in ([] if a.glob else sorted(glob.glob("/verif/regress/R*.diff"))):
        jobs.append((os.path.basename(d)[:-5], d, props))
    if a.only:
        jobs = [j for j in jobs if a.only in j[0]]
    res = {}
    with ProcessPoolExecutor(a.j) as ex:
        for label, out in ex.map(work, jobs):
            res[label] = out
    caught = 0
    for label in sorted(res):
        out = res[label]
        if "_apply" in out:
            print("%-8s %s" % (label, out["_apply"])); continue
        hits = ["%s[%s]" % (p, m) for p, (c, m) in out.items() if c == 1]
        errs = ["%s{%s}" % (p, m) for p, (c, m) in out.items() if c == 2]
        own = label.split("-")[0]
        mark = "CAUGHT" if hits else ("exit2" if errs else "missed")
        if hits: caught += 1
        print("%-8s %-7s %s %s" % (label, mark, " ".join(hits), (" ".join(errs))[:150]))
    print("caught %d of %d" % (caught, len(res)))
    if a.json:
        json.dump(res, open(a.json, "w"), indent=1)
    if a.write_expect:
        exp = {"mutants": {label: sorted(p for p, (c, m) in out.items() if c == 1) for label, out in sorted(res.items()) if "_apply" not in out}}
        json.dump(exp, open("/verif/selftest_expect.json", "w"), indent=1)
        print("selftest_expect.json written (%d controls)" % len(exp["mutants"]))

main()
