#!/usr/bin/env python3
"""Behaviour-preserving single edits of the functions the checks analyse (a false-alarm finder, not a check).

The counterpart of tools/mutate.py: every edit here keeps the function's behaviour (by construction, on the syntax
tree), so a check that *reports* on the edited copy has raised a false alarm, and one that exits 2 has lost its
anchor.  Edits:

  swap-arms     if c: A else: B            ->  if not c: B else: A
  ifexp-swap    a if c else b              ->  b if not c else a
  ifexp-stmt    x = a if c else b          ->  if c: x = a  else: x = b
  not-compl     x is None / a in b         ->  not (x is not None) / not (a not in b)
  demorgan      not (a and b)              ->  (not a) or (not b)          (and the dual)
  hoist-test    if c: ...                  ->  _t0 = c; if _t0: ...        (plain `if`, no elif chain above it)
  alias         y = <call or subscript>    ->  _v0 = <...>; y = _v0
  rename        a local variable           ->  the same name with a suffix (not parameters, not names used in closures)
  guard-invert  if c: continue / rest      ->  if not c: rest             (last statements of a loop body)
  dict-call     dict(a=1, b=2)             ->  {'a': 1, 'b': 2}

usage: equiv.py [-j N] [--only substr] [--max-per-func K] --out FILE
"""
import argparse, ast, glob, json, os, random, shutil, sys, tempfile, textwrap
from concurrent.futures import ProcessPoolExecutor
sys.path.insert(0, "/verif")

COMPL = {ast.Is: ast.IsNot, ast.IsNot: ast.Is, ast.In: ast.NotIn, ast.NotIn: ast.In}


def func_props():
    fp = {}
    for f in sorted(glob.glob("/verif/evidence/C*.json")):
        d = json.load(open(f))
        pid = os.path.basename(f)[:-5]
        for q in d["coverage"].get("functions_analysed", []):
            fp.setdefault(q, []).append(pid)
    return fp


def negate(e):
    if isinstance(e, ast.UnaryOp) and isinstance(e.op, ast.Not):
        return e.operand
    return ast.UnaryOp(op=ast.Not(), operand=e)


class Eq(ast.NodeTransformer):
    def __init__(self, k, top):
        self.k, self.i, self.desc = k, -1, None
        self.top = top
        self.nested_names = set()
        for n in ast.walk(top):
            if n is not top and isinstance(n, (ast.FunctionDef, ast.AsyncFunctionDef, ast.Lambda, ast.ClassDef)):
                for x in ast.walk(n):
                    if isinstance(x, ast.Name):
                        self.nested_names.add(x.id)
                    if isinstance(x, ast.arg):
                        self.nested_names.add(x.arg)
        a = top.args
        self.params = {x.arg for x in a.args + a.kwonlyargs + a.posonlyargs} | ({a.vararg.arg} if a.vararg else set()) | ({a.kwarg.arg} if a.kwarg else set())
        self.declared = {nm for n in ast.walk(top) if isinstance(n, (ast.Global, ast.Nonlocal)) for nm in n.names}
        self.fresh = 0

    def hit(self, what):
        self.i += 1
        if self.i == self.k:
            self.desc = what
            return True
        return False

    # ---- statements in blocks
    def _block(self, stmts, in_loop=False):
        out = []
        for idx, s in enumerate(stmts):
            s = self.visit(s)
            if isinstance(s, list):
                out += s
                continue
            # hoist-test
            if isinstance(s, ast.If) and not getattr(s, "_is_elif", False) and self.hit("hoist-test"):
                nm = "_t%d" % self.fresh
                self.fresh += 1
                out.append(ast.Assign(targets=[ast.Name(id=nm, ctx=ast.Store())], value=s.test, lineno=s.lineno))
                s.test = ast.Name(id=nm, ctx=ast.Load())
                out.append(s)
                continue
            # alias
            if isinstance(s, ast.Assign) and len(s.targets) == 1 and isinstance(s.targets[0], ast.Name) and isinstance(s.value, (ast.Call, ast.Subscript, ast.Attribute)) and self.hit("alias"):
                nm = "_v%d" % self.fresh
                self.fresh += 1
                out.append(ast.Assign(targets=[ast.Name(id=nm, ctx=ast.Store())], value=s.value, lineno=s.lineno))
                s.value = ast.Name(id=nm, ctx=ast.Load())
                out.append(s)
                continue
            # ifexp-stmt
            if isinstance(s, ast.Assign) and len(s.targets) == 1 and isinstance(s.targets[0], (ast.Name, ast.Attribute)) and isinstance(s.value, ast.IfExp) and self.hit("ifexp-stmt"):
                import copy
                t2 = ast.parse(ast.unparse(s.targets[0])).body[0].value
                for x in ast.walk(t2):
                    if hasattr(x, "ctx") and x is t2:
                        x.ctx = ast.Store()
                out.append(ast.If(test=s.value.test, body=[ast.Assign(targets=[s.targets[0]], value=s.value.body, lineno=s.lineno)],
                                  orelse=[ast.Assign(targets=[t2], value=s.value.orelse, lineno=s.lineno)]))
                continue
            # and-split: if a and b: S  ->  if a: if b: S        (no else)
            if isinstance(s, ast.If) and not s.orelse and isinstance(s.test, ast.BoolOp) and isinstance(s.test.op, ast.And) and len(s.test.values) == 2 and not getattr(s, "_is_elif", False) and self.hit("and-split"):
                out.append(ast.If(test=s.test.values[0], body=[ast.If(test=s.test.values[1], body=s.body, orelse=[])], orelse=[]))
                continue
            # return-else: if c: ...return X ; rest   ->  if c: ...return X  else: rest      (last statements of a function body)
            if isinstance(s, ast.If) and not s.orelse and s.body and isinstance(s.body[-1], (ast.Return, ast.Raise)) and idx < len(stmts) - 1 and not in_loop and getattr(self, "_fn_body", None) is stmts \
                    and not getattr(s, "_is_elif", False) and self.hit("return-else"):
                rest = []
                for r in stmts[idx + 1:]:
                    r = self.visit(r)
                    rest += r if isinstance(r, list) else [r]
                s.orelse = rest
                out.append(s)
                return out
            # return-ifexp: return a if c else b  ->  if c: return a  else: return b
            if isinstance(s, ast.Return) and isinstance(s.value, ast.IfExp) and self.hit("return-ifexp"):
                out.append(ast.If(test=s.value.test, body=[ast.Return(value=s.value.body)], orelse=[ast.Return(value=s.value.orelse)]))
                continue
            # guard-invert: `if c: continue` followed by the rest of a loop body
            if in_loop and isinstance(s, ast.If) and not s.orelse and len(s.body) == 1 and isinstance(s.body[0], ast.Continue) and idx < len(stmts) - 1 and self.hit("guard-invert"):
                rest = []
                for r in stmts[idx + 1:]:
                    r = self.visit(r)
                    rest += r if isinstance(r, list) else [r]
                out.append(ast.If(test=negate(s.test), body=rest, orelse=[]))
                return out
            out.append(s)
        return out

    def generic_visit(self, node):
        for field, old in ast.iter_fields(node):
            if isinstance(old, list) and old and isinstance(old[0], ast.stmt):
                if field == "orelse" and isinstance(node, ast.If) and len(old) == 1 and isinstance(old[0], ast.If):
                    old[0]._is_elif = True
                setattr(node, field, self._block(old, in_loop=isinstance(node, (ast.For, ast.While)) and field == "body"))
            elif isinstance(old, list):
                new = []
                for v in old:
                    if isinstance(v, ast.AST):
                        v = self.visit(v)
                        if v is None:
                            continue
                    new.append(v)
                old[:] = new
            elif isinstance(old, ast.AST):
                new = self.visit(old)
                if new is None:
                    delattr(node, field)
                else:
                    setattr(node, field, new)
        return node

    def visit_FunctionDef(self, n):
        if n is not self.top:
            return n            # nested functions are edited as functions of their own
        self._fn_body = n.body
        return self.generic_visit(n)

    def visit_Lambda(self, n):
        return n

    def visit_If(self, n):
        self.generic_visit(n)
        if n.orelse and not (len(n.orelse) == 1 and isinstance(n.orelse[0], ast.If)) and not getattr(n, "_is_elif", False) and self.hit("swap-arms"):
            n.test, n.body, n.orelse = negate(n.test), n.orelse, n.body
        return n

    def visit_IfExp(self, n):
        self.generic_visit(n)
        if self.hit("ifexp-swap"):
            n.test, n.body, n.orelse = negate(n.test), n.orelse, n.body
        return n

    def visit_Compare(self, n):
        self.generic_visit(n)
        if len(n.ops) == 1 and type(n.ops[0]) in COMPL and self.hit("not-compl"):
            return ast.UnaryOp(op=ast.Not(), operand=ast.Compare(left=n.left, ops=[COMPL[type(n.ops[0])]()], comparators=n.comparators))
        SW = {ast.Eq: ast.Eq, ast.NotEq: ast.NotEq, ast.Lt: ast.Gt, ast.Gt: ast.Lt, ast.LtE: ast.GtE, ast.GtE: ast.LtE}
        pure = lambda e: not any(isinstance(x, (ast.Call, ast.Await, ast.Yield, ast.NamedExpr)) for x in ast.walk(e))
        if len(n.ops) == 1 and type(n.ops[0]) in SW and pure(n.left) and pure(n.comparators[0]) and not isinstance(n.comparators[0], ast.Constant) and self.hit("cmp-swap"):
            return ast.Compare(left=n.comparators[0], ops=[SW[type(n.ops[0])]()], comparators=[n.left])
        return n

    def visit_UnaryOp(self, n):
        self.generic_visit(n)
        if isinstance(n.op, ast.Not) and isinstance(n.operand, ast.BoolOp) and self.hit("demorgan"):
            b = n.operand
            return ast.BoolOp(op=ast.Or() if isinstance(b.op, ast.And) else ast.And(), values=[negate(v) for v in b.values])
        return n

    def visit_Call(self, n):
        self.generic_visit(n)
        if isinstance(n.func, ast.Name) and n.func.id == "dict" and not n.args and n.keywords and all(k.arg for k in n.keywords) and self.hit("dict-call"):
            return ast.Dict(keys=[ast.Constant(k.arg) for k in n.keywords], values=[k.value for k in n.keywords])
        if isinstance(n.func, ast.Name) and n.func.id == "dict" and len(n.args) == 1 and not n.keywords and isinstance(n.args[0], ast.Call) and isinstance(n.args[0].func, ast.Name) and n.args[0].func.id == "zip" \
                and len(n.args[0].args) == 2 and not n.args[0].keywords and self.hit("dict-zip"):
            return ast.DictComp(key=ast.Name(id="_k", ctx=ast.Load()), value=ast.Name(id="_w", ctx=ast.Load()),
                                generators=[ast.comprehension(target=ast.Tuple(elts=[ast.Name(id="_k", ctx=ast.Store()), ast.Name(id="_w", ctx=ast.Store())], ctx=ast.Store()), iter=n.args[0], ifs=[], is_async=0)])
        return n


def rename_candidates(top):
    a = top.args
    params = {x.arg for x in a.args + a.kwonlyargs + a.posonlyargs} | ({a.vararg.arg} if a.vararg else set()) | ({a.kwarg.arg} if a.kwarg else set())
    nested = set()
    for n in ast.walk(top):
        if n is not top and isinstance(n, (ast.FunctionDef, ast.AsyncFunctionDef, ast.Lambda, ast.ClassDef)):
            for x in ast.walk(n):
                if isinstance(x, ast.Name):
                    nested.add(x.id)
                elif isinstance(x, ast.arg):
                    nested.add(x.arg)
            if hasattr(n, "name"):
                nested.add(n.name)
    declared = {nm for n in ast.walk(top) if isinstance(n, (ast.Global, ast.Nonlocal)) for nm in n.names}
    stored = []
    for n in ast.walk(top):
        if isinstance(n, ast.Name) and isinstance(n.ctx, ast.Store) and n.id not in params and n.id not in nested and n.id not in declared and not n.id.startswith("__") and n.id not in stored:
            stored.append(n.id)
    # names imported inside the function or bound by except / with-as keep their names (fine to rename Name nodes only)
    imported = {al.asname or al.name.split(".")[0] for n in ast.walk(top) if isinstance(n, (ast.Import, ast.ImportFrom)) for al in n.names}
    exc = {n.name for n in ast.walk(top) if isinstance(n, ast.ExceptHandler) and n.name}
    return [s for s in stored if s not in imported and s not in exc]


def apply_edit(ded, k):
    """-> (new source, description) or None"""
    tree = ast.parse(ded)
    top = tree.body[0]
    if not isinstance(top, (ast.FunctionDef, ast.AsyncFunctionDef)):
        return None
    e = Eq(k, top)
    e.visit(top)
    if e.desc is not None:
        ast.fix_missing_locations(tree)
        return ast.unparse(tree), e.desc
    # renames come after the structural edits
    r = k - (e.i + 1)
    tree = ast.parse(ded)
    top = tree.body[0]
    cands = rename_candidates(top)
    if r < len(cands):
        old = cands[r]
        new = old + "_rn"
        for n in ast.walk(top):
            if isinstance(n, ast.Name) and n.id == old:
                n.id = new
        return ast.unparse(tree), "rename %s" % old
    return None


def count(ded):
    tree = ast.parse(ded)
    top = tree.body[0]
    if not isinstance(top, (ast.FunctionDef, ast.AsyncFunctionDef)):
        return 0
    e = Eq(-1, top)
    e.visit(top)
    return e.i + 1 + len(rename_candidates(ast.parse(ded).body[0]))


BASE_KEYS = {}


def base_keys(props):
    """finding keys of the unchanged tree (a genuine finding not yet repaired must not be counted against an edit)"""
    from xyzsa.cli import run_property
    for p in sorted(props):
        code, new_f, ctx, lines_ = run_property(p, "quick", "/repo", write=False, quiet=True)
        BASE_KEYS[p] = {f.key for f in new_f}


def work(job):
    mid, relfile, qual, lineno, end_lineno, k, props = job
    from xyzsa.cli import run_property
    tmp = tempfile.mkdtemp(prefix="eq-")
    try:
        shutil.copytree("/repo/xyzpy", os.path.join(tmp, "xyzpy"))
        shutil.copy("/repo/setup.py", tmp)
        path = os.path.join(tmp, relfile)
        src = open(path).read()
        lines = src.splitlines(keepends=True)
        seg = "".join(lines[lineno - 1:end_lineno])
        ind = len(seg) - len(seg.lstrip(" "))
        ded = textwrap.dedent(seg)
        try:
            r = apply_edit(ded, k)
        except SyntaxError:
            return None
        if r is None:
            return None
        out, desc = r
        out = textwrap.indent(out, " " * ind) + "\n"
        new_src = "".join(lines[:lineno - 1]) + out + "".join(lines[end_lineno:])
        try:
            compile(new_src, path, "exec")
        except SyntaxError:
            return None
        open(path, "w").write(new_src)
        base_seg = textwrap.indent(ast.unparse(ast.parse(ded)), " " * ind) + "\n"
        import difflib
        diff = [l for l in difflib.unified_diff(base_seg.splitlines(), out.splitlines(), lineterm="", n=0) if not l.startswith(("---", "+++", "@@"))]
        res = {"id": mid, "file": relfile, "func": qual, "op": desc, "diff": diff[:8], "props": props, "outcome": "silent", "rules": [], "msgs": [], "job": list(job)}
        for p in props:
            code, new_f, ctx, lines_ = run_property(p, "quick", tmp, write=False, quiet=True)
            if code == 1:
                fresh = [f for f in new_f if f.key not in BASE_KEYS.get(p, ())]
                if not fresh:
                    continue          # only what the unchanged tree is reported for as well
                res["outcome"] = "reported"
                res["rules"] += sorted({f.rule for f in fresh})
            elif code == 2:
                if res["outcome"] != "reported":
                    res["outcome"] = "exit2"
                res["msgs"] += [l for l in lines_ if "ANALYSIS-ERROR" in l][:1]
        return res
    finally:
        shutil.rmtree(tmp, ignore_errors=True)


def main():
    ap = argparse.ArgumentParser()
    ap.add_argument("-j", type=int, default=14)
    ap.add_argument("--only", default=None)
    ap.add_argument("--max-per-func", type=int, default=40)
    ap.add_argument("--out", required=True)
    ap.add_argument("--recheck", default=None)
    ap.add_argument("--seed", type=int, default=11)
    ap.add_argument("--nested-only", action="store_true", help="only functions defined inside other functions (closures, generators)")
    a = ap.parse_args()
    if a.recheck:
        jobs = [tuple(json.loads(l)["job"]) for l in open(a.recheck)]
    else:
        from xyzsa.loader import Program
        prog = Program("/repo")
        fp = func_props()
        jobs = []
        rnd = random.Random(a.seed)
        for q, props in sorted(fp.items()):
            if a.only and a.only not in q:
                continue
            fi = prog.func(q)
            if fi is None:
                continue
            node = fi.node
            if a.nested_only and fi.parent is None:
                continue
            rel = os.path.relpath(fi.module.path, "/repo")
            lines = open(fi.module.path).read().splitlines(keepends=True)
            start = node.lineno if not node.decorator_list else node.decorator_list[0].lineno
            ded = textwrap.dedent("".join(lines[start - 1:node.end_lineno]))
            try:
                n = count(ded)
            except SyntaxError:
                continue
            ks = list(range(n))
            if n > a.max_per_func:
                ks = sorted(rnd.sample(ks, a.max_per_func))
            pp = sorted(set(props) | {p for q2, ps in fp.items() if q2.startswith(q + ".") for p in ps})
            for k in ks:
                jobs.append(("%s#%d" % (q, k), rel, q, start, node.end_lineno, k, pp))
        print("%d edits over %d functions" % (len(jobs), len({j[2] for j in jobs})), file=sys.stderr)
    n = 0
    base_keys({p for j in jobs for p in j[6]})
    with open(a.out, "w") as fo, ProcessPoolExecutor(a.j) as ex:
        for r in ex.map(work, jobs, chunksize=4):
            if r is None:
                continue
            fo.write(json.dumps(r) + "\n")
            n += 1
    print("%d evaluated" % n, file=sys.stderr)


main()
