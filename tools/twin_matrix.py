#!/usr/bin/env python3
"""Differential false-alarm test: for every twin, run every claimed check on the twin's base commit and on base + twin;
a finding key present only with the twin is a false alarm; exit 2 only with the twin is a lost idiom."""
import glob, json, os, shutil, subprocess, sys, tempfile
from concurrent.futures import ProcessPoolExecutor
sys.path.insert(0, "/verif")

def tree(commit):
    tmp = tempfile.mkdtemp(prefix="twb-")
    subprocess.run("git -C /repo archive %s xyzpy setup.py | tar -x -C %s" % (commit, tmp), shell=True, check=True)
    return tmp

def keys(repo, props):
    from xyzsa.cli import run_property
    out = {}
    for p in props:
        code, new, ctx, lines = run_property(p, "quick", repo, write=False, quiet=True)
        ks = set(f.key for f in (getattr(ctx, "all_findings", new) if ctx else new))
        err = [l for l in lines if "ANALYSIS-ERROR" in l]
        out[p] = (code, ks, err[0][:200] if err else "")
    return out

def work(args):
    label, patch, commit, props, basekeys = args
    tmp = tree(commit)
    try:
        r = subprocess.run(["git", "apply", "--unsafe-paths", "--directory=" + tmp, patch], capture_output=True, text=True, cwd="/")
        if r.returncode:
            return label, {"_apply": r.stderr[-150:]}
        k1 = keys(tmp, props)
        res = {}
        for p in props:
            c0, s0, e0 = basekeys[p]
            c1, s1, e1 = k1[p]
            def nk(k):
                # (rule, construct); a construct that names the function it sits in is compared without that name, so that
                # a finding the base already has is not new because the twin moved the same code into a helper
                parts = k.split('|')
                fn = parts[1].split('.')[-1] if len(parts) > 2 else ""
                return (parts[0], " ".join(w for w in parts[-1].split() if w != fn))
            b0 = {nk(k) for k in s0}
            new = sorted(k for k in s1 - s0 if nk(k) not in b0)
            if new:
                res[p] = ("FALSE-ALARM", new)
            elif c1 == 2 and c0 != 2:
                res[p] = ("exit2", [e1])
        return label, res
    finally:
        shutil.rmtree(tmp, ignore_errors=True)

def main():
    props = [c["property_id"] for c in json.load(open("/verif/MANIFEST.json"))["checks"]]
    if os.environ.get("TWIN_PROPS"):
        props = [p for p in props if p in os.environ["TWIN_PROPS"].split(",")]
    only = sys.argv[1] if len(sys.argv) > 1 else None
    jobs, bases = [], {}
    for d in sorted(glob.glob("/verif/twins/*/patch.diff")):
        label = os.path.basename(os.path.dirname(d))
        if only and only not in label:
            continue
        commit = json.load(open(os.path.join(os.path.dirname(d), "meta.json")))["base_commit"]
        if commit not in bases:
            t = tree(commit); bases[commit] = keys(t, props); shutil.rmtree(t)
        jobs.append((label, d, commit, props, bases[commit]))
    fa = e2 = 0
    with ProcessPoolExecutor(14) as ex:
        for label, res in ex.map(work, jobs):
            if "_apply" in res:
                print("%-8s APPLY-FAILED %s" % (label, res["_apply"])); continue
            if not res:
                print("%-8s silent" % label); continue
            for p, (kind, detail) in res.items():
                print("%-8s %s %s %s" % (label, kind, p, "; ".join(detail)[:260]))
                fa += kind == "FALSE-ALARM"; e2 += kind == "exit2"
    print("twins %d: false alarms %d, analysis errors %d" % (len(jobs), fa, e2))
main()
