#!/usr/bin/env python3
"""Tests of the analyser's own helper inliner (xyzsa/inline.py) on small example programs written for this purpose
(nothing of /repo is executed): each example is run as written and after inlining, and the observable trace
(values returned, order of side effects) must be identical; examples that must NOT be inlined are checked for that."""
import ast
import sys

sys.path.insert(0, "/verif")
from xyzsa import inline  # noqa: E402

EXAMPLES = []


def example(src, entry, inlined=None, not_inlined=()):
    EXAMPLES.append((src, entry, inlined, not_inlined))


# 1 statement-level, locals renamed apart, actual with a side effect evaluated once and first
example('''
LOG = []
def tick(x):
    LOG.append(x)
    return x
def helper(a, b):
    t = a + b
    LOG.append(("h", t))
    return t * 2
def main():
    t = 5
    r = helper(tick(1), t)
    return r, t, LOG
''', "main", inlined={"m.helper"})

# 2 method helpers: setter statement, predicate in a test, attribute actual re-read hazard (temporary needed)
example('''
class S:
    def __init__(self):
        self.n = 0
        self.buf = []
        self._reset()
    def _reset(self):
        self.buf = []
        self.k = 0
    def _full(self):
        extra = self.n < 2
        return self.k == 2 + int(extra)
    def _bump(self, by):
        self.n += 1
        self.k = self.k + by
    def push(self, v):
        self.buf.append(v)
        self._bump(self.n + 1)
        if self._full():
            out = list(self.buf)
            self._reset()
            return out
def main():
    s = S()
    return [s.push(i) for i in range(9)], s.n, s.k
''', "main", inlined={"m.S._reset", "m.S._full", "m.S._bump"})

# 3 closure helper reading the enclosing function's variables; argument hoisting
example('''
import os
def outer(base, n):
    def name(i):
        stem = "f%d" % i
        return os.path.join(base, stem)
    def put(store, key, value):
        store[key] = value
    acc = {}
    for i in range(n):
        put(acc, name(i), i)
    return acc
def main():
    return outer("/x", 3)
''', "main", inlined={"m.outer.name", "m.outer.put"})

# 4 must not inline: recursion, captured name, generator, overridden method (branching / *args helpers: see 8 and 9)
example('''
G = 10
def branchy(a):
    if a:
        return 1
    return 2
def star(*a):
    return len(a)
def rec(n):
    return rec(n)
def uses_global(a):
    return a + G
def gen(a):
    yield a
class A:
    def h(self):
        return 1
    def f(self):
        return self.h()
class B(A):
    def h(self):
        return 2
def main():
    G = 1                     # a local that would capture the helper's global
    return branchy(0), star(1, 2), uses_global(5), list(gen(3)), A().f(), B().f(), G
''', "main", not_inlined={"m.rec", "m.uses_global", "m.gen", "m.A.h", "m.B.h"})

# 5 defaults, keywords, parameter reassigned in the helper, tuple unpacking, augmented assignment on an argument
example('''
def h(x, y=3, *, z=()):
    x = x + 1
    a, b = x, y
    a += len(z)
    return a * b
def main():
    q = 4
    r1 = h(q)
    r2 = h(q, y=2)
    r3 = h(y=1, x=q, z=(1, 2))
    return r1, r2, r3, q
''', "main", inlined={"m.h"})

# 6 expression-level: parameter used twice with a call actual must not be duplicated
example('''
LOG = []
def tick(x):
    LOG.append(x)
    return x
def twice(a):
    return a + a
def once(a, b):
    return b - a
def keyed(d, k):
    return d[k] + tick(0)
class C:
    def __init__(self):
        self.v = 1
    def bump(self):
        self.v += 1
        return self.v
    def mix(self, a):
        return self.bump() * 10 + a
    def run(self):
        return self.mix(self.v)          # self.v must be read before bump()
def main():
    x = 7
    if not once(tick(5), x):
        LOG.append("no")
    return twice(tick(2)), once(tick(3), tick(4)), twice(x), keyed({1: 2}, 1), C().run(), LOG
''', "main", inlined={"m.twice"})

# 7 nesting, repeated use, loops / try, in-place mutation of an argument, module constant as default, bare return
example('''
SENT = object()
def inner(a):
    b = a * 2
    return b + 1
def middle(a, flag=SENT):
    b = inner(a)
    c = inner(b)
    return (b, c, flag is SENT)
def mutate(lst, v):
    lst.append(v)
    return
def noop():
    pass
def main():
    out = []
    for i in range(3):
        try:
            r = middle(i)
            mutate(out, r)
            r = middle(i, flag=None)
            mutate(out, r)
            noop()
        except ValueError:
            out.append("never")
    b = "caller's own b"
    return out, b
''', "main", inlined={"m.inner", "m.middle", "m.mutate"})

# 8 guard-style helpers (returns in tail position of ifs), loops and with inside helpers, fall-off-the-end, used as
#   statement, assignment, return value and if-test; a return inside a loop must be left alone
example('''
import contextlib
LOG = []
def resolve(flag, allow):
    if flag is not None:
        return flag
    LOG.append("default")
    return not allow
def classify(n):
    if n < 0:
        LOG.append("neg")
        return "neg"
    elif n == 0:
        return "zero"
    else:
        if n > 10:
            return "big"
    LOG.append("small")
    return "small"
def maybe(n):
    if n:
        return n * 2
def total(xs):
    acc = 0
    for x in xs:
        if x < 0:
            continue
        acc += x
    with contextlib.suppress(KeyError):
        acc += {}["missing"]
    return acc
def find(xs, v):
    for i, x in enumerate(xs):
        if x == v:
            return i
    return -1
def finish(state, flag):
    if resolve(flag, state["allow"]):
        state["deleted"] = True
class K:
    def __init__(self):
        self.v = 3
    def _guard(self, n):
        if n > self.v:
            return False
        self.v -= n
        return True
    def take(self, n):
        if self._guard(n):
            return "ok"
        return "no"
def main():
    out = []
    for f, a in ((None, True), (None, False), (0, True), (1, False)):
        r = resolve(f, a)
        out.append(r)
    for n in (-1, 0, 5, 50):
        c = classify(n)
        out.append(c)
    m = maybe(0)
    out.append(m)
    m = maybe(4)
    out.append(m)
    t = total([1, -2, 3])
    out.append(t)
    i = find([4, 5, 6], 5)
    out.append(i)
    st = {"allow": False}
    finish(st, None)
    out.append(st)
    k = K()
    out.append([k.take(2), k.take(2), k.take(1), k.v])
    return out, LOG
''', "main", inlined={"m.resolve", "m.classify", "m.maybe", "m.total", "m.finish", "m.K._guard"}, not_inlined={"m.find"})

# 9 *args helpers
example('''
import os
def path_to(base, *parts):
    return os.path.join(base, *parts)
def tally(*xs, start=0):
    t = start
    for x in xs:
        t += x
    return t
def main():
    a = path_to("/r")
    b = path_to("/r", "x", "y" + "z")
    c = tally()
    d = tally(1, 2, 3, start=10)
    return a, b, c, d, os.path.join("/q", path_to("m", "n"))
''', "main", inlined={"m.path_to", "m.tally"})

# 10 a function handed to a helper as an optional argument: the helper's `is None` test is decided by the substitution
example('''
def fill(v):
    return [v] * 2
def nest(data, maker=None):
    if maker is None:
        out = list(data)
    else:
        out = list(data) + maker(data[0])
    return out
def main():
    a = nest([1, 2])
    b = nest([3, 4], fill)
    c = nest([5], maker=None)
    return a, b, c
''', "main", inlined={"m.nest"})

# 11 **kwargs handed on by a helper (with a `with` block and a function-valued argument)
example('''
import contextlib
LOG = []
@contextlib.contextmanager
def opened(tag):
    LOG.append(("open", tag))
    yield tag.upper()
    LOG.append(("close", tag))
def target(fn, a=0, b=0, c=0):
    LOG.append((fn, a, b, c))
    return a + b + c
def drive(run, tag, verbose, **settings):
    with opened(tag) as h:
        run(fn=h, a=verbose, **settings)
def peek(**kw):
    return sorted(kw)
def main():
    x = 5
    drive(target, "t", 1, b=x, c=2)
    drive(target, "u", 0)
    p = peek(z=1, y=2)
    return LOG, p
''', "main", inlined={"m.drive"}, not_inlined={"m.peek"})


def run(tree, entry):
    env = {}
    exec(compile(tree, "<example>", "exec"), env)
    return repr(env[entry]())


def main():
    known = {"m.main"}
    bad = 0
    for i, (src, entry, want, never) in enumerate(EXAMPLES, 1):
        t0 = ast.parse(src)
        before = run(t0, entry)
        t1 = ast.parse(src)
        inline._KNOWN = known
        done = inline.inline_new_helpers(t1, "m")
        ast.fix_missing_locations(t1)
        after = run(t1, entry)
        helpers = {h for _, h in done}
        ok = before == after and (want is None or want <= helpers) and not (set(never) & helpers)
        print("example %d: %s  inlined=%s" % (i, "ok" if ok else "FAILED", sorted(helpers)))
        if not ok:
            bad += 1
            print("  before:", before)
            print("  after: ", after)
            print(ast.unparse(t1))
    inline._KNOWN = None
    return 1 if bad else 0


if __name__ == "__main__":
    sys.exit(main())
