#!/usr/bin/env python3
"""Confirm a behaviour-preserving twin in a fresh worktree of /repo HEAD: demo passes on HEAD, patch applies,
demo passes with it, no HEAD-passing test lost.  Usage: confirm_twin.py <dir> <label>"""
import json, os, subprocess, sys, tempfile, shutil, xml.etree.ElementTree as ET
def passed(x):
    return {tc.get("classname") + "::" + tc.get("name") for tc in ET.parse(x).iter("testcase") if not any(c.tag in ("failure", "error", "skipped") for c in tc)}
def run(cmd, cwd, timeout=2400):
    return subprocess.run(cmd, cwd=cwd, shell=True, capture_output=True, text=True, timeout=timeout)
src, label = sys.argv[1], sys.argv[2]
wt = tempfile.mkdtemp(prefix="tw-%s-" % label, dir="/tmp/confirm"); os.rmdir(wt)
res = {"label": label}
try:
    run("git -C /repo worktree add -q --detach %s HEAD" % wt, "/")
    b = run("git apply %s/patch.diff" % src, wt)
    res["apply"] = b.returncode
    if b.returncode == 0:
        c = run("cd %s && /venv/bin/python %s/demo.py" % (wt, src), wt)
        res["demo_patched_exit"] = c.returncode
        x = "/tmp/confirm/%s.xml" % label
        run("cd %s && /venv/bin/python -m pytest -q -p no:cacheprovider --timeout=900 --junitxml=%s -q" % (wt, x), wt)
        res["tests_lost"] = sorted(passed("/tmp/confirm/base.xml") - passed(x)); os.remove(x)
        res["confirmed"] = c.returncode == 0 and not res["tests_lost"]
    else:
        res["confirmed"] = False
finally:
    run("git -C /repo worktree remove --force %s" % wt, "/"); shutil.rmtree(wt, ignore_errors=True)
print(json.dumps(res))
