#!/usr/bin/env python3
"""Confirm a seeded change: in a fresh scratch worktree of /repo HEAD
(a) demo passes, (b) patch applies, (c) demo fails with it, (d) every test that
passes on HEAD still passes.  Usage: confirm_seeded.py <dir with patch.diff demo.py> <label>
Prints one JSON line.  Removes the worktree afterwards."""
import json, os, subprocess, sys, tempfile, shutil, xml.etree.ElementTree as ET

def passed(xmlf):
    out = set()
    for tc in ET.parse(xmlf).iter("testcase"):
        if not any(c.tag in ("failure", "error", "skipped") for c in tc):
            out.add(tc.get("classname") + "::" + tc.get("name"))
    return out

def run(cmd, cwd, timeout=1500):
    return subprocess.run(cmd, cwd=cwd, shell=True, capture_output=True, text=True, timeout=timeout)

def main():
    src, label = sys.argv[1], sys.argv[2]
    base_xml = "/tmp/confirm/base.xml"
    wt = tempfile.mkdtemp(prefix="wt-%s-" % label, dir="/tmp/confirm")
    os.rmdir(wt)
    res = {"label": label}
    try:
        run("git -C /repo worktree add -q --detach %s HEAD" % wt, "/")
        env = "cd %s && " % wt
        a = run(env + "/venv/bin/python %s/demo.py" % src, wt)
        res["demo_clean_exit"] = a.returncode
        b = run("git apply %s/patch.diff" % src, wt)
        res["apply"] = b.returncode
        c = run(env + "/venv/bin/python %s/demo.py" % src, wt)
        res["demo_patched_exit"] = c.returncode
        res["demo_patched_tail"] = (c.stdout + c.stderr)[-300:]
        x = os.path.join("/tmp/confirm", label + ".xml")
        run(env + "/venv/bin/python -m pytest -q -p no:cacheprovider --timeout=900 --junitxml=%s -q" % x, wt)
        lost = sorted(passed(base_xml) - passed(x))
        res["tests_lost"] = lost
        os.remove(x)
        res["confirmed"] = (a.returncode == 0 and b.returncode == 0 and c.returncode != 0 and not lost)
    finally:
        run("git -C /repo worktree remove --force %s" % wt, "/")
        shutil.rmtree(wt, ignore_errors=True)
    print(json.dumps(res))

main()
