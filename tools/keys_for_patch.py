#!/usr/bin/env python3
"""Print the finding keys every claimed check reports for one patch (applied to a scratch copy)."""
import json, os, shutil, subprocess, sys, tempfile
sys.path.insert(0, "/verif")
from xyzsa.cli import run_property
patch = sys.argv[1]
props = sys.argv[2].split(",") if len(sys.argv) > 2 else [c["property_id"] for c in json.load(open("/verif/MANIFEST.json"))["checks"]]
tmp = tempfile.mkdtemp(prefix="kp-")
try:
    shutil.copytree("/repo/xyzpy", os.path.join(tmp, "xyzpy")); shutil.copy("/repo/setup.py", tmp)
    r = subprocess.run(["git", "apply", "--unsafe-paths", "--directory=" + tmp, patch], capture_output=True, text=True, cwd="/")
    assert r.returncode == 0, r.stderr
    for p in props:
        code, new, ctx, lines = run_property(p, "quick", tmp, write=False, quiet=True)
        for f in new:
            print(p, f.key)
finally:
    shutil.rmtree(tmp, ignore_errors=True)
