#!/usr/bin/env python3
"""Copy confirmed seeded changes from /tmp/seed/*.out into /verif/seeded/<id>/."""
import json, os, shutil, sys
res = {}
for l in open('/tmp/confirm/results.jsonl'):
    if l.startswith('{'):
        d = json.loads(l); res[d['label']] = d
for label, d in sorted(res.items()):
    prop, k = label.split('-')
    src = '/tmp/seed/%s.out/%s' % (prop, k)
    dst = '/verif/seeded/%s' % label
    if not d['confirmed']:
        print('NOT confirmed', label, d); continue
    os.makedirs(dst, exist_ok=True)
    for fn in ('patch.diff', 'demo.py', 'notes.md'):
        shutil.copy(os.path.join(src, fn), os.path.join(dst, fn))
    notes = open(os.path.join(src, 'notes.md')).read()
    meta = {
        "id": label, "property": prop, "origin": "independent sub-agent given only the property text and a scratch worktree",
        "base_commit": os.popen('git -C /repo rev-parse HEAD').read().strip(),
        "needs_to_manifest": "see notes.md",
        "confirmed_by": "tools/confirm_seeded.py in a fresh worktree: demo exit 0 on HEAD, git apply ok, demo exit %d with the patch, 0 of the HEAD-passing tests lost" % d['demo_patched_exit'],
        "demo_patched_tail": d.get('demo_patched_tail', '')[-200:],
    }
    json.dump(meta, open(os.path.join(dst, 'meta.json'), 'w'), indent=1)
print(len(res), 'archived')
