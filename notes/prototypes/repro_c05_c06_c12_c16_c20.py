import sys, cloudpickle
sys.modules["joblib.externals.cloudpickle"] = cloudpickle
import joblib.externals; joblib.externals.cloudpickle = cloudpickle
import xyzpy as xyz, numpy as np, os, tempfile, traceback, warnings
warnings.simplefilter('ignore')
d = tempfile.mkdtemp(); os.chdir(d)
# E4: constants as internal dims
def h(a, t): return [a*x for x in t]
r = xyz.Runner(h, var_names='y', var_dims={'y':['t']}, constants={'t':[1.,2.,3.]})
direct = r.run_combos({'a':[1,2]}, verbosity=0)
c = r.Crop(name='e4', parent_dir=d, batchsize=1)
c.sow_combos({'a':[1,2]}, verbosity=0); c.grow_missing(verbosity=0)
reaped = c.reap()
print("E4 identical:", direct.identical(reaped)); print(direct.coords, direct.attrs); print(reaped.coords, reaped.attrs)
# E5: ext-less harvester name
def f(a,b): return 10*a+b
rr = xyz.Runner(f, var_names='x')
H = xyz.Harvester(rr, data_name=os.path.join(d,'data'))
H.harvest_combos({'a':[1],'b':[1,2]}, verbosity=0)
print(os.listdir(d))
H2 = xyz.Harvester(rr, data_name=os.path.join(d,'data'))
H2.harvest_combos({'a':[2],'b':[1,2]}, verbosity=0)
print("E5 full a coords after 2nd session:", xyz.load_ds(os.path.join(d,'data')).a.values)
# same with save_merge_ds
ds1 = rr.run_combos({'a':[1],'b':[1,2]}, verbosity=0); ds2 = rr.run_combos({'a':[2],'b':[1,2]}, verbosity=0)
xyz.save_merge_ds(ds1, os.path.join(d,'m')); 
try:
    xyz.save_merge_ds(ds2, os.path.join(d,'m'))
    print("E5b a coords:", xyz.load_ds(os.path.join(d,'m')).a.values)
except Exception as e: print("E5b exc", type(e).__name__, e)
# E6 scripts
c = xyz.Crop(fn=f, name='e6', parent_dir=d, batchsize=1)
c.sow_combos({'a':[1,2],'b':[1,2]}, verbosity=0); c.grow(1, verbosity=0)
import ast, re
for sch in ['sge','pbs','slurm']:
  for mode in ['array','single']:
    for bids in [None,(2,),(2,3)]:
        s = c.gen_cluster_script(sch, batch_ids=bids, mode=mode, num_procs=1, gigabytes=1)
        py = s.split("<< EOM\n")[1].split("EOM\n")[0]
        py = re.sub(r"\$[A-Z_]+", "1", py)
        try: ast.parse(py); ok='ok'
        except SyntaxError as e: ok='SYNTAXERR '+str(e)
        print("E6", sch, mode, bids, ok)
# E8
print("E8", xyz.format_number_with_error(99.9, 9.96), xyz.format_number_with_error(99.9, 5.2), xyz.format_number_with_error(0.1542412, 0.0626653))
# E9 reap_samples deletion order
S = xyz.Sampler(rr, data_name=os.path.join(d,'nodir','samples.pkl'), default_combos={'a':[1,2,3],'b':[4,5]})
c = S.Crop(name='e9', parent_dir=d, batchsize=2)
c.sow_samples(4, verbosity=0); c.grow_missing(verbosity=0)
try: c.reap()
except Exception as e: print("E9 exc", type(e).__name__, str(e)[:80])
print("E9 crop dir still exists:", os.path.exists(c.location))
