"""Throw-away feasibility prototype of D-ZONE for C20 (not framework code).

Abstractly interprets format_number_with_error with a difference-bound matrix
over decimal exponents and checks the place-value obligation at the final
format: precision == 1 - e  (e = exponent of the 2-significant-digit error).
"""
import ast, itertools

SRC = open('/repo/xyzpy/utils.py').read()
FN = next(n for n in ast.parse(SRC).body
          if isinstance(n, ast.FunctionDef) and n.name == 'format_number_with_error')
INF = float('inf')


class Zone:
    """constraints v - w <= c ; variable 0 is the constant zero."""
    def __init__(self):
        self.vars = ['0']
        self.m = {('0', '0'): 0}
    def copy(self):
        z = Zone(); z.vars = list(self.vars); z.m = dict(self.m); return z
    def add_var(self, v):
        if v not in self.vars:
            self.vars.append(v)
    def get(self, a, b):
        return 0 if a == b else self.m.get((a, b), INF)
    def le(self, a, b, c):          # a - b <= c
        self.add_var(a); self.add_var(b)
        if c < self.get(a, b):
            self.m[(a, b)] = c
        self.close()
    def eq(self, a, b, c=0):        # a = b + c
        self.le(a, b, c); self.le(b, a, -c)
    def close(self):
        V = self.vars
        for k in V:
            for i in V:
                for j in V:
                    d = self.get(i, k) + self.get(k, j)
                    if d < self.get(i, j):
                        self.m[(i, j)] = d
    def feasible(self):
        return all(self.get(v, v) >= 0 and self.m.get((v, v), 0) >= 0 for v in self.vars)
    def ub(self, v): return self.get(v, '0')
    def lb(self, v): return -self.get('0', v)
    def forget(self, v):
        for k in list(self.m):
            if v in k: del self.m[k]


# --- idiom recognisers --------------------------------------------------
def is_exp_of(e, fmt):
    """int(f"{v:<fmt>}".split("e")[1]) -> name of v"""
    if (isinstance(e, ast.Call) and getattr(e.func, 'id', None) == 'int' and e.args
            and isinstance(e.args[0], ast.Subscript)):
        sp = e.args[0].value
        if (isinstance(sp, ast.Call) and isinstance(sp.func, ast.Attribute) and sp.func.attr == 'split'
                and isinstance(sp.func.value, ast.JoinedStr)):
            fv = sp.func.value.values[0]
            if isinstance(fv, ast.FormattedValue) and fv.format_spec is not None:
                spec = fv.format_spec.values[0].value
                if spec == fmt and isinstance(fv.value, ast.Name):
                    return fv.value.id
    return None


findings = []
fresh = itertools.count()


def L(v, ver):            # name of the true decimal exponent of (version of) float v
    return f"L({v}#{ver[v]})"


def run(stmts, z, ver, paths, cond):
    """returns list of (zone, ver, cond) for fall-through"""
    states = [(z, ver, cond)]
    for s in stmts:
        nxt = []
        for z, ver, cond in states:
            nxt.extend(step(s, z, ver, cond))
        states = nxt
    return states


def step(s, z, ver, cond):
    z = z.copy(); ver = dict(ver)
    if isinstance(s, ast.Expr):          # docstring
        return [(z, ver, cond)]
    if isinstance(s, ast.Assign):
        t = s.targets[0]
        v = s.value
        # x_exponent = max(E6(x), E6(err) + 1)
        if isinstance(t, ast.Name) and isinstance(v, ast.Call) and getattr(v.func, 'id', None) == 'max':
            X = t.id; z.add_var(X)
            for a in v.args:
                k = 0
                if isinstance(a, ast.BinOp) and isinstance(a.op, ast.Add):
                    k = a.right.value; a = a.left
                src = is_exp_of(a, 'e')
                assert src, ast.unparse(a)
                E = f"E6({src})"; z.add_var(E)
                z.le(L(src, ver), E, 0)          # L <= E6
                z.le(E, L(src, ver), 1)          # E6 <= L + 1 (rounding up)
                z.le(E, X, -k)                   # X >= E6 + k
            return [(z, ver, cond)]
        # hide_exponent = (X in (0,-1)) or ((X == 1) and (err < abs(x/10)))
        if isinstance(t, ast.Name) and isinstance(v, ast.BoolOp) and isinstance(v.op, ast.Or):
            ver['__hide__'] = v
            return [(z, ver, cond)]
        # x = x / 10**X
        if (isinstance(t, ast.Name) and isinstance(v, ast.BinOp) and isinstance(v.op, ast.Div)
                and isinstance(v.right, ast.BinOp) and isinstance(v.right.op, ast.Pow)
                and v.right.left.value == 10 and isinstance(v.left, ast.Name) and v.left.id == t.id):
            X = v.right.right.id
            old = L(t.id, ver)
            ver[t.id] += 1
            new = L(t.id, ver); z.add_var(new)
            # projection of the difference old - X into an interval for new
            ub = z.get(old, X); lb = -z.get(X, old)
            if ub < INF: z.le(new, '0', ub)
            if lb > -INF: z.le('0', new, -lb)
            ver.setdefault('__scaled__', []).append((t.id, X))
            return [(z, ver, cond)]
        if isinstance(t, ast.Name) and t.id == 'suffix':
            ver['__suffix__'] = ast.unparse(v)
            return [(z, ver, cond)]
        # mantissa, exponent = f"{err:.1e}".split("e")
        if isinstance(t, ast.Tuple) and isinstance(v, ast.Call) and getattr(v.func, 'attr', None) == 'split':
            fv = v.func.value.values[0]
            spec = fv.format_spec.values[0].value
            src = fv.value.id
            assert spec == '.1e'
            e = 'e'; z.add_var(e)
            z.le(L(src, ver), e, 0); z.le(e, L(src, ver), 1)
            ver['__mant_digits__'] = 2
            return [(z, ver, cond)]
        if isinstance(t, ast.Tuple):          # mantissa.replace / int(exponent)
            return [(z, ver, cond)]
    if isinstance(s, ast.If):
        test = s.test
        if isinstance(test, ast.Name) and test.id == 'hide_exponent':
            disj = ver['__hide__'].values
            out = []
            # true branch: one state per disjunct
            for d in disj:
                zz = z.copy(); c = cond + [ast.unparse(d)]
                comps = [d] if isinstance(d, ast.Compare) else [x for x in d.values if isinstance(x, ast.Compare)]
                for cp in comps:
                    if isinstance(cp.ops[0], ast.In):
                        vals = [ast.literal_eval(x) for x in cp.comparators[0].elts]
                        zz.le(cp.left.id, '0', max(vals)); zz.le('0', cp.left.id, -min(vals))
                    elif isinstance(cp.ops[0], ast.Eq):
                        k = ast.literal_eval(cp.comparators[0])
                        zz.le(cp.left.id, '0', k); zz.le('0', cp.left.id, -k)
                    # err < abs(x / 10): not needed for the bound (ignored = sound over-approx.)
                out.extend(run(s.body, zz, dict(ver), None, c))
            # false branch: negation not needed for the bound either
            out.extend(run(s.orelse, z.copy(), dict(ver), None, cond + ['not hide_exponent']))
            return out
    if isinstance(s, ast.Return):
        # f"{x:.{P}f}({mantissa}){suffix}"
        fv = s.value.values[0]
        spec = fv.format_spec
        P = spec.values[1].value          # the precision expression
        ptxt = ast.unparse(P)
        ub, lb = z.ub('e'), z.lb('e')
        # obligation: P == 1 - e for every e in [lb, ub]
        def P_of(e):
            return eval(compile(ast.Expression(P), '<p>', 'eval'), {'exponent': e, 'abs': abs, 'max': max})
        bad = [e for e in range(int(max(lb, -400)), int(ub) + 1) if P_of(e) != 1 - e]
        findings.append((cond, f"e in [{lb}, {ub}]", ptxt, bad))
        return []
    return [(z, ver, cond)]


z = Zone()
ver = {'x': 0, 'err': 0}
z.add_var(L('x', ver)); z.add_var(L('err', ver))
run(FN.body, z, ver, None, [])
for cond, rng, ptxt, bad in findings:
    print('path:', ' & '.join(cond) or 'true', '|', rng, '| precision =', ptxt,
          '| VIOLATES place-value at e =' + str(bad) if bad else '| ok')
