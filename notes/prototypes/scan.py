import ast, sys, os, importlib, glob
ROOT='/repo/xyzpy'
def resolve(root_mod, chain):
    try: obj = importlib.import_module(root_mod)
    except Exception as e: return f"IMPORT-FAIL {root_mod}: {e}"
    path = root_mod
    for a in chain:
        if hasattr(obj, a): obj = getattr(obj, a); path += '.'+a; continue
        try:
            obj = importlib.import_module(path+'.'+a); path += '.'+a; continue
        except Exception: return f"NOATTR {path}.{a}"
        # stop descending into instances
    return None
for f in sorted(glob.glob(ROOT+'/**/*.py', recursive=True)):
    src=open(f).read(); tree=ast.parse(src)
    alias={}  # name -> (module, chain)
    for n in ast.walk(tree):
        if isinstance(n, ast.Import):
            for a in n.names:
                if a.asname: alias[a.asname]=(a.name,[])
                else: alias[a.name.split('.')[0]]=(a.name.split('.')[0],[])
        elif isinstance(n, ast.ImportFrom) and n.level==0 and n.module:
            for a in n.names:
                alias[a.asname or a.name]=(n.module,[a.name])
                r=resolve(n.module,[a.name])
                if r: print(f"{f}:{n.lineno}: from-import {r}")
    for n in ast.walk(tree):
        if isinstance(n, ast.Attribute):
            chain=[]; cur=n
            while isinstance(cur, ast.Attribute): chain.append(cur.attr); cur=cur.value
            if isinstance(cur, ast.Name) and cur.id in alias:
                mod,pre=alias[cur.id]
                if mod.split('.')[0] in ('xyzpy',): continue
                full=pre+chain[::-1]
                # only check prefix while objects are modules/classes/functions
                r=resolve_prefix=None
                try:
                    obj=importlib.import_module(mod); path=mod; ok=True
                    for a in full:
                        import types, inspect
                        if not (inspect.ismodule(obj) or inspect.isclass(obj)): break
                        if hasattr(obj,a): obj=getattr(obj,a); path+='.'+a
                        else:
                            try: obj=importlib.import_module(path+'.'+a); path+='.'+a
                            except Exception:
                                print(f"{f}:{n.lineno}: NOATTR {path}.{a}"); break
                except Exception as e:
                    print(f"{f}:{n.lineno}: IMPORT-FAIL {mod} {e}")
