"""Throw-away prototype of C04.R1 (shuffle persisted == shuffle enumerated)."""
import ast, sys
src=open(sys.argv[1] if len(sys.argv)>1 else '/repo/xyzpy/gen/cropping.py').read(); mod=ast.parse(src)
crop=next(n for n in mod.body if isinstance(n,ast.ClassDef) and n.name=='Crop')
ENUMERATORS={'combo_runner_core':False,'case_runner':False}   # callee default of `shuffle`
def methods(): return [n for n in crop.body if isinstance(n,ast.FunctionDef)]
def calls(fn,name): return [c for c in ast.walk(fn) if isinstance(c,ast.Call) and ast.unparse(c.func).endswith(name)]
for m in methods():
    enum=[c for n in ENUMERATORS for c in calls(m,n) if any(isinstance(w,ast.With) and 'Sower' in ast.unparse(w.items[0]) for w in ast.walk(m))]
    if not enum or not calls(m,'self.prepare'): continue
    params=[a.arg for a in m.args.args]
    vals=[('None',True),('not None',False)] if 'shuffle' in params else [('-',None)]
    for label,isnone in vals:
        facts=set()
        def walk(stmts):
            for s in stmts:
                if isinstance(s,ast.If):
                    t=s.test
                    if isinstance(t,ast.Compare) and ast.unparse(t.left)=='shuffle' and isinstance(t.comparators[0],ast.Constant) and t.comparators[0].value is None and isnone is not None:
                        truth = (not isnone) if isinstance(t.ops[0],ast.IsNot) else isnone
                        walk(s.body if truth else s.orelse); continue
                    walk(s.body); walk(s.orelse)   # (join omitted: no other stores to self.shuffle)
                elif isinstance(s,ast.Assign) and ast.unparse(s.targets[0])=='self.shuffle':
                    facts.clear(); facts.add(ast.unparse(s.value))
                elif isinstance(s,ast.With): walk(s.body)
                elif isinstance(s,ast.Expr) and isinstance(s.value,ast.Call) and s.value in enum:
                    c=s.value; kw={k.arg:k.value for k in c.keywords}
                    callee=ast.unparse(c.func)
                    if 'shuffle' in kw:
                        a=ast.unparse(kw['shuffle']); ok = a=='self.shuffle' or a in facts
                        what=f"passes shuffle={a}"
                    else:
                        ok = repr(ENUMERATORS[callee]) in facts; what=f"passes no shuffle (callee default {ENUMERATORS[callee]})"
                    print(f"Crop.{m.name} [shuffle {label}] line {c.lineno}: {callee} {what}; persisted self.shuffle must-equals {sorted(facts) or 'unknown'} ->", 'ok' if ok else 'VIOLATION')
        walk(m.body)
