"""Throw-away prototype of D-POLY for C19 (not framework code)."""
import ast
from fractions import Fraction
from collections import defaultdict

class Poly(dict):
    @staticmethod
    def const(c): return Poly({(): Fraction(c)}) if c else Poly()
    @staticmethod
    def var(v): return Poly({((v,1),): Fraction(1)})
    def __add__(a,b):
        r=Poly(a)
        for k,v in b.items():
            r[k]=r.get(k,0)+v
            if r[k]==0: del r[k]
        return r
    def __neg__(a): return Poly({k:-v for k,v in a.items()})
    def __sub__(a,b): return a+(-b)
    def __mul__(a,b):
        r=defaultdict(Fraction)
        for k1,v1 in a.items():
            for k2,v2 in b.items():
                d=dict(k1)
                for x,e in k2: d[x]=d.get(x,0)+e
                r[tuple(sorted(d.items()))]+=v1*v2
        return Poly({k:v for k,v in r.items() if v})

class Rat:
    def __init__(s,n,d=None): s.n=n; s.d=d if d is not None else Poly.const(1)
    def __add__(a,b): return Rat(a.n*b.d+b.n*a.d, a.d*b.d)
    def __sub__(a,b): return Rat(a.n*b.d-b.n*a.d, a.d*b.d)
    def __mul__(a,b): return Rat(a.n*b.n, a.d*b.d)
    def __truediv__(a,b): return Rat(a.n*b.d, a.d*b.n)
    def __eq__(a,b): return (a.n*b.d - b.n*a.d)==Poly()
def V(x): return Rat(Poly.var(x))
def K(c): return Rat(Poly.const(c))

src=open('/repo/xyzpy/utils.py').read(); mod=ast.parse(src)
def method(cls,name):
    c=next(n for n in mod.body if isinstance(n,ast.ClassDef) and n.name==cls)
    return next(n for n in c.body if isinstance(n,ast.FunctionDef) and n.name==name)

def ev(e,env):
    if isinstance(e,ast.Name): return env[e.id]
    if isinstance(e,ast.Attribute) and isinstance(e.value,ast.Name) and e.value.id=='self': return env['self.'+e.attr]
    if isinstance(e,ast.Constant): return K(e.value)
    if isinstance(e,ast.BinOp):
        a,b=ev(e.left,env),ev(e.right,env)
        return {ast.Add:a.__add__,ast.Sub:a.__sub__,ast.Mult:a.__mul__,ast.Div:a.__truediv__}[type(e.op)](b)
    raise NotImplementedError(ast.dump(e))
def run(fn,env):
    for s in fn.body:
        if isinstance(s,ast.Expr): continue
        tgt=s.target if isinstance(s,ast.AugAssign) else s.targets[0]
        name = tgt.id if isinstance(tgt,ast.Name) else 'self.'+tgt.attr
        val=ev(s.value,env)
        if isinstance(s,ast.AugAssign):
            cur=env[name]; val={ast.Add:cur.__add__,ast.Sub:cur.__sub__}[type(s.op)](val)
        env[name]=val
    return env

n,S1,S2,x=V('n'),V('S1'),V('S2'),V('x')
env={'self.count':n,'self.mean':S1/n,'self.M2':S2-S1*S1/n,'x':x}
out=run(method('RunningStatistics','update'),env)
print('count ok',out['self.count']==n+K(1))
print('mean  ok',out['self.mean']==(S1+x)/(n+K(1)))
print('M2    ok',out['self.M2']==(S2+x*x)-(S1+x)*(S1+x)/(n+K(1)))
env={'self.count':K(0),'self.mean':K(0),'self.M2':K(0),'x':x}
out=run(method('RunningStatistics','update'),env)
print('base  ok',out['self.mean']==x, out['self.M2']==K(0), out['self.count']==K(1))
Sx,Sy,Sxy,y=V('Sx'),V('Sy'),V('Sxy'),V('y')
env={'self.count':n,'self.xmean':Sx/n,'self.ymean':Sy/n,'self.C':Sxy-Sx*Sy/n,'x':x,'y':y}
out=run(method('RunningCovariance','update'),env)
print('cov C ok',out['self.C']==(Sxy+x*y)-(Sx+x)*(Sy+y)/(n+K(1)), 'means', out['self.xmean']==(Sx+x)/(n+K(1)), out['self.ymean']==(Sy+y)/(n+K(1)))
# mutant: M2 += delta*delta
m=method('RunningStatistics','update'); m.body[-1].value=ast.parse('delta*delta').body[0].value
env={'self.count':n,'self.mean':S1/n,'self.M2':S2-S1*S1/n,'x':x}
print('mutant M2 detected', not (run(m,env)['self.M2']==(S2+x*x)-(S1+x)*(S1+x)/(n+K(1))))
