import ast, glob, os, sys, importlib, builtins
def names_in_pkg(pkg):
    m = importlib.import_module(pkg); root = os.path.dirname(m.__file__)
    out=set()
    for f in glob.glob(root+'/**/*.py', recursive=True)+glob.glob(root+'/**/*.pyi', recursive=True):
        try: t=ast.parse(open(f, encoding='utf8', errors='ignore').read())
        except Exception: continue
        for n in ast.walk(t):
            if isinstance(n,(ast.FunctionDef,ast.AsyncFunctionDef,ast.ClassDef)): out.add(n.name)
            elif isinstance(n, ast.Attribute): out.add(n.attr) if isinstance(n.ctx, ast.Store) else None
            elif isinstance(n, ast.Name) and isinstance(n.ctx, ast.Store): out.add(n.id)
            elif isinstance(n, ast.arg): out.add(n.arg)
            elif isinstance(n, ast.alias): out.add((n.asname or n.name).split('.')[0])
    return out
U=set()
for p in ['matplotlib','numpy','xarray','pandas','joblib','tqdm','dask']:
    U|=names_in_pkg(p)
# stdlib/builtin types
import collections, itertools, functools, pathlib, re as _re
for o in [str,bytes,list,dict,set,tuple,int,float,complex,object,type(None),range,slice,type,BaseException,frozenset,pathlib.Path,type(open(os.devnull)), collections.OrderedDict, collections.defaultdict, _re.Match, functools.partial]:
    U|=set(dir(o))
import numpy as np
U|=set(dir(np.ndarray))|set(dir(np.float64))|set(dir(np.ma.MaskedArray))
R=set()
files=glob.glob('/repo/xyzpy/**/*.py', recursive=True)
for f in files:
    t=ast.parse(open(f).read())
    for n in ast.walk(t):
        if isinstance(n,(ast.FunctionDef,ast.ClassDef)): R.add(n.name)
        elif isinstance(n, ast.Attribute) and isinstance(n.ctx, ast.Store): R.add(n.attr)
        elif isinstance(n, ast.Name) and isinstance(n.ctx, ast.Store): R.add(n.id)
        elif isinstance(n, ast.Constant) and isinstance(n.value,str) and n.value.isidentifier(): R.add(n.value)  # setattr by string (PLOTTER_DEFAULTS keys)
        elif isinstance(n, ast.keyword) and n.arg: R.add(n.arg)
for f in sorted(files):
    if 'bokeh' in f or 'ray_' in f: continue
    t=ast.parse(open(f).read())
    for n in ast.walk(t):
        if isinstance(n, ast.Attribute) and isinstance(n.ctx, ast.Load) and n.attr not in U and n.attr not in R:
            print(f"{f}:{n.lineno}: .{n.attr}")
