"""Throw-away feasibility prototype for C16 (not framework code).

Folds the module-level string templates of cropping.py, abstractly interprets
gen_cluster_script for each (scheduler, mode, batch-state) configuration to get
the template concatenation and the definite opts keys, then checks fields and
parses the embedded Python.
"""
import ast, itertools, re, string

SRC = open('/repo/xyzpy/gen/cropping.py').read()
MOD = ast.parse(SRC)

# ---- fold module-level string constants
consts = {}
def fold(e):
    if isinstance(e, ast.Constant) and isinstance(e.value, str):
        return e.value
    if isinstance(e, ast.BinOp) and isinstance(e.op, ast.Add):
        a, b = fold(e.left), fold(e.right)
        return None if a is None or b is None else a + b
    if isinstance(e, ast.Name):
        return consts.get(e.id)
    return None
for n in MOD.body:
    if isinstance(n, ast.Assign) and len(n.targets) == 1 and isinstance(n.targets[0], ast.Name):
        v = fold(n.value)
        if v is not None:
            consts[n.targets[0].id] = v
print(len(consts), 'string constants folded')

fn = next(n for n in MOD.body if isinstance(n, ast.FunctionDef) and n.name == 'gen_cluster_script')

class Abort(Exception):
    pass

def run(config):
    """config: scheduler, mode, batch_ids_given, num_results_zero"""
    env = {'scheduler': config['scheduler'], 'mode': config['mode']}
    keys = None      # definite keys of opts
    types = {}
    script = None
    array_mode = [None]

    def ev_test(t):
        # returns True/False/None
        if isinstance(t, ast.Compare) and len(t.ops) == 1:
            l, op, r = t.left, t.ops[0], t.comparators[0]
            if isinstance(l, ast.Name) and l.id in ('scheduler', 'mode', 'array_mode') and isinstance(r, ast.Constant):
                val = array_mode[0] if l.id == 'array_mode' else env[l.id]
                if isinstance(op, ast.Eq): return val == r.value
                if isinstance(op, ast.NotEq): return val != r.value
            if isinstance(l, ast.Name) and l.id in ('scheduler', 'mode') and isinstance(r, (ast.Tuple, ast.Set)):
                vals = [c.value for c in r.elts]
                if isinstance(op, ast.In): return env[l.id] in vals
                if isinstance(op, ast.NotIn): return env[l.id] not in vals
            if isinstance(l, ast.Name) and l.id == 'batch_ids' and isinstance(r, ast.Constant) and r.value is None:
                isnone = not config['ids_given']
                return isnone if isinstance(op, ast.Is) else not isnone
            if ast.unparse(l) == 'crop.num_results' and isinstance(r, ast.Constant) and r.value == 0:
                return config['no_results']
        if isinstance(t, ast.BoolOp) and isinstance(t.op, ast.And):
            vs = [ev_test(v) for v in t.values]
            if any(v is False for v in vs): return False
            if all(v is True for v in vs): return True
        return None

    def touches(stmts):
        for s in stmts:
            for n in ast.walk(s):
                if isinstance(n, ast.Name) and n.id in ('script', 'opts', 'array_mode') and isinstance(n.ctx, ast.Store):
                    return True
                if isinstance(n, ast.Subscript) and isinstance(n.value, ast.Name) and n.value.id == 'opts' and isinstance(n.ctx, ast.Store):
                    return True
        return False

    def walk(stmts):
        nonlocal keys, script
        for s in stmts:
            if isinstance(s, ast.If):
                t = ev_test(s.test)
                if t is True: walk(s.body)
                elif t is False: walk(s.orelse)
                else:
                    if touches(s.body) or touches(s.orelse):
                        # only acceptable when it is the PBS size-1 post-processing
                        if 'script.replace' in ast.unparse(s):
                            continue
                        raise Abort('undecided branch touching script/opts: ' + ast.unparse(s.test))
            elif isinstance(s, ast.Assign) and isinstance(s.targets[0], ast.Name):
                n = s.targets[0].id
                if n == 'opts' and isinstance(s.value, ast.Dict):
                    keys = {k.value for k in s.value.keys}
                elif n == 'script':
                    if isinstance(s.value, ast.Name):
                        script = consts[s.value.id]
                    elif 'script.format' in ast.unparse(s.value):
                        pass
                elif n == 'array_mode':
                    array_mode[0] = s.value.value
            elif isinstance(s, ast.Assign) and isinstance(s.targets[0], ast.Subscript) and ast.unparse(s.targets[0].value) == 'opts':
                k = s.targets[0].slice.value
                keys.add(k)
                types[k] = ast.unparse(s.value)
            elif isinstance(s, ast.AugAssign) and isinstance(s.target, ast.Name) and s.target.id == 'script':
                script += consts[s.value.id]
    walk(fn.body)
    return script, keys, types

configs = [dict(scheduler=a, mode=b, ids_given=c, no_results=d)
           for a in ('sge', 'pbs', 'slurm') for b in ('array', 'single')
           for c, d in ((True, True), (False, True), (False, False))]
REPR = {'batch_ids': {'tuple(batch_ids)': '(2, 3)', "range(1, crop.num_batches + 1)": 'range(1, 5)',
                      'crop.missing_results()': '(2, 3)', "'crop.missing_results()'": 'crop.missing_results()'}}
bad = 0
for c in configs:
    script, keys, types = run(c)
    fields = {f for _, f, _, _ in string.Formatter().parse(script) if f}
    missing = fields - keys
    vals = {k: '1' for k in fields}
    vals['batch_ids'] = REPR['batch_ids'][types['batch_ids']]
    vals.update(setup='#', shell_setup='', header_options='', num_workers='None', debugging='False', name='c', parent_dir='/p',
                launcher='python', output_directory='/o', working_directory='/p')
    text = script.format(**vals)
    py = text.split("<< EOM\n")[1].split("EOM\n")[0]
    py = re.sub(r"\$[A-Z_]+", "1", py)
    try:
        ast.parse(py); ok = 'python-ok'
    except SyntaxError as e:
        ok = f'SYNTAX-ERROR {e.msg}'; bad += 1
    print(c['scheduler'], c['mode'], 'ids' if c['ids_given'] else ('fresh' if c['no_results'] else 'partial'),
          '| missing fields:', sorted(missing), '|', ok, '| batch_ids <-', types['batch_ids'])
print('configs', len(configs), 'not python:', bad)
