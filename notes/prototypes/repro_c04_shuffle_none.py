import sys, cloudpickle
sys.modules["joblib.externals.cloudpickle"] = cloudpickle
import joblib.externals; joblib.externals.cloudpickle = cloudpickle
import xyzpy as xyz, os, tempfile
d = tempfile.mkdtemp()
def f(a,b): return 10*a+b
# sow_combos(shuffle=None) with constructor shuffle=True
c = xyz.Crop(fn=f, name='s', parent_dir=d, shuffle=True, batchsize=2)
c.sow_combos({'a':[1,2,3],'b':[4,5]}, shuffle=None, verbosity=0)
print('persisted shuffle:', c.load_info()['shuffle'])
c.grow_missing(verbosity=0)
print('reaped', c.reap(), 'expected', xyz.combo_runner(f, {'a':[1,2,3],'b':[4,5]}, verbosity=0))
# Harvester crash window: does file vanish between remove and save? (static reading suffices) 
# truncated pickle always errors?
import pickle
blob = pickle.dumps(tuple(range(1000)))
ok=0
for k in range(len(blob)):
    try: pickle.loads(blob[:k]); ok+=1
    except Exception: pass
print('prefixes that load successfully:', ok, 'of', len(blob))
