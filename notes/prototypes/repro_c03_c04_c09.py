import sys, cloudpickle
sys.modules["joblib.externals.cloudpickle"] = cloudpickle
import joblib.externals; joblib.externals.cloudpickle = cloudpickle
import xyzpy as xyz, numpy as np, os, tempfile, traceback
def f(a,b): return 10*a+b
# E1
df = xyz.combo_runner_to_df(f, {'a':[1,2,3],'b':[4,5,6,7]}, var_names=['x'], shuffle=3, verbosity=0)
bad = df[df.x != 10*df.a+df.b]
print("E1 mispaired rows:", len(bad), "of", len(df))
# E2
d = tempfile.mkdtemp()
c = xyz.Crop(fn=f, name='e2', parent_dir=d, shuffle=True, batchsize=2)
cases=[(1,4),(2,5),(3,6),(1,7),(2,8)]
c.sow_cases(['a','b'], cases, verbosity=0)
c.grow_missing(verbosity=0)
r = c.reap()
print("E2 reaped:", r, "expected", tuple(f(*x) for x in cases))
# E3 remainder
for miss in [1,2,3,4]:
    c = xyz.Crop(fn=f, name='e3', parent_dir=d, num_batches=4)
    c.sow_combos({'a':[1,2,3],'b':[4,5]}, verbosity=0)   # n=6, 4 batches: sizes 2,2,1,1 rem=2
    ids=[i for i in range(1,5) if i!=miss]
    c.grow(ids, verbosity=0)
    try:
        r = c.reap(allow_incomplete=True, clean_up=True)
        print("E3 miss",miss,"ok", r)
    except Exception as e:
        print("E3 miss",miss,"FAIL", type(e).__name__, e)
        c.delete_all()
# E3b bool result
def g(a,b): return a>b
c = xyz.Crop(fn=g, name='e3b', parent_dir=d, batchsize=1)
c.sow_combos({'a':[1,2],'b':[1,2]}, verbosity=0)
c.grow([1,2], verbosity=0)
try:
    print("E3b", c.reap(allow_incomplete=True))
except Exception as e:
    print("E3b FAIL", type(e).__name__, e)
