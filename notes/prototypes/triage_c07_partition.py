import sys, cloudpickle, warnings, math, pickle, glob, os, tempfile, shutil; warnings.simplefilter('ignore')
sys.modules['joblib.externals.cloudpickle'] = cloudpickle
import joblib.externals; joblib.externals.cloudpickle = cloudpickle
import xyzpy as xyz
def f(a): return a
d = tempfile.mkdtemp(); bad=[]
for N in range(1, 25):
    for kind, rng in (('batchsize', range(1, N+2)), ('num_batches', range(1, N+3))):
        for v in rng:
            c = xyz.Crop(fn=f, name='p', parent_dir=d, **{kind: v})
            try:
                c.sow_combos({'a': list(range(N))}, verbosity=0)
            except Exception as e:
                bad.append((N, kind, v, repr(e))); shutil.rmtree(c.location, ignore_errors=True); continue
            files = sorted(glob.glob(os.path.join(c.location, 'batches', '*')), key=lambda s: int(s.split('-')[-1].split('.')[0]))
            sizes = [len(pickle.load(open(x,'rb'))) for x in files]
            B = len(sizes)
            if kind == 'batchsize':
                ok = B == math.ceil(N/v) and max(sizes) <= v and sum(sizes)==N and min(sizes)>=1
            else:
                ok = B == min(v, N) and max(sizes)-min(sizes) <= 1 and sum(sizes)==N and min(sizes)>=1
            ok = ok and c.num_batches == B and c.num_sown_batches == B
            c2 = xyz.Crop(name='p', parent_dir=d); ok = ok and c2.num_batches == B and c2.batchsize == c.batchsize
            if not ok: bad.append((N, kind, v, sizes, c.num_batches, c.batchsize))
            shutil.rmtree(c.location)
print('violations', len(bad), bad[:5])
