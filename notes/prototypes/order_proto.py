"""Throw-away feasibility prototype of the D-ORDER domain (not framework code).

Syntax-directed abstract interpretation of combo_runner_core under each
truthiness valuation of a few flags; reports order tags at zip sinks and of
info["settings"] vs the returned value.
"""
import ast, itertools, sys

SRC = open('/repo/xyzpy/gen/combo_runner.py').read()
MOD = ast.parse(SRC)
FUNCS = {n.name: n for n in MOD.body if isinstance(n, ast.FunctionDef)}


class Seq:
    def __init__(self, order, elem):
        self.order, self.elem = order, elem
    def __repr__(self):
        return f"Seq({self.order},{self.elem})"
    def __eq__(self, o):
        return isinstance(o, Seq) and (self.order, self.elem) == (o.order, o.elem)


class DictLit(dict):
    pass


TOP = '?'
fresh = itertools.count()
findings = []


def truth(env, flags, test):
    """evaluate a branch test to True/False/None(unknown)."""
    if isinstance(test, ast.Name):
        if test.id in flags:
            return flags[test.id]
        v = env.get(test.id)
        if v in (True, False):
            return v
        return None
    if isinstance(test, ast.UnaryOp) and isinstance(test.op, ast.Not):
        t = truth(env, flags, test.operand)
        return None if t is None else (not t)
    if isinstance(test, ast.BoolOp):
        ts = [truth(env, flags, v) for v in test.values]
        if isinstance(test.op, ast.Or):
            if any(t is True for t in ts): return True
            if all(t is False for t in ts): return False
        else:
            if any(t is False for t in ts): return False
            if all(t is True for t in ts): return True
        return None
    if isinstance(test, ast.Compare) and len(test.ops) == 1:
        l = test.left
        if isinstance(l, ast.Name) and isinstance(test.comparators[0], ast.Constant) and test.comparators[0].value is None:
            if l.id in flags_none:
                isnone = flags_none[l.id]
                return isnone if isinstance(test.ops[0], ast.Is) else (not isnone)
    return None


flags_none = {}


class Interp:
    def __init__(self, flags, summaries):
        self.flags = flags
        self.summ = summaries
        self.env = {}
        self.info = {}
        self.ret = None
        self.closures = {}

    # ---------------- expressions
    def ev(self, e):
        env = self.env
        if isinstance(e, ast.Name):
            return env.get(e.id, TOP)
        if isinstance(e, ast.Constant):
            return e.value if isinstance(e.value, bool) else TOP
        if isinstance(e, (ast.List, ast.Tuple)) and not e.elts:
            return Seq('EMPTY', None)
        if isinstance(e, ast.Dict):
            d = DictLit()
            for k, v in zip(e.keys, e.values):
                if isinstance(k, ast.Constant):
                    d[k.value] = self.ev(v)
            return d
        if isinstance(e, ast.Call):
            return self.call(e)
        if isinstance(e, ast.GeneratorExp) or isinstance(e, ast.ListComp):
            # single-for, no filter: order preserving map
            g = e.generators[0]
            it = self.ev(g.iter)
            if len(e.generators) == 1 and not g.ifs and isinstance(it, Seq):
                saved = dict(self.env)
                self.bind(g.target, self.elem_of(it))
                el = self.ev(e.elt)
                self.env = saved
                return Seq(it.order, el if el is not TOP else 'mapped')
            return TOP
        if isinstance(e, ast.Subscript):
            v = self.ev(e.value)
            if isinstance(v, Seq) and isinstance(e.slice, ast.Constant):
                return self.elem_of(v)
            return TOP
        return TOP

    def elem_of(self, s):
        return s.elem if s.elem is not None else TOP

    def call(self, c):
        f = c.func
        name = f.id if isinstance(f, ast.Name) else (
            ast.unparse(f) if isinstance(f, ast.Attribute) else None)
        args = [self.ev(a.value if isinstance(a, ast.Starred) else a) for a in c.args]
        starred = [isinstance(a, ast.Starred) for a in c.args]
        if name in ('list', 'tuple', 'iter') and args:
            return args[0]
        if name == 'enumerate' and isinstance(args[0], Seq):
            s = args[0]
            return Seq(s.order, ('pair', ('idx', s.order), s.elem))
        if name == 'zip':
            if len(args) == 1 and starred[0]:
                s = args[0]
                if isinstance(s, Seq) and isinstance(s.elem, tuple) and s.elem[0] == 'pair':
                    return ('unzip', Seq(s.order, s.elem[1]), Seq(s.order, s.elem[2]))
                if isinstance(s, Seq):   # transpose of per-setting tuples
                    return Seq('VARS', Seq(s.order, 'component'))
                return TOP
            seqs = [a for a in args if isinstance(a, Seq)]
            if len(seqs) == 2 and len(args) == 2:
                a, b = seqs
                ok = a.order == b.order
                self.sink(c, a, b, ok)
                return Seq(a.order if ok else TOP, ('pair', a.elem, b.elem))
            return TOP
        if name == 'sorted' and isinstance(args[0], Seq):
            s = args[0]
            comp = 0
            rev = False
            for kw in c.keywords:
                if kw.arg == 'key' and isinstance(kw.value, ast.Lambda):
                    b = kw.value.body
                    if isinstance(b, ast.Subscript) and isinstance(b.slice, ast.Constant):
                        comp = b.slice.value
                    else:
                        comp = None
                if kw.arg == 'reverse':
                    rev = True
            if isinstance(s.elem, tuple) and s.elem[0] == 'pair' and comp is not None:
                key = s.elem[1 + comp]
                if isinstance(key, tuple) and key[0] == 'idx' and not rev:
                    return Seq(key[1], s.elem)
            return Seq(TOP, s.elem)
        if name == 'dict' and args and isinstance(args[0], Seq):
            return args[0]
        if name in self.summ:   # in-repo order-preserving maps (verified separately)
            kw = {k.arg: self.ev(k.value) for k in c.keywords if k.arg}
            for k in c.keywords:
                if k.arg is None:
                    d = self.ev(k.value)
                    if isinstance(d, DictLit):
                        kw.update(d)
            s = kw.get(self.summ[name])
            if isinstance(s, Seq):
                return Seq(s.order, 'result')
            return TOP
        if name in self.closures:
            return self.run_closure(name, args)
        return TOP

    def sink(self, node, a, b, ok):
        findings.append((dict(self.flags), node.lineno, ast.unparse(node), a, b, ok))

    # ---------------- statements
    def bind(self, target, val):
        if isinstance(target, ast.Name):
            self.env[target.id] = val
        elif isinstance(target, ast.Tuple):
            if isinstance(val, tuple) and val and val[0] == 'unzip':
                for t, v in zip(target.elts, val[1:]):
                    self.bind(t, v)
            elif isinstance(val, tuple) and val and val[0] == 'pair':
                for t, v in zip(target.elts, val[1:]):
                    self.bind(t, v)
            else:
                for t in target.elts:
                    self.bind(t, TOP)
        elif isinstance(target, ast.Subscript):
            if isinstance(target.value, ast.Name) and target.value.id == 'info' and isinstance(target.slice, ast.Constant):
                self.info[target.slice.value] = val

    def run(self, stmts):
        for s in stmts:
            if isinstance(s, ast.Assign):
                v = self.ev(s.value)
                for t in s.targets:
                    self.bind(t, v)
            elif isinstance(s, ast.Expr) and isinstance(s.value, ast.Call):
                c = s.value
                fn = ast.unparse(c.func)
                if fn == 'random.shuffle':
                    n = c.args[0].id
                    v = self.env[n]
                    self.env[n] = Seq(f'PERM{next(fresh)}', v.elem)
                elif fn.endswith('.append'):
                    n = fn.rsplit('.', 1)[0]
                    cur = self.env.get(n)
                    if isinstance(cur, Seq) and cur.order in ('EMPTY', self.loop_tag):
                        self.env[n] = Seq(self.loop_tag, n)
                else:
                    self.ev(c)
            elif isinstance(s, ast.If):
                t = truth(self.env, self.flags, s.test)
                if t is True:
                    self.run(s.body)
                elif t is False:
                    self.run(s.orelse)
                else:
                    saved = dict(self.env)
                    self.run(s.body)
                    e1 = self.env
                    self.env = saved
                    self.run(s.orelse)
                    for k in set(e1) | set(self.env):
                        if e1.get(k) != self.env.get(k):
                            self.env[k] = TOP
            elif isinstance(s, ast.For):
                outer = getattr(self, 'loop_tag', None)
                if outer is None:
                    self.loop_tag = f'ENUM{next(fresh)}'
                self.bind(s.target, TOP)
                self.run(s.body)
                if outer is None:
                    self.loop_tag_done = self.loop_tag
                    self.loop_tag = None
            elif isinstance(s, ast.FunctionDef):
                self.closures[s.name] = s
            elif isinstance(s, ast.Return):
                self.ret = self.ev(s.value) if s.value is not None else None
                return 'ret'
            elif isinstance(s, (ast.Raise,)):
                return 'raise'
        return None

    loop_tag = None

    def run_closure(self, name, args):
        fn = self.closures[name]
        saved = dict(self.env)
        for p, a in zip(fn.args.args, args):
            self.env[p.arg] = a
        sub_ret = None
        old_ret = self.ret
        for s in fn.body:
            r = self.run([s])
            if r == 'ret':
                sub_ret = self.ret
                break
        self.ret = old_ret
        self.env = saved
        return sub_ret


core = FUNCS['combo_runner_core']
SUMM = {'_run_linear_executor': 'settings', '_run_linear_sequential': 'settings'}
for shuffle, cases, flat, split, info_none, executor_none in itertools.product([False, True], repeat=6):
    flags = {'shuffle': shuffle, 'cases': cases, 'flat': flat, 'split': split, 'combos': True}
    flags_none.clear(); flags_none.update({'info': info_none, 'executor': executor_none})
    I = Interp(flags, SUMM)
    for a in core.args.args:
        I.env[a.arg] = TOP
    I.env['settings'] = TOP
    I.run(core.body)
    if flat and not info_none:
        s = I.info.get('settings')
        print(f"shuffle={shuffle!s:5} cases={cases!s:5} split={split!s:5} exec_none={executor_none!s:5}"
              f" info[settings]={s}  returned={I.ret}")

bad = [f for f in findings if not f[-1]]
print('sinks evaluated:', len(findings), 'misaligned:', len(bad))
seen = set()
for fl, ln, txt, a, b, ok in findings:
    k = (ln, ok, a.order == b.order)
    if k not in seen:
        seen.add(k)
        print(ln, txt, a, b, ok)
