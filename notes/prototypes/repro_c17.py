import warnings; warnings.simplefilter('ignore')
import matplotlib; matplotlib.use('Agg')
import xyzpy as xyz, numpy as np, xarray as xr
ds = xr.Dataset({'y': (('z','x'), np.random.rand(12,5)), 'c': ('z', np.arange(12.))}, coords={'x': np.arange(5.), 'z': np.arange(12)})
for name, kw in [('c var', dict(c='c')), ('>10 lines colors=True', dict(colors=True)), ('3 lines colors', dict(colors=True)), ('legend_marker_alpha', dict(legend_marker_alpha=0.5))]:
    d = ds.isel(z=slice(0,3)) if name.startswith(('3','legend')) else ds
    try:
        xyz.lineplot(d, 'x', 'y', 'z', **kw); print(name, 'ok')
    except Exception as e:
        print(name, 'FAIL', type(e).__name__, str(e)[:100])
try:
    xyz.heatmap(ds, 'x','z','y'); print('heatmap ok')
except Exception as e: print('heatmap FAIL', type(e).__name__, str(e)[:100])
try:
    xyz.scatter(ds, 'x','y','z', c='c'); print('scatter c ok')
except Exception as e: print('scatter c FAIL', type(e).__name__, str(e)[:100])
try:
    xyz.lineplot(ds.isel(z=slice(0,4)), 'x','y','z', col='z') if False else xyz.lineplot(xr.Dataset({'y': (('w','z','x'), np.random.rand(2,3,5))}, coords={'x':np.arange(5.),'z':[1,2,3],'w':[0,1]}), 'x','y','z', col='w', colors=True, colorbar=True); print('grid colorbar ok')
except Exception as e: print('grid colorbar FAIL', type(e).__name__, str(e)[:100])
