import sys, os, tempfile, shutil
sys.path.insert(0, '/repo')
import xyzpy as xyz, xyzpy.gen.farming as farming
def f(a, b): return a + b
d = tempfile.mkdtemp()
try:
    r = xyz.Runner(f, var_names='s')
    s = xyz.Sampler(r, data_name=os.path.join(d, 'tab.pkl'), default_combos={'a': [1, 2, 3], 'b': [10, 20]})
    crop = s.Crop(name='c', parent_dir=d, batchsize=2)
    crop.sow_samples(6, verbosity=0)
    crop.grow_missing(verbosity=0)
    calls = {'n': 0}
    real = farming.save_df
    def flaky(df, name, **kw):
        calls['n'] += 1
        if calls['n'] == 1:
            raise OSError('disk full')
        return real(df, name, **kw)
    farming.save_df = flaky
    try:
        crop.reap()
    except OSError as e:
        print('first reap failed as injected:', e, '| crop still there:', os.path.exists(crop.location))
    crop.reap()      # corrected retry
    n = len(xyz.manage.load_df(os.path.join(d, 'tab.pkl')))
    print('rows on disk after retry:', n, '(6 sown)')
    sys.exit(0 if n == 6 else 1)
finally:
    farming.save_df = real
    shutil.rmtree(d)
