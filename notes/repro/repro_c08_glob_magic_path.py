"""F28 (C08): a crop in a folder whose name contains glob magic characters.

calc_progress / all_nan_result / check_bad put the crop's location into a glob pattern unescaped.  For
parent_dir='.../run[1]' the pattern's `[1]` is a character class, nothing matches: num_sown_batches == num_results == 0
and is_ready_to_reap() is False although missing_results() == () and every result file exists.

run:  /venv/bin/python notes/repro/repro_c08_glob_magic_path.py
"""
import os, sys, tempfile
sys.path.insert(0, "/repo")
import xyzpy as xyz


def f(a):
    return a * 2


with tempfile.TemporaryDirectory() as td:
    pd = os.path.join(td, "run[1]")
    os.makedirs(pd)
    c = xyz.Crop(fn=f, name="t", parent_dir=pd, batchsize=1)
    c.sow_combos({"a": [1, 2, 3]})
    c.grow_missing()
    print("missing:", c.missing_results(), "sown:", c.num_sown_batches, "results:", c.num_results, "ready:", c.is_ready_to_reap())
    print("OK" if c.is_ready_to_reap() and c.num_results == 3 else "WRONG: progress does not match the disk")
