"""F26 (C15 / C12): Sampler whose data name carries a compression suffix.

The repair 19f1822 (write a temporary, then os.replace) wrote the table to `<data_name>.tmp`.  pandas infers the
compression from the file name: for `samples.pkl.gz` the temporary is written *uncompressed*, renamed to
`samples.pkl.gz`, and the next load (a fresh Sampler, or the same one on its next run) raises gzip.BadGzipFile.
With the temporary named `tmp-<basename>` (extension kept) the round trip works.

run:  /venv/bin/python notes/repro/repro_c15_compressed_name.py   (from any directory with /repo on sys.path)
"""
import os, sys, tempfile
sys.path.insert(0, "/repo")
import xyzpy as xyz


def f(a):
    return 10 * a


with tempfile.TemporaryDirectory() as td:
    name = os.path.join(td, "samples.pkl.gz")
    r = xyz.Runner(f, var_names="x")
    s = xyz.Sampler(r, data_name=name, default_combos={"a": [1, 2, 3]})
    s.sample_combos(4)
    try:
        s2 = xyz.Sampler(r, data_name=name, default_combos={"a": [1, 2, 3]})
        s2.sample_combos(3)
        print("rows after second run by a fresh sampler:", len(s2.full_df), "OK" if len(s2.full_df) == 7 else "WRONG")
    except Exception as e:
        print("FAILED to continue from the saved table:", type(e).__name__, e)
