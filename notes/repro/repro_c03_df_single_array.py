import sys
sys.path.insert(0, '/repo')
import numpy as np, xyzpy as xyz
def f(a): return np.array([a, 10 * a, 100 * a])
df = xyz.combo_runner_to_df(f, {'a': [1, 2]}, var_names='out')
print(df)
def g(a): return 'hello%d' % a
print(xyz.combo_runner_to_df(g, {'a': [1, 2]}, var_names='out'))
def h(a): return np.array([a, 10 * a]), 5
print(xyz.combo_runner_to_df(h, {'a': [1, 2]}, var_names=['o1', 'o2']))
