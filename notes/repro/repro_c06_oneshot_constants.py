import sys, os, tempfile, warnings
warnings.filterwarnings("ignore")
sys.path.insert(0, os.environ.get("XYZ_REPO", "/repo"))
import xyzpy as xyz
def f(a, c): return a + c
with tempfile.TemporaryDirectory() as d:
    r = xyz.Runner(f, var_names='out', constants={'c': 100})
    crop = r.Crop(name='t', parent_dir=d)
    crop.sow_combos({'a': [1, 2]}, constants=iter([('c', 5)]))
    crop.grow_missing()
    ds = crop.reap()
    print('values', ds['out'].values.tolist(), 'labelled c =', ds.attrs.get('c'), '(expected [6, 7] with c = 5)')
