"""F30 (C17): scatter points coloured by a variable (c=...), several z series.

Scatter.plot_scatter passed c=<values> and cmap= to Axes.scatter but no norm: matplotlib scales each call to the values it
is given, so each z series was normalised to its own range (series with c in 0..2 and in 8..10 got identical colours),
vmin / vmax were ignored and the colour bar (built from the shared norm) did not describe the points.

run:  MPLBACKEND=Agg /venv/bin/python notes/repro/repro_c17_scatter_norm.py [repo dir]
"""
import sys, warnings
sys.path.insert(0, sys.argv[1] if len(sys.argv) > 1 else "/repo")
warnings.simplefilter("ignore")
import matplotlib; matplotlib.use("Agg")
import numpy as np, xarray as xr, xyzpy as xyz
ds = xr.Dataset({"y": (("z", "x"), [[1., 2., 3.], [1., 2., 3.]]), "c": (("z", "x"), [[0., 1., 2.], [8., 9., 10.]])}, coords={"x": [1., 2., 3.], "z": [0, 1]})
fig = ds.xyz.scatter("x", "y", "z", c="c", return_fig=True)
cols = [pc.cmap(pc.norm(np.asarray(pc.get_array(), dtype=float))) for pc in fig.axes[0].collections]
same = np.allclose(cols[0], cols[1])
print("series coloured identically although c ranges 0..2 and 8..10:", same)
pc = fig.axes[0].collections[0]
print("norm limits of series 0:", pc.norm.vmin, pc.norm.vmax)
