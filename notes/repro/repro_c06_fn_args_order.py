import sys, os, tempfile, warnings
warnings.filterwarnings("ignore")
sys.path.insert(0, os.environ.get("XYZ_REPO", "/repo"))
import xyzpy as xyz
def f(a, b): return 10 * a + b
with tempfile.TemporaryDirectory() as d:
    r = xyz.Runner(f, var_names='out', fn_args=('b', 'a'))
    direct = r.run_cases([(1, 2)])
    print('direct:', {k: direct[k].values.tolist() for k in ('a', 'b', 'out')})
    crop = r.Crop(name='t', parent_dir=d)
    crop.sow_cases(None, [(1, 2)])
    crop.grow_missing()
    ds = crop.reap()
    print('crop  :', {k: ds[k].values.tolist() for k in ('a', 'b', 'out')})
