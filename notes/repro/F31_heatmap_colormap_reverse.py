"""F31: with colormap_reverse=True the heat map's mesh and its colour bar used opposite colour maps.
Run: cd <checkout> && MPLBACKEND=Agg /venv/bin/python /verif/notes/repro/F31_heatmap_colormap_reverse.py
exit 1 before the repair 9be70a6, exit 0 after."""
import sys, os
sys.path.insert(0, os.getcwd())
import numpy as np, xarray as xr
from xyzpy.plot.plotter_matplotlib import HeatMap
ds = xr.Dataset({'z': (('x', 'y'), np.arange(12.).reshape(3, 4))}, coords={'x': [0, 1, 2], 'y': [0, 1, 2, 3]})
h = HeatMap(ds, 'x', 'y', 'z', colormap='viridis', colormap_reverse=True, return_fig=True, colorbar=True)
h()
mesh, bar = h._heatmap.get_cmap(), h._cbar.mappable.get_cmap()
assert mesh(0.0) == bar(0.0), (mesh.name, bar.name)
print("ok")
