import sys, tempfile, os
sys.path.insert(0, '/repo')
import xyzpy as xyz
def f(a): return a * 10
with tempfile.TemporaryDirectory() as d:
    r = xyz.Runner(f, var_names='out')
    h = xyz.Harvester(r, os.path.join(d, 'data.h5'))
    h.harvest_combos({'a': [1]}, sync=True)
    h.harvest_combos({'a': [2]}, sync=False)   # memory only
    print('after sync=False   :', sorted(h.full_ds.a.values.tolist()))
    h.harvest_combos({'a': [3]}, sync=True)
    print('after sync=True    :', sorted(h.full_ds.a.values.tolist()))
