"""F29 (C05): a float label harvested into a file whose coordinate was stored as integers.

xarray keeps, per variable, the dtype a file stored it with and re-applies it when writing.  Harvester.load_full_ds
(and save_merge_ds) loaded the file, merged new data and wrote the result back with those encodings: after
harvest x = [1, 2], a fresh harvester harvesting x = [2.5] ended with x = [1, 2, 2.5] in memory but x = [1, 2, 2] on
disk (only a SerializationWarning) -- the new point filed under another point's label.

run:  /venv/bin/python notes/repro/repro_c05_int_encoded_coordinate.py
"""
import os, sys, tempfile, warnings
sys.path.insert(0, "/repo")
warnings.simplefilter("ignore")
import xyzpy as xyz


def f(x):
    return x * 1.0


with tempfile.TemporaryDirectory() as td:
    name = os.path.join(td, "d.h5")
    r = xyz.Runner(f, var_names="y")
    xyz.Harvester(r, name).harvest_combos({"x": [1, 2]})
    h2 = xyz.Harvester(r, name)
    h2.harvest_combos({"x": [2.5]})
    mem, disk = h2.full_ds.x.values.tolist(), xyz.load_ds(name).x.values.tolist()
    print("memory", mem, "disk", disk, "OK" if mem == disk else "DIFFERENT")
    # the sibling
    import xarray as xr
    n2 = os.path.join(td, "m.h5")
    xyz.save_merge_ds(xr.Dataset({"y": ("x", [1.0, 2.0])}, coords={"x": [1, 2]}), n2)
    xyz.save_merge_ds(xr.Dataset({"y": ("x", [2.5])}, coords={"x": [2.5]}), n2)
    print("save_merge_ds disk", xyz.load_ds(n2).x.values.tolist())
