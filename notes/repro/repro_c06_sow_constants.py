import sys, os, tempfile, shutil
sys.path.insert(0, '/repo')
import xyzpy as xyz
def f(a, c): return a * c
d = tempfile.mkdtemp()
try:
    r = xyz.Runner(f, var_names='p', constants={'c': 1})
    direct = r.run_combos({'a': [1, 2]}, constants={'c': 5}, verbosity=0)
    crop = r.Crop(name='k', parent_dir=d)
    crop.sow_combos({'a': [1, 2]}, constants={'c': 5}, verbosity=0)
    crop.grow_missing(verbosity=0)
    reaped = crop.reap()
    print('direct: p =', direct['p'].values.tolist(), 'attrs', dict(direct.attrs))
    print('reaped: p =', reaped['p'].values.tolist(), 'attrs', dict(reaped.attrs))
    print('identical:', direct.identical(reaped))
finally:
    shutil.rmtree(d)
