import sys, os, tempfile, shutil
sys.path.insert(0, '/repo')
import xyzpy as xyz
def f(a): return a * 10.0
d = tempfile.mkdtemp()
try:
    crop = xyz.Crop(fn=f, name='k', parent_dir=d, batchsize=2)
    crop.sow_combos({'a': [1, 2, 3, 4, 5]}, verbosity=0)     # batches: [1,2] [3,4] [5]
    crop.grow((1, 2), verbosity=0)                           # the short last batch 3 is missing
    try:
        r = crop.reap(allow_incomplete=True)
        print('partial reap:', r)
        ok = (r[:4] == (10.0, 20.0, 30.0, 40.0)) and (r[4] != r[4])
    except Exception as e:
        print('partial reap raised:', type(e).__name__, e)
        ok = False
    sys.exit(0 if ok else 1)
finally:
    shutil.rmtree(d)
