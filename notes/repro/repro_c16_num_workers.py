import sys, os, tempfile, warnings
warnings.filterwarnings("ignore")
sys.path.insert(0, os.environ.get("XYZ_REPO", "/repo"))
import xyzpy as xyz
def f(a): return a
with tempfile.TemporaryDirectory() as d:
    crop = xyz.Crop(fn=f, name='t', parent_dir=d, num_batches=4)
    crop.sow_combos({'a': [1, 2, 3, 4]})
    for s in ('sge', 'pbs', 'slurm'):
        try:
            crop.gen_cluster_script(s, num_workers=2)
            print(s, 'ok')
        except Exception as e:
            print(s, type(e).__name__, e)
