import sys, tempfile, os, warnings
warnings.filterwarnings("ignore")
sys.path.insert(0, os.environ.get("XYZ_REPO", "/repo"))
import xyzpy as xyz
def f(a, b): return a * 10 + b
with tempfile.TemporaryDirectory() as d:
    name = os.path.join(d, 'data.h5')
    h1 = xyz.Harvester(xyz.Runner(f, var_names='out'), name)
    h1.harvest_combos({'a': [1], 'b': [1, 2]})
    h2 = xyz.Harvester(xyz.Runner(f, var_names='out'), name)      # a second session on the same file
    h2.harvest_combos({'a': [2], 'b': [1, 2]})
    h1.drop_sel(b=2)                                               # first session tidies a point away
    h3 = xyz.Harvester(xyz.Runner(f, var_names='out'), name)
    print('a on disk after h1.drop_sel:', h3.full_ds.a.values.tolist(), '(expected [1, 2])')
    h1.expand_dims('c', 5)
    h2.harvest_combos({'a': [3], 'b': [1]})
