"""F27 (C09): partial reap of a function with several outputs, one of them a str.

nan_like_result gave every output of a tuple result the stand-in array(nan), also a str output (its docstring shows
None for 'hello').  Stacked with the real strings numpy turns array(nan) into the *string* 'nan': the unfinished
positions of that variable are ordinary, non-null text.  With None for str outputs the variable is an object array
with null placeholders.

run:  /venv/bin/python notes/repro/repro_c09_str_output_placeholder.py
"""
import sys, tempfile
sys.path.insert(0, "/repo")
import xyzpy as xyz


def f(a, b):
    return float(a + b), "%s-%s" % (a, b)


with tempfile.TemporaryDirectory() as td:
    c = xyz.Crop(fn=f, name='t', parent_dir=td, batchsize=2)
    c.sow_combos(dict(a=[1, 2, 3], b=[10, 20]))
    c.grow(2)                      # only the middle batch
    ds = c.reap_combos_to_ds(var_names=['x', 's'], allow_incomplete=True)
    nulls = ds['s'].isnull().values
    print(ds['s'].values.tolist(), ds['s'].dtype)
    print("placeholders null at unfinished positions:", bool(nulls[0].all() and nulls[2].all() and not nulls[1].any()))
