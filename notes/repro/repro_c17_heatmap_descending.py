"""F25 (C17): heat map of a dataset whose x (or y) coordinate is stored in descending order.

Before the fix the cell edges were built from the *absolute* mean spacing:
    av = mean(|X[:-1] - X[1:]|);  edges = append(X - av/2, X[-1] + av/2)
For X = [3, 2, 1] this gives [2.5, 1.5, 0.5, 1.5]: the column of values belonging to x = 3 is drawn on [1.5, 2.5]
(where x = 2 is), x = 2 on [0.5, 1.5], and the last cell folds back over its neighbour.  With the signed spacing the
edges are [3.5, 2.5, 1.5, 0.5].

run:  MPLBACKEND=Agg /venv/bin/python notes/repro/repro_c17_heatmap_descending.py
"""
import numpy as np
import xarray as xr
import xyzpy  # noqa

for xs in ([3., 2., 1.], [1., 2., 3.]):
    ds = xr.Dataset({'z': (('x', 'y'), np.arange(6.).reshape(3, 2))}, coords={'x': xs, 'y': [10., 20.]})
    fig = ds.xyz.heatmap('x', 'y', 'z', return_fig=True)
    qm = fig.axes[0].collections[0]
    edges = qm.get_coordinates()[0, :, 0]
    centres = (edges[:-1] + edges[1:]) / 2
    print(xs, "edges", edges, "OK" if np.allclose(centres, xs) else "DISPLACED")
