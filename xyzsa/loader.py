"""L0: parse the shipped package of the repository under analysis and index it.

Nothing under the repository is imported or executed: every fact comes from
``ast`` / ``symtable`` over the *current* working tree.
"""
import ast
import os
import symtable
import builtins

PKG = "xyzpy"


class AnalysisError(Exception):
    """The analysis itself cannot proceed (lost anchor, unknown idiom...).

    Always turned into exit code 2 / ``ANALYSIS-ERROR`` by the CLI, never into
    a VIOLATION and never into a silent pass.
    """


class FuncInfo:
    __slots__ = ("name", "qualname", "node", "module", "cls", "parent",
                 "nested", "params", "is_lambda")

    def __init__(self, name, qualname, node, module, cls=None, parent=None):
        self.name = name
        self.qualname = qualname
        self.node = node
        self.module = module
        self.cls = cls          # ClassInfo or None
        self.parent = parent    # enclosing FuncInfo or None
        self.nested = {}        # name -> FuncInfo
        a = node.args
        self.params = ([x.arg for x in a.posonlyargs] + [x.arg for x in a.args]
                       + ([a.vararg.arg] if a.vararg else [])
                       + [x.arg for x in a.kwonlyargs]
                       + ([a.kwarg.arg] if a.kwarg else []))

    # ---- signature helpers -------------------------------------------------
    @property
    def positional(self):
        a = self.node.args
        return [x.arg for x in a.posonlyargs] + [x.arg for x in a.args]

    @property
    def kwonly(self):
        return [x.arg for x in self.node.args.kwonlyargs]

    @property
    def has_varargs(self):
        return self.node.args.vararg is not None

    @property
    def has_kwargs(self):
        return self.node.args.kwarg is not None

    def defaults(self):
        """param name -> default expression node (only those that have one)."""
        a = self.node.args
        pos = a.posonlyargs + a.args
        out = {}
        for p, d in zip(pos[len(pos) - len(a.defaults):], a.defaults):
            out[p.arg] = d
        for p, d in zip(a.kwonlyargs, a.kw_defaults):
            if d is not None:
                out[p.arg] = d
        return out

    def required(self):
        d = self.defaults()
        return [p for p in self.positional + self.kwonly if p not in d]

    @property
    def file(self):
        return self.module.relpath

    @property
    def lineno(self):
        return self.node.lineno

    def __repr__(self):
        return "<Func %s>" % self.qualname


class ClassInfo:
    def __init__(self, name, qualname, node, module):
        self.name = name
        self.qualname = qualname
        self.node = node
        self.module = module
        self.methods = {}       # name -> FuncInfo (own)
        self.attrs = {}         # class-level simple assignments name -> expr
        self.patched = {}       # name -> resolved target (FuncInfo / partial)
        self.base_exprs = list(node.bases)
        self.bases = []         # resolved ClassInfo (in-repo only)

    def mro(self):
        out, seen = [], set()

        def walk(c):
            if id(c) in seen:
                return
            seen.add(id(c))
            out.append(c)
            for b in c.bases:
                walk(b)
        walk(self)
        return out

    def find_method(self, name):
        for c in self.mro():
            if name in c.methods:
                return c.methods[name]
            if name in c.patched:
                t = c.patched[name]
                if isinstance(t, Partial):
                    return t
                return t
        return None

    def __repr__(self):
        return "<Class %s>" % self.qualname


class Partial:
    """functools.partial / partialmethod alias of an in-repo function."""

    def __init__(self, target, keywords, node):
        self.target = target      # FuncInfo (or Partial)
        self.keywords = keywords  # name -> expr node
        self.node = node

    @property
    def func(self):
        t = self.target
        while isinstance(t, Partial):
            t = t.target
        return t

    def __repr__(self):
        return "<Partial of %r %s>" % (self.target, sorted(self.keywords))


class External:
    """A reference into a module outside the package: dotted path."""

    def __init__(self, dotted):
        self.dotted = dotted

    def __repr__(self):
        return "<External %s>" % self.dotted

    def __eq__(self, o):
        return isinstance(o, External) and o.dotted == self.dotted

    def __hash__(self):
        return hash(self.dotted)


class Module:
    def __init__(self, name, path, relpath, source):
        self.name = name
        self.path = path
        self.relpath = relpath
        self.source = source
        self.tree = ast.parse(source, filename=path)
        self.funcs = {}     # top-level name -> FuncInfo
        self.classes = {}   # top-level name -> ClassInfo
        self.imports = {}   # local alias -> ("mod", dotted) | ("attr", dotted_module, attrname)
        self.consts = {}    # top-level NAME -> expr node (last simple assignment)
        self.aliases = {}   # top-level NAME -> Partial / FuncInfo (e.g. combo_runner_to_df)
        self.all_funcs = []  # every FuncInfo incl. methods and nested
        self.is_pkg = os.path.basename(path) == "__init__.py"
        try:
            self.symtable = symtable.symtable(source, path, "exec")
        except SyntaxError as e:  # pragma: no cover
            raise AnalysisError("symtable failed for %s: %s" % (path, e))

    def package(self):
        return self.name if self.is_pkg else self.name.rpartition(".")[0]

    def __repr__(self):
        return "<Module %s>" % self.name


_NEG = {ast.NotIn: ast.In, ast.IsNot: ast.Is}


class _Canon(ast.NodeTransformer):
    """Normal form applied to every module before anything is indexed (the rules then see one shape for several
    spellings of the same program):
      not (a not in b) -> a in b;  not (a is not b) -> a is b;  not (a in b) -> a not in b;  not (a is b) -> a is not b;
      not not x -> x (only where a truth value is consumed: if / while / conditional-expression tests, operands of not / and / or);
      (not a) or (not b) -> not (a and b) in such tests;
      if not c: A else: B -> if c: B else: A   (plain if / else, no elif on either side; conditional expressions alike)."""

    def _test(self, e):
        # e is used for its truth value only
        if isinstance(e, ast.UnaryOp) and isinstance(e.op, ast.Not):
            o = e.operand
            if isinstance(o, ast.UnaryOp) and isinstance(o.op, ast.Not):
                return self._test(o.operand)
            if isinstance(o, ast.Compare) and len(o.ops) == 1 and type(o.ops[0]) in (ast.NotIn, ast.IsNot, ast.In, ast.Is):
                t = type(o.ops[0])
                new = {ast.NotIn: ast.In, ast.IsNot: ast.Is, ast.In: ast.NotIn, ast.Is: ast.IsNot}[t]
                return ast.copy_location(ast.Compare(left=o.left, ops=[new()], comparators=o.comparators), e)
            e.operand = self._test(o)
            return e
        if isinstance(e, ast.BoolOp):
            e.values = [self._test(v) for v in e.values]
            if all(isinstance(v, ast.UnaryOp) and isinstance(v.op, ast.Not) for v in e.values) and len(e.values) >= 2:
                inner = ast.copy_location(ast.BoolOp(op=ast.And() if isinstance(e.op, ast.Or) else ast.Or(), values=[v.operand for v in e.values]), e)
                return ast.copy_location(ast.UnaryOp(op=ast.Not(), operand=inner), e)
            return e
        return e

    def visit_If(self, n):
        self.generic_visit(n)
        n.test = self._test(n.test)
        if isinstance(n.test, ast.UnaryOp) and isinstance(n.test.op, ast.Not) and n.orelse and not (len(n.orelse) == 1 and isinstance(n.orelse[0], ast.If)) \
                and not getattr(n, "_elif", False):
            n.test, n.body, n.orelse = n.test.operand, n.orelse, n.body
        elif isinstance(n.test, ast.Compare) and len(n.test.ops) == 1 and type(n.test.ops[0]) in (ast.NotIn, ast.IsNot) and n.orelse and not (len(n.orelse) == 1 and isinstance(n.orelse[0], ast.If)) \
                and not getattr(n, "_elif", False):
            n.test.ops = [ast.In() if isinstance(n.test.ops[0], ast.NotIn) else ast.Is()]
            n.body, n.orelse = n.orelse, n.body
        return n

    def visit_While(self, n):
        self.generic_visit(n)
        n.test = self._test(n.test)
        return n

    def visit_IfExp(self, n):
        self.generic_visit(n)
        n.test = self._test(n.test)
        if isinstance(n.test, ast.UnaryOp) and isinstance(n.test.op, ast.Not):
            n.test, n.body, n.orelse = n.test.operand, n.orelse, n.body
        elif isinstance(n.test, ast.Compare) and len(n.test.ops) == 1 and type(n.test.ops[0]) in (ast.NotIn, ast.IsNot):
            n.test.ops = [ast.In() if isinstance(n.test.ops[0], ast.NotIn) else ast.Is()]
            n.body, n.orelse = n.orelse, n.body
        return n

    def visit_DictComp(self, n):
        # {k: v for k, v in zip(A, B)}  ->  dict(zip(A, B))
        self.generic_visit(n)
        if len(n.generators) == 1 and not n.generators[0].ifs and not n.generators[0].is_async:
            g = n.generators[0]
            if isinstance(g.target, ast.Tuple) and len(g.target.elts) == 2 and all(isinstance(t, ast.Name) for t in g.target.elts) and isinstance(n.key, ast.Name) and isinstance(n.value, ast.Name) \
                    and n.key.id == g.target.elts[0].id and n.value.id == g.target.elts[1].id and n.key.id != n.value.id \
                    and isinstance(g.iter, ast.Call) and isinstance(g.iter.func, ast.Name) and g.iter.func.id == "zip" and len(g.iter.args) == 2 and not g.iter.keywords \
                    and not any(isinstance(a, ast.Starred) for a in g.iter.args):
                return ast.copy_location(ast.Call(func=ast.Name(id="dict", ctx=ast.Load()), args=[g.iter], keywords=[]), n)
        return n

    def visit_comprehension(self, n):
        self.generic_visit(n)
        n.ifs = [self._test(i) for i in n.ifs]
        return n

    def visit_Assert(self, n):
        self.generic_visit(n)
        n.test = self._test(n.test)
        return n


def _mark_elifs(tree):
    for n in ast.walk(tree):
        if isinstance(n, ast.If) and len(n.orelse) == 1 and isinstance(n.orelse[0], ast.If) and n.orelse[0].col_offset == n.col_offset:
            n.orelse[0]._elif = True


def _inline_temporaries(tree):
    """`t = E` immediately followed by `x = t` / `if t:` / `if not t:` / `return t`, t used nowhere else in the
    function: the temporary is folded away (same evaluation order, same values)."""
    for fn in ast.walk(tree):
        if not isinstance(fn, (ast.FunctionDef, ast.AsyncFunctionDef)):
            continue
        counts = {}
        for x in ast.walk(fn):
            if isinstance(x, ast.Name):
                counts[x.id] = counts.get(x.id, 0) + 1
            elif isinstance(x, ast.arg):
                counts[x.arg] = counts.get(x.arg, 0) + 10
            elif isinstance(x, (ast.Global, ast.Nonlocal)):
                for nm in x.names:
                    counts[nm] = counts.get(nm, 0) + 10
        changed = True
        while changed:
            changed = False
            for node in ast.walk(fn):
                for fld in ("body", "orelse", "finalbody"):
                    blk = getattr(node, fld, None)
                    if not (isinstance(blk, list) and blk and isinstance(blk[0], ast.stmt)):
                        continue
                    i = 0
                    while i + 1 < len(blk):
                        a, b = blk[i], blk[i + 1]
                        if isinstance(a, ast.Assign) and len(a.targets) == 1 and isinstance(a.targets[0], ast.Name) and counts.get(a.targets[0].id) == 2:
                            t = a.targets[0].id
                            done = False
                            if isinstance(b, ast.Assign) and isinstance(b.value, ast.Name) and b.value.id == t:
                                b.value = a.value
                                done = True
                            elif isinstance(b, ast.Return) and isinstance(b.value, ast.Name) and b.value.id == t:
                                b.value = a.value
                                done = True
                            elif isinstance(b, ast.If) and isinstance(b.test, ast.Name) and b.test.id == t:
                                b.test = a.value
                                done = True
                            elif isinstance(b, ast.If) and isinstance(b.test, ast.UnaryOp) and isinstance(b.test.op, ast.Not) and isinstance(b.test.operand, ast.Name) and b.test.operand.id == t:
                                b.test.operand = a.value
                                done = True
                            if done:
                                del blk[i]
                                counts[t] = 0
                                changed = True
                                continue
                        i += 1


def _attach_parents(tree):
    for node in ast.walk(tree):
        for child in ast.iter_child_nodes(node):
            child._parent = node


class Program:
    def __init__(self, repo):
        self.repo = os.path.abspath(repo)
        self.modules = {}
        self.units = []
        self._load()
        self._index()
        self._resolve_bases()
        self._resolve_module_level()

    # ------------------------------------------------------------------ load
    def _load(self):
        root = os.path.join(self.repo, PKG)
        if not os.path.isdir(root):
            raise AnalysisError("package directory %s not found" % root)
        for dirpath, dirnames, filenames in os.walk(root):
            dirnames[:] = sorted(d for d in dirnames if d != "__pycache__")
            for fn in sorted(filenames):
                if not fn.endswith(".py"):
                    continue
                path = os.path.join(dirpath, fn)
                rel = os.path.relpath(path, self.repo)
                parts = rel[:-3].split(os.sep)
                if parts[-1] == "__init__":
                    parts = parts[:-1]
                name = ".".join(parts)
                with open(path, encoding="utf-8") as f:
                    src = f.read()
                try:
                    import warnings
                    with warnings.catch_warnings():
                        warnings.simplefilter("ignore")
                        m = Module(name, path, rel, src)
                except SyntaxError as e:
                    raise AnalysisError("shipped file does not parse: %s: %s" % (rel, e))
                self.modules[name] = m
                self.units.append(rel)
        # normal form (xyzsa/inline.py, then the local rewrites below), once every module is parsed: whether a helper that
        # was read through everywhere may be dropped from the analysis' tree depends on the other modules not naming it
        from .inline import inline_new_helpers
        for name, m in self.modules.items():
            others = "\n".join(o.source for n2, o in self.modules.items() if n2 != name)
            m.inlined = inline_new_helpers(m.tree, name, others)
            _inline_temporaries(m.tree)
            _mark_elifs(m.tree)
            _Canon().visit(m.tree)
            ast.fix_missing_locations(m.tree)
            _attach_parents(m.tree)

    # ----------------------------------------------------------------- index
    def _index(self):
        for m in self.modules.values():
            self._index_body(m, m.tree.body, None, None, m.name)
            for node in ast.walk(m.tree):
                if isinstance(node, (ast.Import, ast.ImportFrom)):
                    # only module-level imports go in the module table; local
                    # imports are handled in scope resolution
                    if getattr(node, "_parent", None) is m.tree or self._in_toplevel_guard(node, m):
                        self._record_import(m, node, m.imports)

    def _in_toplevel_guard(self, node, m):
        p = getattr(node, "_parent", None)
        while p is not None and not isinstance(p, (ast.FunctionDef, ast.AsyncFunctionDef, ast.ClassDef, ast.Lambda)):
            if p is m.tree:
                return True
            p = getattr(p, "_parent", None)
        return False

    def _record_import(self, m, node, table):
        if isinstance(node, ast.Import):
            for a in node.names:
                if a.asname:
                    table[a.asname] = ("mod", a.name)
                else:
                    top = a.name.split(".")[0]
                    table[top] = ("mod", top)
        else:
            if node.level:
                pkg = m.package().split(".")
                if node.level > 1:
                    pkg = pkg[: len(pkg) - (node.level - 1)]
                base = ".".join(pkg + ([node.module] if node.module else []))
            else:
                base = node.module
            for a in node.names:
                table[a.asname or a.name] = ("attr", base, a.name)

    def _index_body(self, m, body, cls, parent, prefix):
        for node in body:
            if isinstance(node, (ast.FunctionDef, ast.AsyncFunctionDef)):
                self._index_func(m, node, cls, parent, prefix)
            elif isinstance(node, ast.ClassDef) and cls is None and parent is None:
                ci = ClassInfo(node.name, prefix + "." + node.name, node, m)
                m.classes[node.name] = ci
                for sub in node.body:
                    if isinstance(sub, (ast.FunctionDef, ast.AsyncFunctionDef)):
                        self._index_func(m, sub, ci, None, ci.qualname)
                    elif isinstance(sub, ast.Assign) and len(sub.targets) == 1 and isinstance(sub.targets[0], ast.Name):
                        ci.attrs[sub.targets[0].id] = sub.value
            elif isinstance(node, (ast.If, ast.Try, ast.With)) and cls is None and parent is None:
                for sub_body in _sub_bodies(node):
                    self._index_body(m, sub_body, cls, parent, prefix)
            elif isinstance(node, ast.Assign) and cls is None and parent is None:
                if len(node.targets) == 1 and isinstance(node.targets[0], ast.Name):
                    m.consts[node.targets[0].id] = node.value

    def _index_func(self, m, node, cls, parent, prefix):
        fi = FuncInfo(node.name, prefix + "." + node.name, node, m, cls, parent)
        m.all_funcs.append(fi)
        if parent is not None:
            parent.nested[node.name] = fi
        elif cls is not None:
            cls.methods[node.name] = fi
        else:
            m.funcs[node.name] = fi
        node._finfo = fi
        # nested defs (any depth inside this function, but not inside nested
        # functions themselves -- those recurse)
        for sub in _walk_shallow(node):
            if isinstance(sub, (ast.FunctionDef, ast.AsyncFunctionDef)):
                self._index_func(m, sub, cls, fi, fi.qualname)
        return fi

    # ---------------------------------------------------------------- bases
    def _resolve_bases(self):
        for m in self.modules.values():
            for ci in m.classes.values():
                for b in ci.base_exprs:
                    t = self.resolve_expr_static(m, b)
                    if isinstance(t, ClassInfo):
                        ci.bases.append(t)

    def _resolve_module_level(self):
        """functools.partial aliases and ``Class.attr = f`` monkey patches."""
        for m in self.modules.values():
            for node in m.tree.body:
                if not isinstance(node, ast.Assign) or len(node.targets) != 1:
                    continue
                tgt, val = node.targets[0], node.value
                resolved = self._resolve_alias_value(m, val)
                if resolved is None:
                    continue
                if isinstance(tgt, ast.Name):
                    m.aliases[tgt.id] = resolved
                elif isinstance(tgt, ast.Attribute) and isinstance(tgt.value, ast.Name):
                    owner = self.resolve_expr_static(m, tgt.value)
                    if isinstance(owner, ClassInfo):
                        owner.patched[tgt.attr] = resolved

    def _resolve_alias_value(self, m, val):
        if isinstance(val, ast.Call):
            f = self.resolve_expr_static(m, val.func)
            if isinstance(f, External) and f.dotted in ("functools.partial", "functools.partialmethod") and val.args:
                target = self.resolve_expr_static(m, val.args[0])
                if isinstance(target, (FuncInfo, Partial)):
                    kws = {k.arg: k.value for k in val.keywords if k.arg}
                    return Partial(target, kws, val)
            return None
        t = self.resolve_expr_static(m, val)
        if isinstance(t, (FuncInfo, Partial)):
            return t
        return None

    # ------------------------------------------------------- static resolve
    def resolve_global(self, m, name, _depth=0):
        """Resolve a module-level name of module ``m``."""
        if _depth > 8:
            return None
        if name in m.funcs:
            return m.funcs[name]
        if name in m.classes:
            return m.classes[name]
        if name in m.aliases:
            return m.aliases[name]
        if name in m.imports:
            return self._resolve_import(m.imports[name], _depth)
        if name in m.consts:
            return ("const", m, name)
        return None

    def _resolve_import(self, imp, _depth=0):
        if imp[0] == "mod":
            dotted = imp[1]
            if dotted in self.modules:
                return self.modules[dotted]
            return External(dotted)
        _, base, attr = imp
        if base in self.modules:
            full = base + "." + attr
            if full in self.modules:
                return self.modules[full]
            r = self.resolve_global(self.modules[base], attr, _depth + 1)
            if r is not None:
                return r
            return ("missing", base, attr)
        if base == PKG or base.startswith(PKG + "."):
            return ("missing", base, attr)
        return External(base + "." + attr)

    def resolve_expr_static(self, m, expr, scope=None):
        """Resolve Name / Attribute chains at module level (or with a scope)."""
        if isinstance(expr, ast.Name):
            return self.resolve_global(m, expr.id)
        if isinstance(expr, ast.Attribute):
            base = self.resolve_expr_static(m, expr.value, scope)
            return self.getattr_static(base, expr.attr)
        return None

    def getattr_static(self, base, attr):
        if isinstance(base, Module):
            full = base.name + "." + attr
            if full in self.modules:
                return self.modules[full]
            r = self.resolve_global(base, attr)
            if r is None:
                return ("missing", base.name, attr)
            return r
        if isinstance(base, External):
            return External(base.dotted + "." + attr)
        if isinstance(base, ClassInfo):
            r = base.find_method(attr)
            if r is not None:
                return r
            for c in base.mro():
                if attr in c.attrs:
                    return ("classattr", c, attr)
            return None
        return None

    # --------------------------------------------------------------- lookup
    def func(self, qualname):
        """Look a function up by dotted qualname, e.g.
        ``xyzpy.gen.cropping.Crop.sow_combos`` or ``...Reaper.__init__._load``."""
        for mname in sorted(self.modules, key=len, reverse=True):
            if qualname.startswith(mname + "."):
                m = self.modules[mname]
                rest = qualname[len(mname) + 1:].split(".")
                cur = None
                if rest[0] in m.funcs:
                    cur = m.funcs[rest[0]]
                    rest = rest[1:]
                elif rest[0] in m.classes and len(rest) > 1:
                    ci = m.classes[rest[0]]
                    cur = ci.methods.get(rest[1])
                    rest = rest[2:]
                while cur is not None and rest:
                    cur = cur.nested.get(rest[0])
                    rest = rest[1:]
                if cur is not None:
                    return cur
        return None

    def need_func(self, qualname):
        f = self.func(qualname)
        if f is None:
            raise AnalysisError("anchor lost: function %s not found" % qualname)
        return f

    def cls(self, qualname):
        mname, _, cname = qualname.rpartition(".")
        m = self.modules.get(mname)
        return m.classes.get(cname) if m else None

    def need_cls(self, qualname):
        c = self.cls(qualname)
        if c is None:
            raise AnalysisError("anchor lost: class %s not found" % qualname)
        return c

    def all_funcs(self):
        for m in self.modules.values():
            for f in m.all_funcs:
                yield f

    # ------------------------------------------------------ constant folding
    def fold_str(self, m, expr, _depth=0, env=None):
        """Fold a string-valued constant expression, or return None."""
        if _depth > 20:
            return None
        if isinstance(expr, ast.Constant) and isinstance(expr.value, str):
            return expr.value
        if isinstance(expr, ast.BinOp) and isinstance(expr.op, ast.Add):
            a = self.fold_str(m, expr.left, _depth + 1, env)
            b = self.fold_str(m, expr.right, _depth + 1, env)
            if a is not None and b is not None:
                return a + b
            return None
        if isinstance(expr, ast.Name):
            if env and expr.id in env:
                return env[expr.id]
            r = self.resolve_global(m, expr.id)
            if isinstance(r, tuple) and r[0] == "const":
                _, m2, nm = r
                return self.fold_str(m2, m2.consts[nm], _depth + 1)
            return None
        if isinstance(expr, ast.JoinedStr):
            if all(isinstance(v, ast.Constant) for v in expr.values):
                return "".join(v.value for v in expr.values)
        return None


def _sub_bodies(node):
    for fld in ("body", "orelse", "finalbody"):
        b = getattr(node, fld, None)
        if b:
            yield b
    for h in getattr(node, "handlers", []) or []:
        yield h.body


def _walk_shallow(fnode):
    """Yield nodes inside a function body without descending into nested
    function / class definitions (the nested def node itself is yielded)."""
    stack = list(ast.iter_child_nodes(fnode))
    while stack:
        n = stack.pop()
        yield n
        if isinstance(n, (ast.FunctionDef, ast.AsyncFunctionDef, ast.ClassDef, ast.Lambda)):
            continue
        stack.extend(ast.iter_child_nodes(n))


def walk_shallow(fnode):
    return _walk_shallow(fnode)


def enclosing_func(node):
    p = getattr(node, "_parent", None)
    while p is not None:
        if isinstance(p, (ast.FunctionDef, ast.AsyncFunctionDef)):
            return getattr(p, "_finfo", None)
        p = getattr(p, "_parent", None)
    return None


def norm(node):
    """Normalised source text of a node (key material; never a line number)."""
    try:
        return ast.unparse(node)
    except Exception:  # pragma: no cover
        return ast.dump(node)


BUILTINS = set(dir(builtins))
