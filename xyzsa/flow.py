"""L3: forward dataflow over a CFG with truthiness splitting.

``Flow`` is conditional constant propagation over a small value lattice
(D-TRUTH).  Branch edges whose test is decided by the abstract state are
pruned, so running one analysis per *valuation* of the designated flag
parameters gives correlated-branch precision without a solver: this is trace
partitioning by the initial valuation, nothing is executed.

Domain-specific analyses subclass ``Flow`` and extend ``eval`` / ``assign``.
"""
import ast
import itertools

from .cfg import CFG, node_exprs
from .loader import norm, AnalysisError

# ---------------------------------------------------------------- values
TOP = ("top",)
TRUTHY = ("truthy",)
FALSY = ("falsy",)
NOTNONE = ("notnone",)
BOT = ("bot",)


def const(v):
    return ("c", v)


NONE = const(None)
TRUE = const(True)
FALSE = const(False)


def is_const(v):
    return isinstance(v, tuple) and len(v) == 2 and v[0] == "c"


def truth(v):
    """-> True / False / None (unknown)."""
    if is_const(v):
        try:
            return bool(v[1])
        except Exception:
            return None
    if v == TRUTHY:
        return True
    if v == FALSY:
        return False
    if isinstance(v, tuple) and v and v[0] in ("obj", "seq", "fresh", "tag"):
        # domain values are objects: truthiness unknown unless stated
        return None
    return None


def is_none(v):
    """-> True / False / None."""
    if is_const(v):
        return v[1] is None
    if v in (TRUTHY, NOTNONE):
        return False
    if isinstance(v, tuple) and v and v[0] in ("obj", "seq", "fresh", "tag", "str", "dictlit", "map", "tuple", "el", "zipsink", "lambda"):
        return False
    return None


def join_val(a, b):
    if a == b:
        return a
    if a == BOT:
        return b
    if b == BOT:
        return a
    ta, tb = truth(a), truth(b)
    if ta is True and tb is True:
        return TRUTHY
    if ta is False and tb is False:
        return FALSY
    na, nb = is_none(a), is_none(b)
    if na is False and nb is False:
        return NOTNONE
    return TOP


class Env(dict):
    """variable / access-path text -> abstract value; missing = TOP."""

    def get_val(self, k):
        return self.get(k, TOP)

    def copy(self):
        return Env(self)


def join_env(a, b, join=join_val):
    if a is None:
        return b.copy()
    if b is None:
        return a.copy()
    out = Env()
    for k in a.keys() & b.keys():
        v = join(a[k], b[k])
        if v != TOP:
            out[k] = v
    return out


def path_key(e):
    """Access-path text for Name / Attribute chains rooted at a Name; else
    None."""
    if isinstance(e, ast.Name):
        return e.id
    if isinstance(e, ast.Attribute):
        b = path_key(e.value)
        if b is not None:
            return b + "." + e.attr
    return None


class Flow:
    """Conditional constant propagation.  Subclass hooks:

    eval_call(call, env)          value of a call expression
    eval_other(expr, env)         any expression kind not handled here
    on_node(node, env)            observe a node with its IN state (sinks)
    for_target(node, itval, env)  bind the loop target
    """

    join = staticmethod(join_val)
    max_iter = 20000

    def __init__(self, cfg: CFG, init=None):
        self.cfg = cfg
        self.init = Env(init or {})
        self.IN = {}
        self.feasible = set()
        self.visited = set()

    # ------------------------------------------------------------ driver
    def run(self):
        g = self.cfg
        self.IN = {g.entry.id: self.init.copy()}
        rpo = _rpo(g)
        import heapq
        work = [(rpo.get(g.entry.id, 0), g.entry.id)]
        inwork = {g.entry.id}
        it = 0
        while work:
            it += 1
            if it > self.max_iter:
                raise AnalysisError("dataflow did not converge")
            _, nid = heapq.heappop(work)
            inwork.discard(nid)
            node = g.nodes[nid]
            env_in = self.IN[nid]
            self.visited.add(nid)
            env_out = self.transfer(node, env_in.copy())
            for (b, label) in g.succ[nid]:
                if label == "exc":
                    e = self.exc_state(node, env_in, env_out)
                else:
                    e = self.edge(node, label, env_out)
                if e is None:
                    continue
                self.feasible.add((nid, b, label))
                old = self.IN.get(b)
                new = join_env(old, e, self.join) if old is not None else e.copy()
                if old is None or new != old:
                    self.IN[b] = new
                    if b not in inwork:
                        inwork.add(b)
                        heapq.heappush(work, (rpo.get(b, 10 ** 6), b))
        return self

    def exc_state(self, node, env_in, env_out):
        # the statement may have been interrupted anywhere
        return join_env(env_in, env_out, self.join)

    # ---------------------------------------------------------- transfer
    def transfer(self, node, env):
        self.on_node(node, env)
        k = node.kind
        a = node.ast
        if k == "stmt":
            self.exec_stmt(a, env)
        elif k == "for":
            itv = self.eval(a.iter, env)
            self.for_target(node, itv, env)
        elif k == "with_enter":
            v = self.eval(a.context_expr, env)
            if a.optional_vars is not None:
                self.assign(a.optional_vars, self.with_value(node, v, env), env)
        elif k == "except":
            if a.name:
                env[a.name] = NOTNONE
        elif k == "def":
            env[a.name] = ("obj", "def", a.name)
        elif k == "test":
            self.eval(a, env)
        return env

    def with_value(self, node, v, env):
        return v

    def for_target(self, node, itval, env):
        self.assign(node.ast.target, TOP, env)

    def on_node(self, node, env):
        pass

    def exec_stmt(self, s, env):
        if isinstance(s, ast.Assign):
            v = self.eval(s.value, env)
            for t in s.targets:
                self.assign(t, v, env, value_expr=s.value)
        elif isinstance(s, ast.AnnAssign):
            if s.value is not None:
                self.assign(s.target, self.eval(s.value, env), env, value_expr=s.value)
        elif isinstance(s, ast.AugAssign):
            cur = self.eval(_load(s.target), env)
            v = self.eval(s.value, env)
            self.assign(s.target, self.aug(s, cur, v, env), env)
        elif isinstance(s, ast.Expr):
            self.eval(s.value, env)
        elif isinstance(s, ast.Return):
            if s.value is not None:
                self.on_return(s, self.eval(s.value, env), env)
            else:
                self.on_return(s, NONE, env)
        elif isinstance(s, ast.Delete):
            for t in s.targets:
                k = path_key(t)
                if k:
                    self.kill(k, env)
        elif isinstance(s, (ast.Import, ast.ImportFrom)):
            for al in s.names:
                env[(al.asname or al.name).split(".")[0]] = NOTNONE
        elif isinstance(s, (ast.Raise, ast.Assert)):
            for e in ast.iter_child_nodes(s):
                if isinstance(e, ast.expr):
                    self.eval(e, env)

    def on_return(self, s, v, env):
        pass

    def aug(self, s, cur, v, env):
        return TOP

    def kill(self, key, env):
        for k in list(env):
            if k == key or k.startswith(key + ".") or k.startswith(key + "["):
                del env[k]

    def assign(self, target, v, env, value_expr=None):
        if isinstance(target, (ast.Tuple, ast.List)):
            parts = self.unpack(v, len(target.elts), value_expr, env)
            for t, pv in zip(target.elts, parts):
                if isinstance(t, ast.Starred):
                    self.assign(t.value, TOP, env)
                else:
                    self.assign(t, pv, env)
            return
        k = path_key(target)
        if k is not None:
            self.kill(k, env)
            if v != TOP:
                env[k] = v
            return
        if isinstance(target, ast.Subscript):
            self.store_subscript(target, v, env)

    def store_subscript(self, target, v, env):
        pass

    def unpack(self, v, n, value_expr, env):
        if isinstance(value_expr, (ast.Tuple, ast.List)) and len(value_expr.elts) == n:
            return [self.eval(e, env) for e in value_expr.elts]
        return [TOP] * n

    # -------------------------------------------------------------- edges
    def edge(self, node, label, env):
        if node.kind == "test" and label in ("t", "f"):
            want = (label == "t")
            tv = self.test(node.ast, env)
            if tv is not None and tv != want:
                return None
            e = env.copy()
            self.refine(node.ast, want, e)
            return e
        if node.kind == "for" and label == "iter":
            return self.edge_iter(node, env)
        return env

    def edge_iter(self, node, env):
        return env

    # ------------------------------------------------------- evaluation
    def eval(self, e, env):
        if isinstance(e, ast.Constant):
            v = e.value
            if v is None or isinstance(v, (bool, int, str, float)):
                return const(v)
            return NOTNONE
        if isinstance(e, ast.Name):
            return self.eval_name(e, env)
        if isinstance(e, ast.Attribute):
            k = path_key(e)
            if k is not None and k in env:
                return env[k]
            return self.eval_attr(e, env)
        if isinstance(e, ast.UnaryOp) and isinstance(e.op, ast.Not):
            t = truth(self.eval(e.operand, env))
            return TOP if t is None else const(not t)
        if isinstance(e, ast.BoolOp):
            return self.eval_boolop(e, env)
        if isinstance(e, ast.Compare):
            t = self.test(e, env)
            return TOP if t is None else const(t)
        if isinstance(e, ast.IfExp):
            t = self.test(e.test, env)
            if t is True:
                return self.eval(e.body, env)
            if t is False:
                return self.eval(e.orelse, env)
            e1, e2 = env.copy(), env.copy()
            self.refine(e.test, True, e1)
            self.refine(e.test, False, e2)
            return self.join(self.eval(e.body, e1), self.eval(e.orelse, e2))
        if isinstance(e, ast.Call):
            return self.eval_call(e, env)
        if isinstance(e, ast.NamedExpr):
            v = self.eval(e.value, env)
            self.assign(e.target, v, env)
            return v
        return self.eval_other(e, env)

    def eval_name(self, e, env):
        return env.get(e.id, TOP)

    def eval_attr(self, e, env):
        self.eval(e.value, env)
        return TOP

    def eval_call(self, e, env):
        for a in e.args:
            self.eval(a.value if isinstance(a, ast.Starred) else a, env)
        for k in e.keywords:
            self.eval(k.value, env)
        if isinstance(e.func, ast.Attribute):
            self.eval(e.func.value, env)
        return TOP

    def eval_other(self, e, env):
        if isinstance(e, (ast.Tuple, ast.List, ast.Set)):
            for x in e.elts:
                self.eval(x.value if isinstance(x, ast.Starred) else x, env)
            return TRUTHY if e.elts and not any(isinstance(x, ast.Starred) for x in e.elts) else (FALSY if not e.elts else TOP)
        if isinstance(e, ast.Dict):
            for x in e.values:
                self.eval(x, env)
            return TRUTHY if e.keys and all(k is not None for k in e.keys) else (FALSY if not e.keys else TOP)
        if isinstance(e, (ast.JoinedStr,)):
            return NOTNONE
        if isinstance(e, (ast.BinOp,)):
            self.eval(e.left, env)
            self.eval(e.right, env)
            return TOP
        if isinstance(e, ast.Subscript):
            self.eval(e.value, env)
            return TOP
        if isinstance(e, (ast.Lambda, ast.ListComp, ast.SetComp, ast.DictComp, ast.GeneratorExp)):
            return NOTNONE
        return TOP

    def eval_boolop(self, e, env):
        is_and = isinstance(e.op, ast.And)
        env = env.copy()
        possible = []
        for i, x in enumerate(e.values):
            v = self.eval(x, env)
            t = truth(v)
            if i == len(e.values) - 1:
                possible.append(v)
                break
            if is_and:
                if t is False:
                    possible.append(v)
                    break
                if t is None:
                    possible.append(FALSY)
            else:
                if t is True:
                    possible.append(v)
                    break
                if t is None:
                    possible.append(TRUTHY)
            self.refine(x, is_and, env)
        out = possible[0]
        for v in possible[1:]:
            out = self.join(out, v)
        return out

    # ------------------------------------------------------------- tests
    def test(self, e, env):
        """Decide a condition: True / False / None."""
        if isinstance(e, ast.UnaryOp) and isinstance(e.op, ast.Not):
            t = self.test(e.operand, env)
            return None if t is None else (not t)
        if isinstance(e, ast.BoolOp):
            is_and = isinstance(e.op, ast.And)
            env = env.copy()
            unknown = False
            for x in e.values:
                t = self.test(x, env)
                if is_and and t is False:
                    return False
                if (not is_and) and t is True:
                    return True
                if t is None:
                    unknown = True
                self.refine(x, is_and, env)
            return None if unknown else is_and
        if isinstance(e, ast.Compare):
            return self.test_compare(e, env)
        if isinstance(e, ast.Call):
            t = self.test_call(e, env)
            if t is not None:
                return t
        return truth(self.eval(e, env))

    _ISINSTANCE_TYPES = {"int": int, "float": float, "str": str, "bool": bool, "dict": dict, "tuple": tuple, "list": list, "bytes": bytes, "complex": complex}

    def test_call(self, e, env):
        # isinstance(<constant>, builtin type(s)) is decided on the constant (n.b. bool is an int)
        if isinstance(e.func, ast.Name) and e.func.id == "isinstance" and len(e.args) == 2 and not e.keywords:
            v = self.eval(e.args[0], env)
            ts = e.args[1].elts if isinstance(e.args[1], ast.Tuple) else [e.args[1]]
            if is_const(v) and all(isinstance(t, ast.Name) and t.id in self._ISINSTANCE_TYPES for t in ts):
                return isinstance(v[1], tuple(self._ISINSTANCE_TYPES[t.id] for t in ts))
        return None

    def test_compare(self, e, env):
        if len(e.ops) != 1:
            # chained: a is b is c is None  (used once in the repo)
            if all(isinstance(o, ast.Is) for o in e.ops):
                vals = [self.eval(x, env) for x in [e.left] + e.comparators]
                ns = [is_none(v) for v in vals]
                if is_const(vals[-1]) and vals[-1][1] is None:
                    if all(n is True for n in ns):
                        return True
                    if any(n is False for n in ns):
                        return False
            return None
        op = e.ops[0]
        l = self.eval(e.left, env)
        r = self.eval(e.comparators[0], env)
        if isinstance(op, (ast.Is, ast.IsNot)):
            res = None
            if is_const(r) and r[1] is None:
                res = is_none(l)
            elif is_const(l) and l[1] is None:
                res = is_none(r)
            elif is_const(r) and isinstance(r[1], bool):
                if is_const(l):
                    res = l[1] is r[1]
            elif is_const(l) and isinstance(l[1], bool):
                if is_const(r):
                    res = l[1] is r[1]
            elif isinstance(l, tuple) and isinstance(r, tuple) and l and r and l[0] == "obj" and r[0] == "obj":
                res = (l == r)
            if res is None:
                return None
            return res if isinstance(op, ast.Is) else (not res)
        if isinstance(op, (ast.Eq, ast.NotEq)):
            if is_const(l) and is_const(r):
                res = (l[1] == r[1]) and (type(l[1]) == type(r[1]) or not isinstance(l[1], bool) and not isinstance(r[1], bool))
                if isinstance(l[1], bool) != isinstance(r[1], bool):
                    res = l[1] == r[1]
                return res if isinstance(op, ast.Eq) else (not res)
            return None
        if isinstance(op, (ast.In, ast.NotIn)):
            c = e.comparators[0]
            if isinstance(c, (ast.Tuple, ast.List, ast.Set)) and is_const(l):
                vals = [self.eval(x, env) for x in c.elts]
                if all(is_const(v) for v in vals):
                    res = any(v[1] == l[1] for v in vals)
                    return res if isinstance(op, ast.In) else (not res)
            return None
        if isinstance(op, (ast.Lt, ast.LtE, ast.Gt, ast.GtE)):
            if is_const(l) and is_const(r) and isinstance(l[1], (int, float)) and isinstance(r[1], (int, float)):
                a, b = l[1], r[1]
                return {ast.Lt: a < b, ast.LtE: a <= b, ast.Gt: a > b, ast.GtE: a >= b}[type(op)]
        return None

    # ------------------------------------------------------------ refine
    def refine(self, e, outcome, env):
        """Strengthen env knowing that condition e evaluated to outcome."""
        if isinstance(e, ast.UnaryOp) and isinstance(e.op, ast.Not):
            return self.refine(e.operand, not outcome, env)
        if isinstance(e, ast.BoolOp):
            is_and = isinstance(e.op, ast.And)
            if is_and and outcome:
                for x in e.values:
                    self.refine(x, True, env)
            elif (not is_and) and (not outcome):
                for x in e.values:
                    self.refine(x, False, env)
            return
        if isinstance(e, ast.Compare) and len(e.ops) == 1:
            op = e.ops[0]
            k = path_key(e.left)
            r = self.eval(e.comparators[0], env)
            if k is not None and isinstance(op, (ast.Is, ast.IsNot)) and is_const(r):
                positive = outcome if isinstance(op, ast.Is) else (not outcome)
                if r[1] is None:
                    if positive:
                        env[k] = NONE
                    else:
                        cur = env.get(k, TOP)
                        if is_none(cur) is None:
                            env[k] = NOTNONE if truth(cur) is None else cur
                elif isinstance(r[1], bool):
                    if positive:
                        env[k] = r
            elif k is not None and isinstance(op, (ast.Eq, ast.NotEq)) and is_const(r):
                positive = outcome if isinstance(op, ast.Eq) else (not outcome)
                if positive and env.get(k, TOP) in (TOP, TRUTHY, FALSY, NOTNONE):
                    env[k] = r
            elif k is not None and isinstance(op, ast.In) and outcome:
                c = e.comparators[0]
                if isinstance(c, (ast.Tuple, ast.List, ast.Set)) and len(c.elts) == 1:
                    v = self.eval(c.elts[0], env)
                    if is_const(v):
                        env[k] = v
            return
        k = path_key(e)
        if k is not None:
            cur = env.get(k, TOP)
            t = truth(cur)
            if t is None:
                if outcome:
                    env[k] = TRUTHY
                else:
                    env[k] = FALSY if is_none(cur) is not False else cur
            return


def _rpo(g):
    """Reverse post-order numbering of the CFG (loops converge before their
    exits are processed)."""
    key = id(g)
    r = _RPO_CACHE.get(key)
    if r is not None and r[0] is g:
        return r[1]
    seen, post = set(), []
    stack = [(g.entry.id, iter(reversed(g.succ[g.entry.id])))]
    seen.add(g.entry.id)
    while stack:
        nid, it = stack[-1]
        adv = False
        for b, l in it:
            if b not in seen:
                seen.add(b)
                stack.append((b, iter(reversed(g.succ[b]))))
                adv = True
                break
        if not adv:
            post.append(nid)
            stack.pop()
    out = {nid: i for i, nid in enumerate(reversed(post))}
    _RPO_CACHE[key] = (g, out)
    return out


_RPO_CACHE = {}


def _load(t):
    import copy
    t2 = copy.copy(t)
    t2.ctx = ast.Load()
    return t2


def valuations(spec):
    """spec: {name: [values...]} -> iterator of dicts (cartesian product)."""
    names = sorted(spec)
    for combo in itertools.product(*(spec[n] for n in names)):
        yield dict(zip(names, combo))
