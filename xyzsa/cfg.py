"""L2: statement-level control-flow graphs with exception edges.

Node kinds
    entry, exit (normal return / fall off the end), raise (exceptional exit)
    stmt        simple statement (ast = the statement)
    test        condition of if / while / assert-free branching (ast = expr)
    for         loop head of ``for`` (ast = the For statement)
    with_enter  evaluation of one with-item and its __enter__ (ast = withitem)
    with_exit   __exit__ on a non-exceptional way out (label says which)
    with_exc    __exit__ on the exceptional way out
    dispatch    exception dispatch of a ``try`` (ast = the Try statement)
    except      entry of one handler (ast = ExceptHandler)
    def         nested function / class definition statement

Edge labels
    n normal, t / f branch outcomes, iter / done for loops, exc exception,
    ret / brk / cont routed jumps (through finally / with exits).
"""
import ast

from .loader import AnalysisError, norm

CATCH_ALL = {"Exception", "BaseException"}


class Node:
    __slots__ = ("id", "kind", "ast", "stmt", "label", "in_try")

    def __init__(self, id, kind, a=None, stmt=None, label=None):
        self.id = id
        self.kind = kind
        self.ast = a
        self.stmt = stmt if stmt is not None else a
        self.label = label
        self.in_try = False

    @property
    def lineno(self):
        for x in (self.ast, self.stmt):
            ln = getattr(x, "lineno", None)
            if ln is not None:
                return ln
            if isinstance(x, ast.withitem):
                return x.context_expr.lineno
        return 0

    def text(self):
        a = self.ast
        if a is None:
            return self.kind
        if self.kind == "for":
            return "for %s in %s" % (norm(a.target), norm(a.iter))
        if self.kind == "dispatch":
            return "try-dispatch"
        if self.kind == "except":
            return "except %s" % (norm(a.type) if a.type else "")
        if self.kind in ("with_exit", "with_exc"):
            return "%s(%s)" % (self.kind, ", ".join(norm(i.context_expr) for i in a.items) if isinstance(a, ast.With) else norm(a.context_expr))
        if self.kind == "def":
            return "def %s" % a.name
        return norm(a)

    def __repr__(self):
        return "<N%d %s %s>" % (self.id, self.kind, self.text()[:50])


class CFG:
    def __init__(self, fnode):
        self.fnode = fnode
        self.nodes = []
        self.succ = {}
        self.pred = {}
        self.entry = self._new("entry")
        self.exit = self._new("exit")
        self.raise_exit = self._new("raise")

    def _new(self, kind, a=None, stmt=None, label=None):
        n = Node(len(self.nodes), kind, a, stmt, label)
        self.nodes.append(n)
        self.succ[n.id] = []
        self.pred[n.id] = []
        return n

    def _edge(self, a, b, label="n"):
        if (b, label) not in self.succ[a]:
            self.succ[a].append((b, label))
            self.pred[b].append((a, label))

    # ------------------------------------------------------------ queries
    def successors(self, nid, labels=None, skip=None):
        for b, l in self.succ[nid]:
            if labels is not None and l not in labels:
                continue
            if skip is not None and l in skip:
                continue
            yield b

    def reachable(self, start=None, blocked_nodes=(), blocked_edges=(), skip_labels=(), feasible=None):
        """Set of node ids reachable from start (default entry)."""
        start = self.entry.id if start is None else start
        blocked_nodes = set(blocked_nodes)
        blocked_edges = set(blocked_edges)
        seen = set()
        if start in blocked_nodes:
            return seen
        stack = [start]
        seen.add(start)
        while stack:
            a = stack.pop()
            for b, l in self.succ[a]:
                if l in skip_labels or (a, b, l) in blocked_edges or (a, b) in blocked_edges:
                    continue
                if feasible is not None and (a, b, l) not in feasible:
                    continue
                if b in blocked_nodes or b in seen:
                    continue
                seen.add(b)
                stack.append(b)
        return seen

    def dominates(self, a, b, feasible=None, skip_labels=()):
        """Every entry->b path passes through node a (a != b)."""
        if a == b:
            return True
        return b not in self.reachable(blocked_nodes=[a], feasible=feasible, skip_labels=skip_labels)

    def completes_before(self, a, b, feasible=None):
        """Every entry->b path passes through a *normal* out-edge of a: a has
        finished without raising before b starts."""
        exc_edges = [(a, t, l) for t, l in self.succ[a] if l == "exc"]
        # paths that avoid a entirely, or leave a through its exc edge
        r = self.reachable(blocked_nodes=[a], feasible=feasible)
        if b in r:
            return False
        for (_, t, l) in exc_edges:
            if feasible is not None and (a, t, l) not in feasible:
                continue
            if t == b or b in self.reachable(start=t, blocked_nodes=[a], feasible=feasible):
                # reached b from a's failure without passing a again
                return False
        return True

    def can_reach(self, a, b, feasible=None, skip_labels=(), blocked_nodes=()):
        return b in self.reachable(start=a, feasible=feasible, skip_labels=skip_labels, blocked_nodes=blocked_nodes) or a == b

    def nodes_of(self, pred):
        return [n for n in self.nodes if pred(n)]

    def stmt_nodes(self):
        return [n for n in self.nodes if n.kind in ("stmt", "test", "for", "with_enter", "def")]

    def find_calls(self, match):
        """[(node, call)] for every ast.Call in node expressions where
        match(call) is true; nested function bodies excluded."""
        out = []
        for n in self.nodes:
            for c in node_calls(n):
                if match(c):
                    out.append((n, c))
        return out


def node_exprs(n):
    """The expressions evaluated *at* a node (not its sub-blocks)."""
    a = n.ast
    if a is None:
        return []
    if n.kind == "stmt":
        return [a]
    if n.kind == "test":
        return [a]
    if n.kind == "for":
        return [a.iter, a.target]
    if n.kind == "with_enter":
        return [a.context_expr] + ([a.optional_vars] if a.optional_vars else [])
    if n.kind == "except":
        return [a.type] if a.type else []
    if n.kind == "def":
        out = list(getattr(a, "decorator_list", []))
        if isinstance(a, (ast.FunctionDef, ast.AsyncFunctionDef)):
            out += [d for d in a.args.defaults] + [d for d in a.args.kw_defaults if d is not None]
        return out
    return []


def walk_expr(e):
    """ast.walk that does not enter lambda / nested def bodies (comprehension
    bodies *are* entered: they run when the expression is evaluated, except
    for generator expressions, which are lazy but are still listed)."""
    stack = [e]
    while stack:
        x = stack.pop()
        yield x
        if isinstance(x, (ast.Lambda, ast.FunctionDef, ast.AsyncFunctionDef, ast.ClassDef)) and x is not e:
            continue
        stack.extend(ast.iter_child_nodes(x))


def node_calls(n):
    out = []
    for e in node_exprs(n):
        for x in walk_expr(e):
            if isinstance(x, ast.Call):
                out.append(x)
    return out


def _may_raise(exprs):
    for e in exprs:
        for x in walk_expr(e):
            if isinstance(x, (ast.Call, ast.Raise, ast.Await, ast.Yield, ast.YieldFrom, ast.Assert)):
                return True
    return False


class _Frame:
    def __init__(self, kind, **kw):
        self.kind = kind
        self.copies = {}
        self.__dict__.update(kw)


class Builder:
    def __init__(self, fnode):
        self.g = CFG(fnode)
        self.stack = []

    def build(self):
        g = self.g
        body = self.g.fnode.body
        if isinstance(self.g.fnode, ast.Lambda):
            n = g._new("stmt", ast.Return(value=body, lineno=body.lineno, col_offset=0))
            g._edge(g.entry.id, n.id)
            self._exc(n, len(self.stack) - 1)
            g._edge(n.id, g.exit.id, "ret")
            return g
        outs = self.block(body, [(g.entry.id, "n")])
        for a, l in outs:
            g._edge(a, g.exit.id, l)
        return g

    # ----------------------------------------------------------- helpers
    def connect(self, preds, node):
        for a, l in preds:
            self.g._edge(a, node.id, l)

    def _in_try(self, depth=None):
        depth = len(self.stack) - 1 if depth is None else depth
        return any(f.kind in ("try", "finally", "with") for f in self.stack[: depth + 1])

    def _exc(self, node, depth):
        """Route the exception edge of ``node`` outward starting at frame
        index ``depth``."""
        self.route("exc", [(node.id, "exc")], depth)

    def route(self, kind, edges, depth):
        """Connect dangling ``edges`` to the destination of a jump of ``kind``
        starting the outward walk at frame index depth."""
        g = self.g
        i = depth
        while i >= 0:
            fr = self.stack[i]
            if fr.kind == "try" and kind == "exc":
                for a, l in edges:
                    g._edge(a, fr.dispatch.id, l if l == "exc" else "exc")
                return
            if fr.kind == "finally":
                entry = fr.copies.get(kind)
                if entry is None:
                    # build a copy of the finally body for this kind of exit
                    saved = self.stack
                    self.stack = saved[:i]
                    head = g._new("stmt", ast.Pass(lineno=fr.stmt.finalbody[0].lineno, col_offset=0), stmt=fr.stmt, label="finally:" + kind)
                    outs = self.block(fr.stmt.finalbody, [(head.id, "n")])
                    self.stack = saved
                    fr.copies[kind] = head
                    self.route(kind, [(a, kind if kind != "exc" else "exc") for a, _ in outs], i - 1)
                    entry = head
                for a, l in edges:
                    g._edge(a, entry.id, l)
                return
            if fr.kind == "with":
                wkind = "with_exc" if kind == "exc" else "with_exit"
                entry = fr.copies.get(kind)
                if entry is None:
                    entry = g._new(wkind, fr.stmt, stmt=fr.stmt, label=kind)
                    fr.copies[kind] = entry
                    # __exit__ itself may raise
                    self.route("exc", [(entry.id, "exc")], i - 1)
                    if kind != "exc":
                        self.route(kind, [(entry.id, kind)], i - 1)
                    else:
                        self.route("exc", [(entry.id, "exc")], i - 1)
                for a, l in edges:
                    g._edge(a, entry.id, l)
                return
            if fr.kind == "loop" and kind in ("brk", "cont"):
                if kind == "brk":
                    fr.breaks.extend(edges)
                else:
                    for a, l in edges:
                        g._edge(a, fr.head.id, l)
                return
            i -= 1
        # fell off the stack
        if kind == "exc":
            for a, l in edges:
                g._edge(a, g.raise_exit.id, "exc")
        elif kind == "ret":
            for a, l in edges:
                g._edge(a, g.exit.id, "ret")
        else:
            raise AnalysisError("break/continue outside loop")

    def simple(self, kind, a, stmt, preds, label=None, may_raise=None):
        n = self.g._new(kind, a, stmt, label)
        n.in_try = self._in_try()
        self.connect(preds, n)
        if may_raise is None:
            may_raise = n.in_try or _may_raise(node_exprs(n))
        if may_raise:
            self._exc(n, len(self.stack) - 1)
        return n

    # ------------------------------------------------------------- block
    def block(self, stmts, preds):
        for s in stmts:
            if not preds:
                # unreachable code after return/raise: still build it so that
                # rules can see it, but it has no predecessors
                pass
            preds = self.stmt(s, preds)
        return preds

    def stmt(self, s, preds):
        g = self.g
        if isinstance(s, (ast.FunctionDef, ast.AsyncFunctionDef, ast.ClassDef)):
            n = self.simple("def", s, s, preds, may_raise=False)
            return [(n.id, "n")]
        if isinstance(s, ast.Return):
            n = self.simple("stmt", s, s, preds)
            self.route("ret", [(n.id, "ret")], len(self.stack) - 1)
            return []
        if isinstance(s, ast.Raise):
            n = self.simple("stmt", s, s, preds, may_raise=True)
            return []
        if isinstance(s, ast.Break):
            n = self.simple("stmt", s, s, preds, may_raise=False)
            self.route("brk", [(n.id, "brk")], len(self.stack) - 1)
            return []
        if isinstance(s, ast.Continue):
            n = self.simple("stmt", s, s, preds, may_raise=False)
            self.route("cont", [(n.id, "cont")], len(self.stack) - 1)
            return []
        if isinstance(s, ast.If):
            t = self.simple("test", s.test, s, preds)
            outs = self.block(s.body, [(t.id, "t")])
            if s.orelse:
                outs += self.block(s.orelse, [(t.id, "f")])
            else:
                outs.append((t.id, "f"))
            return outs
        if isinstance(s, ast.While):
            t = self.simple("test", s.test, s, preds)
            fr = _Frame("loop", head=t, breaks=[])
            self.stack.append(fr)
            outs = self.block(s.body, [(t.id, "t")])
            self.stack.pop()
            for a, l in outs:
                g._edge(a, t.id, l)
            const_true = isinstance(s.test, ast.Constant) and bool(s.test.value)
            after = [] if const_true else [(t.id, "f")]
            if s.orelse:
                after = self.block(s.orelse, after)
            return after + fr.breaks
        if isinstance(s, (ast.For, ast.AsyncFor)):
            h = self.simple("for", s, s, preds)
            fr = _Frame("loop", head=h, breaks=[])
            self.stack.append(fr)
            outs = self.block(s.body, [(h.id, "iter")])
            self.stack.pop()
            for a, l in outs:
                g._edge(a, h.id, l)
            after = [(h.id, "done")]
            if s.orelse:
                after = self.block(s.orelse, after)
            return after + fr.breaks
        if isinstance(s, (ast.With, ast.AsyncWith)):
            cur = preds
            frames = 0
            for item in s.items:
                n = self.simple("with_enter", item, s, cur, may_raise=True)
                cur = [(n.id, "n")]
                self.stack.append(_Frame("with", stmt=s, item=item))
                frames += 1
            outs = self.block(s.body, cur)
            # normal exit(s), innermost first
            for _ in range(frames):
                depth = len(self.stack) - 1
                fr = self.stack[depth]
                x = g._new("with_exit", s, stmt=s, label="normal")
                self.connect(outs, x)
                self.stack.pop()
                self.route("exc", [(x.id, "exc")], len(self.stack) - 1)
                outs = [(x.id, "n")]
            return outs
        if isinstance(s, ast.Try) or (hasattr(ast, "TryStar") and isinstance(s, ast.TryStar)):
            fin = None
            if s.finalbody:
                fin = _Frame("finally", stmt=s)
                self.stack.append(fin)
            outs = []
            if s.handlers:
                d = g._new("dispatch", s, stmt=s)
                tr = _Frame("try", dispatch=d, stmt=s)
                self.stack.append(tr)
                body_outs = self.block(s.body, preds)
                self.stack.pop()
                catch_all = False
                for h in s.handlers:
                    hn = g._new("except", h, stmt=s)
                    g._edge(d.id, hn.id, "exc")
                    hn.in_try = self._in_try()
                    outs += self.block(h.body, [(hn.id, "n")])
                    if h.type is None or (isinstance(h.type, ast.Name) and h.type.id in CATCH_ALL):
                        catch_all = True
                if not catch_all:
                    self.route("exc", [(d.id, "exc")], len(self.stack) - 1)
            else:
                body_outs = self.block(s.body, preds)
            if s.orelse:
                body_outs = self.block(s.orelse, body_outs)
            outs += body_outs
            if fin is not None:
                self.stack.pop()
                # normal completion runs its own copy of the finally body
                saved = self.stack
                head = g._new("stmt", ast.Pass(lineno=s.finalbody[0].lineno, col_offset=0), stmt=s, label="finally:normal")
                self.connect(outs, head)
                outs = self.block(s.finalbody, [(head.id, "n")])
            return outs
        if hasattr(ast, "Match") and isinstance(s, ast.Match):
            raise AnalysisError("match statement not modelled (line %d)" % s.lineno)
        # simple statements
        n = self.simple("stmt", s, s, preds)
        return [(n.id, "n")]


_CACHE = {}


def build_cfg(fnode):
    g = _CACHE.get(id(fnode))
    if g is None:
        g = Builder(fnode).build()
        _CACHE[id(fnode)] = (g, fnode)
        return g
    return g[0]
