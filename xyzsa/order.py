"""D-ORDER: order / alignment tags of sequences, interprocedurally.

Abstract values (hashable tuples) added to D-TRUTH:

  ('seq', order, elem)   a sequence; ``order`` is
        ('E', key)         enumeration order produced by loop nest / source ``key``
        ('P', n, base)     permutation number n (a shuffle site) of order ``base``
        'DIS'              a recognised order-destroying operation was applied
        'UNK'              an unrecognised transformation of a tracked sequence
        'EMPTY'            the empty list literal, before anything is appended
     ``elem`` describes the elements: a tag, ('pair', e1, e2), ('idx', base)
     (position in order ``base``), ('app', fname, e) (computed from e)
  ('el', elem)           one element of such a sequence (loop variable)
  ('tuple', (v...))      tuple of values (e.g. the two halves of zip(*pairs))
  ('dictlit', ((k, v)...))  dict display / dict(k=v) with literal keys
  ('map', order, kelem, velem)  dict(zip(keys, values)) of aligned sequences

Sinks (recorded in ``OrderInter.sinks``): every zip(A, B) / dict(zip(A, B)) /
``for .. in zip(A, B)`` whose operands are both tracked sequences.
"""
import ast

from .flow import (Flow, Env, TOP, NONE, TRUE, FALSE, TRUTHY, FALSY, NOTNONE, BOT, const, is_const, truth, join_val, path_key)
from .inter import Inter, InterFlow, join_any
from .cfg import build_cfg, node_calls
from .loader import FuncInfo, norm, AnalysisError, walk_shallow
from .util import callee_name

PRESERVING = {"builtins.list", "builtins.tuple", "builtins.iter", "xyzpy.utils.progbar", "tqdm.tqdm", "tqdm.auto.tqdm",
              "itertools.chain", "builtins.map"}
DESTROYING = {"builtins.reversed", "builtins.set", "builtins.frozenset", "concurrent.futures.as_completed",
              "random.sample", "joblib.externals.loky.as_completed", "asyncio.as_completed", "numpy.random.permutation"}
NON_SEQ = {"builtins.len", "builtins.str", "builtins.print", "builtins.isinstance", "builtins.bool", "builtins.repr",
           "builtins.int", "builtins.sum", "builtins.min", "builtins.max", "builtins.any", "builtins.all", "builtins.hasattr",
           "builtins.type", "builtins.id", "builtins.callable", "builtins.float"}


def is_seq(v):
    return isinstance(v, tuple) and len(v) == 3 and v[0] == "seq"


def seq(order, elem):
    return ("seq", order, elem)


def is_el(v):
    return isinstance(v, tuple) and len(v) == 2 and v[0] == "el"


def tracked(v):
    return is_seq(v) and v[1] not in ("EMPTY", "SLOTS")


def _has_empty(o):
    return o in ("EMPTY", "SLOTS") or (isinstance(o, tuple) and any(_has_empty(x) for x in o))


def join_order(a, b):
    if a == b:
        return a
    if a == BOT:
        return b
    if b == BOT:
        return a
    if is_seq(a) and is_seq(b):
        if a[1] == b[1]:
            return seq(a[1], "mixed")
        # a value computed from the not-yet-filled list (zero-iteration
        # transient) is subsumed by the one computed from the filled list
        if _has_empty(a[1]) and not _has_empty(b[1]):
            return b
        if _has_empty(b[1]) and not _has_empty(a[1]):
            return a
        return seq("UNK", "mixed")
    if isinstance(a, tuple) and isinstance(b, tuple) and a and b and a[0] == "tuple" and b[0] == "tuple" and len(a[1]) == len(b[1]):
        return ("tuple", tuple(join_order(x, y) for x, y in zip(a[1], b[1])))
    if is_el(a) and is_el(b):
        return ("el", "mixed")
    if isinstance(a, tuple) and isinstance(b, tuple) and a and b and a[0] == "dictlit" and b[0] == "dictlit":
        da, db = dict(a[1]), dict(b[1])
        if list(da) == list(db):
            return ("dictlit", tuple((k, join_order(da[k], db[k])) for k in da))
    if isinstance(a, tuple) and isinstance(b, tuple) and a and b and a[0] == "map" and b[0] == "map":
        if a[1] == b[1]:
            return ("map", a[1], "mixed", "mixed")
        if _has_empty(a[1]) and not _has_empty(b[1]):
            return b
        if _has_empty(b[1]) and not _has_empty(a[1]):
            return a
    r = join_val(a, b)
    return r


def derived(vals):
    """If any argument value is (derived from) a sequence element, the call's
    result is derived from it."""
    for v in vals:
        if is_el(v):
            return v[1]
        if isinstance(v, tuple) and v and v[0] == "dictlit":
            for _, x in v[1]:
                if is_el(x):
                    return x[1]
    return None


class OrderFlow(InterFlow):
    join = staticmethod(join_order)

    def __init__(self, inter, fi, init):
        super().__init__(inter, fi, init)
        self._loops = {}
        self.out_stores = {}   # "param['key']" -> value at return

    # --------------------------------------------------------------- loops
    def _innermost_loop(self, stmt):
        p = getattr(stmt, "_parent", None)
        while p is not None and not isinstance(p, (ast.FunctionDef, ast.AsyncFunctionDef, ast.Lambda)):
            if isinstance(p, (ast.For, ast.While)):
                return p
            p = getattr(p, "_parent", None)
        return None

    def _outermost_loop(self, stmt):
        out = None
        p = getattr(stmt, "_parent", None)
        while p is not None and not isinstance(p, (ast.FunctionDef, ast.AsyncFunctionDef, ast.Lambda)):
            if isinstance(p, (ast.For, ast.While)):
                out = p
            p = getattr(p, "_parent", None)
        return out

    def _conditional_in_loop(self, stmt, loop):
        """Is ``stmt`` under an if / try / nested construct inside ``loop``
        (i.e. not executed exactly once per iteration)?"""
        p = getattr(stmt, "_parent", None)
        while p is not None and p is not loop:
            if isinstance(p, (ast.If, ast.Try, ast.While, ast.With)) and not isinstance(p, ast.With):
                return True
            p = getattr(p, "_parent", None)
        return False

    def for_target(self, node, itval, env):
        s = node.ast
        if is_seq(itval) and itval[1] not in ("EMPTY",):
            self._loops[id(s)] = itval[1]
            self.assign_elem(s.target, itval[2], env)
            return
        if isinstance(itval, tuple) and itval and itval[0] == "zipsink":
            self._loops[id(s)] = itval[1]
            self.assign_elem(s.target, itval[2], env)
            return
        self._loops[id(s)] = None
        self.assign(s.target, TOP, env)

    def assign_elem(self, target, elem, env):
        if isinstance(target, (ast.Tuple, ast.List)) and isinstance(elem, tuple) and elem and elem[0] == "pair" and len(target.elts) == 2:
            self.assign_elem(target.elts[0], elem[1], env)
            self.assign_elem(target.elts[1], elem[2], env)
            return
        if isinstance(target, (ast.Tuple, ast.List)):
            for t in target.elts:
                self.assign(t.value if isinstance(t, ast.Starred) else t, ("el", ("part", elem)), env)
            return
        if is_seq(elem):
            self.assign(target, elem, env)     # element is itself a sequence (transposed results)
        else:
            self.assign(target, ("el", elem), env)

    def loop_order(self, stmt):
        """Order tag of sequences appended to, once per iteration, in the
        innermost loop around ``stmt``."""
        inner = self._innermost_loop(stmt)
        if inner is None:
            return None
        outer = self._outermost_loop(stmt)
        if inner is outer and isinstance(inner, ast.For):
            o = self._loops.get(id(inner))
            if o is not None:
                return o              # single loop over a tracked sequence: inherits its order
        if isinstance(outer, ast.For):
            return ("E", "nest:" + norm(outer.target) + " in " + norm(outer.iter)[:40])
        return "UNK"

    # --------------------------------------------------------------- calls
    def exec_stmt(self, s, env):
        if isinstance(s, ast.Expr) and isinstance(s.value, ast.Call):
            c = s.value
            f = c.func
            if isinstance(f, ast.Attribute) and f.attr == "append" and len(c.args) == 1:
                k = path_key(f.value)
                v = self.eval(c.args[0], env)
                if k is not None:
                    cur = env.get(k, TOP)
                    if is_seq(cur) or cur == TOP:
                        lo = self.loop_order(s)
                        inner = self._innermost_loop(s)
                        if lo is None:
                            new = seq("UNK", "appended") if tracked(cur) else cur
                        else:
                            if inner is not None and self._conditional_in_loop(s, inner):
                                lo = ("F", lo, "conditional")
                            elem = v[1] if is_el(v) else (k if v == TOP or not isinstance(v, tuple) else ("val", k))
                            if is_seq(cur) and cur[1] not in ("EMPTY", lo):
                                new = seq("UNK", elem)
                            else:
                                new = seq(lo, elem)
                        if is_seq(cur) or lo is not None:
                            env[k] = new
                    return
            if isinstance(f, ast.Attribute) and f.attr in ("sort", "reverse", "pop", "insert", "remove", "clear") and path_key(f.value):
                k = path_key(f.value)
                cur = env.get(k, TOP)
                for a in c.args:
                    self.eval(a, env)
                if tracked(cur):
                    env[k] = seq("DIS", cur[2])
                    self.inter.note_destroy(self.fi, c, "%s.%s()" % (k, f.attr))
                return
            nm = callee_name(self.inter.ctx, self.fi, c)
            if nm in ("random.shuffle", "numpy.random.shuffle") and c.args:
                k = path_key(c.args[0])
                cur = env.get(k, TOP) if k else TOP
                if k and is_seq(cur):
                    n = self.inter.perm_id(self.fi, c)
                    env[k] = seq(("P", n, cur[1]), cur[2])
                return
        super().exec_stmt(s, env)

    def store_subscript(self, target, v, env):
        b = path_key(target.value)
        if b is not None and not isinstance(target.slice, (ast.Constant, ast.Slice)):
            # scatter by a carried index:  out[i] = res  with i the original
            # position of res  ==> out is in the order the positions refer to
            idx = self.eval(target.slice, env)
            if is_el(idx) and isinstance(idx[1], tuple) and idx[1] and idx[1][0] == "idx":
                cur = env.get(b, TOP)
                if is_seq(cur) and cur[1] in ("EMPTY", "SLOTS") or cur == TOP or (is_seq(cur) and cur[1] == idx[1][1]):
                    env[b] = seq(idx[1][1], v[1] if is_el(v) else "stored")
                    return
            cur = env.get(b, TOP)
            if tracked(cur):
                env[b] = seq("UNK", cur[2])
            return
        if b is not None and isinstance(target.slice, ast.Constant):
            key = "%s[%r]" % (b, target.slice.value)
            env[key] = v if v != TOP else ("obj", "stored-value")

    def on_return(self, s, v, env):
        super().on_return(s, v, env)
        for k, val in env.items():
            if "[" in k:
                base = k.split("[", 1)[0]
                if base in self.fi.params:
                    old = self.out_stores.get(k)
                    self.out_stores[k] = val if old is None else join_order(old, val)

    def eval_other(self, e, env):
        if isinstance(e, ast.Subscript):
            b = path_key(e.value)
            if b is not None and isinstance(e.slice, ast.Constant):
                key = "%s[%r]" % (b, e.slice.value)
                if key in env:
                    return env[key]
            v = self.eval(e.value, env)
            if b is not None and isinstance(e.slice, ast.Constant) and isinstance(e.slice.value, str) and \
                    (v == NONE or (isinstance(v, tuple) and v and v[0] == "dictlit" and e.slice.value not in dict(v[1]))):
                self.inter.missing_keys.append((self.fi, e, b, e.slice.value, "None" if v == NONE else "a dict without that key", list(self.inter.stack)))
            if is_seq(v):
                if isinstance(e.slice, ast.Slice):
                    st = e.slice
                    if st.lower is None and st.upper is None and st.step is None:
                        return v
                    if st.step is not None and norm(st.step) == "-1":
                        self.inter.note_destroy(self.fi, e, "[::-1]")
                        return seq("DIS", v[2])
                    return seq("UNK", v[2])
                idx = self.eval(e.slice, env)
                if is_el(idx) and isinstance(idx[1], tuple) and idx[1] and idx[1][0] == "idx":
                    return ("el", ("at", v[2], idx[1]))
                return ("el", v[2]) if not is_seq(v[2]) else v[2]
            if is_el(v) and isinstance(e.slice, ast.Constant) and isinstance(v[1], tuple) and v[1] and v[1][0] == "pair" and e.slice.value in (0, 1):
                return ("el", v[1][1 + e.slice.value])
            if is_el(v):
                return ("el", ("part", v[1]))
            return TOP
        if isinstance(e, (ast.List, ast.Tuple)) and not e.elts:
            return seq("EMPTY", None)
        if isinstance(e, (ast.ListComp, ast.GeneratorExp)):
            return self.eval_comp(e, env)
        if isinstance(e, ast.Dict):
            if all(isinstance(k, ast.Constant) for k in e.keys):
                return ("dictlit", tuple((k.value, self.eval(v, env)) for k, v in zip(e.keys, e.values)))
            vals = [self.eval(v, env) for v in e.values]
            d = derived(vals)
            return ("el", d) if d is not None else TOP
        if isinstance(e, ast.BinOp) and isinstance(e.op, ast.Mult) and isinstance(e.left, ast.List) and len(e.left.elts) == 1 and isinstance(e.left.elts[0], ast.Constant):
            self.eval(e.right, env)
            return seq("SLOTS", None)
        if isinstance(e, ast.BinOp):
            l, r = self.eval(e.left, env), self.eval(e.right, env)
            d = derived([l, r])
            if d is not None:
                return ("el", d)
            if is_seq(l) and is_seq(r):
                return seq("UNK", l[2])
            return TOP
        if isinstance(e, ast.Starred):
            return self.eval(e.value, env)
        if isinstance(e, ast.Lambda):
            return ("lambda", id(e))
        return super().eval_other(e, env)

    def eval_comp(self, e, env):
        if len(e.generators) != 1:
            for g in e.generators:
                self.eval(g.iter, env)
            return TOP
        g = e.generators[0]
        it = self.eval(g.iter, env)
        order = None
        elem = None
        if is_seq(it) and it[1] != "EMPTY":
            order, elem = it[1], it[2]
        elif isinstance(it, tuple) and it and it[0] == "zipsink":
            order, elem = it[1], it[2]
        if order is None:
            return NOTNONE
        sub = env.copy()
        self.assign_elem(g.target, elem, sub)
        for cnd in g.ifs:
            self.eval(cnd, sub)
        v = self.eval(e.elt, sub)
        if g.ifs:
            order = ("F", order, "filtered")
        if is_seq(v):
            return seq(order, v)
        if is_el(v):
            return seq(order, v[1])
        return seq(order, ("val", norm(e.elt)[:30]))

    def eval_call(self, e, env):
        inter = self.inter
        nm = callee_name(inter.ctx, self.fi, e)
        f = e.func
        args = [self.eval(a.value if isinstance(a, ast.Starred) else a, env) for a in e.args]
        starred = [isinstance(a, ast.Starred) for a in e.args]
        kws = {k.arg: self.eval(k.value, env) for k in e.keywords if k.arg}
        splats = [self.eval(k.value, env) for k in e.keywords if k.arg is None]
        allvals = args + list(kws.values()) + splats
        if nm in NON_SEQ:
            return TOP
        if nm == "builtins.dict":
            if not e.args:
                return ("dictlit", tuple((k, v) for k, v in kws.items()))
            if len(args) == 1 and isinstance(args[0], tuple) and args[0] and args[0][0] == "zipsink":
                z = args[0]
                el = z[2]
                return ("map", z[1], el[1], el[2]) if isinstance(el, tuple) and el[0] == "pair" else TOP
            d = derived(args)
            return ("el", d) if d is not None else TOP
        if nm == "builtins.enumerate" and args and is_seq(args[0]):
            s = args[0]
            return seq(s[1], ("pair", ("idx", s[1]), s[2]))
        if nm == "builtins.zip":
            if len(args) == 1 and starred[0]:
                s = args[0]
                if is_seq(s) and isinstance(s[2], tuple) and s[2] and s[2][0] == "pair":
                    return ("tuple", (seq(s[1], s[2][1]), seq(s[1], s[2][2])))
                if is_seq(s):
                    # transposition of per-element tuples: a sequence (one per
                    # output variable) of sequences in the original order
                    return seq(("E", "vars"), seq(s[1], ("comp", s[2])))
                return TOP
            seqs = [a for a in args if tracked(a)]
            if len(args) == 2 and len(seqs) == 2 and not any(starred):
                a, b = args
                ok = (a[1] == b[1]) and a[1] not in ("DIS", "UNK") and not (isinstance(a[1], tuple) and a[1][0] == "F")
                inter.sink(self.fi, e, a, b, ok)
                return ("zipsink", a[1] if ok else "DIS", ("pair", a[2], b[2]))
            if len(args) == 2 and len(seqs) == 1 and not any(starred):
                s = seqs[0]
                pos = args.index(s)
                other = "other"
                return ("zipsink", s[1], ("pair", s[2], other) if pos == 0 else ("pair", other, s[2]))
            d = derived(args)
            return ("el", d) if d is not None else TOP
        if nm == "builtins.sorted" and args:
            s = args[0]
            if isinstance(s, tuple) and s and s[0] == "zipsink":
                s = seq(s[1], s[2])
            if is_seq(s):
                comp = 0
                rev = False
                keyed = False
                for k in e.keywords:
                    if k.arg == "key":
                        keyed = True
                        comp = None
                        if isinstance(k.value, ast.Lambda):
                            b = k.value.body
                            if isinstance(b, ast.Subscript) and isinstance(b.slice, ast.Constant) and isinstance(b.value, ast.Name) \
                                    and b.value.id == k.value.args.args[0].arg:
                                comp = b.slice.value
                        elif norm(k.value) in ("operator.itemgetter(0)", "itemgetter(0)"):
                            comp = 0
                    if k.arg == "reverse" and not (isinstance(k.value, ast.Constant) and k.value.value is False):
                        rev = True
                el = s[2]
                if isinstance(el, tuple) and el and el[0] == "pair" and comp in (0, 1) and not rev:
                    key = el[1 + comp]
                    if isinstance(key, tuple) and key and key[0] == "idx":
                        return seq(key[1], el)
                inter.note_destroy(self.fi, e, "sorted(...) not by the carried index")
                return seq("DIS", el)
            return TOP
        if nm in PRESERVING and args:
            s = args[0] if nm != "builtins.map" else (args[1] if len(args) > 1 else TOP)
            if isinstance(s, tuple) and s and s[0] == "zipsink":
                s = seq(s[1], s[2])
            if is_seq(s):
                if nm == "builtins.map":
                    return seq(s[1], ("app", norm(e.args[0])[:30], s[2]))
                return s
            return TOP if not args or not is_el(args[0]) else args[0]
        if nm in DESTROYING and args and (tracked(args[0]) or (isinstance(args[0], tuple) and args[0] and args[0][0] == "zipsink")):
            inter.note_destroy(self.fi, e, nm)
            return seq("DIS", args[0][2])
        if nm == "itertools.product":
            return TOP
        # method calls on tracked values
        if isinstance(f, ast.Attribute):
            recv = self.eval(f.value, env)
            if isinstance(recv, tuple) and recv and recv[0] == "dictlit":
                d = dict(recv[1])
                if f.attr == "get" and e.args and isinstance(e.args[0], ast.Constant):
                    return d.get(e.args[0].value, args[1] if len(args) > 1 else NONE)
            if isinstance(recv, tuple) and recv and recv[0] == "map" and f.attr in ("pop", "get"):
                return ("el", recv[3])
            if is_el(recv):
                d = derived(allvals)
                return ("el", ("app", f.attr, recv[1]))
        # in-repo callee: interprocedural summary
        hv = inter.call_hook(self, e, nm, env)
        if hv is not None:
            return hv
        callee = inter.resolve(self.fi, e)
        if callee is not None:
            return self.call_inrepo(e, callee, env)
        from .loader import ClassInfo
        if isinstance(inter.ctx.res.resolve_expr(self.fi, e.func), ClassInfo):
            return NOTNONE
        # unknown callee
        d = derived(allvals)
        if d is not None:
            return ("el", ("app", nm.lstrip("?").lstrip("."), d))
        if any(tracked(v) for v in allvals):
            if nm.startswith("builtins.") or nm.startswith("?"):
                return TOP
            return seq("UNK", "via " + nm)
        return TOP

    def call_inrepo(self, e, callee, env):
        from .callgraph import bind_call
        inter = self.inter
        binding, problems, star = bind_call(e, callee, *inter.partial_info(self.fi, e))
        val = {}
        # closures see the caller's locals
        if callee.parent is self.fi:
            for k, v in env.items():
                if v != TOP and k not in callee.params:
                    val[k] = v
        dflts = callee.defaults()
        for p in callee.params:
            if p in binding:
                v = self.eval(binding[p], env)
            elif p in dflts:
                v = Flow(self.cfg).eval(dflts[p], Env())
                if star:
                    v = TOP
            else:
                v = TOP
            if v != TOP:
                val[p] = v
        if star:
            for k in e.keywords:
                if k.arg is None:
                    sv = self.eval(k.value, env)
                    if isinstance(sv, tuple) and sv and sv[0] == "dictlit":
                        for p, v in sv[1]:
                            if p in callee.params and v != TOP:
                                val[p] = v
                            elif p in callee.params:
                                val.pop(p, None)
                    elif is_el(sv) and callee.has_kwargs:
                        val[callee.node.args.kwarg.arg] = sv
        fl = inter.flow(callee, val)
        if fl is None:
            return TOP
        self.call_vals[id(e)] = (callee, val)
        # out-parameters: dict entries stored by the callee
        for k, v in getattr(fl, "out_stores", {}).items():
            base, rest = k.split("[", 1)
            if base in binding:
                ak = path_key(binding[base])
                if ak is not None:
                    env["%s[%s" % (ak, rest)] = v
        ev = set()
        for s in fl.node_events.values():
            ev |= s
        self._add_events(ev)
        r = fl.returns if fl.returns != BOT else NONE
        if r == TOP:
            d = derived([val.get(p, TOP) for p in callee.params])
            if d is not None:
                return ("el", ("app", callee.name, d))
        return r


class OrderInter(Inter):
    flow_cls = OrderFlow

    def __init__(self, ctx, primitive=None):
        super().__init__(ctx, primitive, track=None, max_depth=16)
        self.sinks = []
        self.missing_keys = []
        self.destroyed = []
        self._perm = {}

    def perm_id(self, fi, call):
        k = (fi.qualname, norm(call))
        if k not in self._perm:
            self._perm[k] = len(self._perm) + 1
        return self._perm[k]

    def sink(self, fi, call, a, b, ok):
        self.sinks.append((fi, call, a, b, ok, list(self.stack)))

    def note_destroy(self, fi, node, what):
        self.destroyed.append((fi, node, what))

    def flow(self, fi, val):
        key = (fi.qualname, tuple(sorted((k, repr(v)) for k, v in val.items())))
        if key in self.memo:
            return self.memo[key]
        if key in self.stack or len(self.stack) >= self.max_depth:
            return None
        self.stack.append(key)
        try:
            fl = OrderFlow(self, fi, val)
            fl.run()
            self.ctx.touch(fi, fl.cfg)
        finally:
            self.stack.pop()
        self.memo[key] = fl
        return fl
