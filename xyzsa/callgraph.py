"""L1: scope-aware reference resolution and the intra-package call graph."""
import ast

from .loader import (Program, FuncInfo, ClassInfo, Partial, External, Module,
                     walk_shallow, BUILTINS, AnalysisError, norm)

# Receiver-name hints: a variable / attribute of this *name* holds an instance
# of that class everywhere in the repository (confirmed by reading every use;
# the names are the repository's own parameter names for these objects).
RECEIVER_HINTS = {
    "crop": "xyzpy.gen.cropping.Crop",        # parameter of grow/Sower/Reaper/gen_cluster_script
    "harvester": "xyzpy.gen.farming.Harvester",  # Crop.reap_harvest parameter
    "sampler": "xyzpy.gen.farming.Sampler",    # Crop.reap_samples parameter
    "runner": "xyzpy.gen.farming.Runner",      # Crop.reap_runner parameter, Harvester/Sampler attribute
}


class Scope:
    """Names bound in one function (not descending into nested functions)."""

    def __init__(self, prog, fi):
        self.fi = fi
        self.locals = set(fi.params)
        self.imports = {}
        self.globals_decl = set()
        self.nonlocal_decl = set()
        for n in walk_shallow(fi.node):
            if isinstance(n, ast.Name) and isinstance(n.ctx, (ast.Store, ast.Del)):
                self.locals.add(n.id)
            elif isinstance(n, (ast.FunctionDef, ast.AsyncFunctionDef, ast.ClassDef)):
                self.locals.add(n.name)
            elif isinstance(n, (ast.Import, ast.ImportFrom)):
                prog._record_import(fi.module, n, self.imports)
                for a in n.names:
                    self.locals.add((a.asname or a.name).split(".")[0])
            elif isinstance(n, ast.Global):
                self.globals_decl.update(n.names)
            elif isinstance(n, ast.Nonlocal):
                self.nonlocal_decl.update(n.names)
            elif isinstance(n, ast.ExceptHandler) and n.name:
                self.locals.add(n.name)
            elif isinstance(n, ast.arg):
                self.locals.add(n.arg)   # lambda parameters (approximation)
            elif isinstance(n, (ast.MatchAs, ast.MatchStar)) and getattr(n, "name", None):
                self.locals.add(n.name)
        self.locals -= self.globals_decl


class Resolver:
    def __init__(self, prog: Program):
        self.prog = prog
        self._scopes = {}
        self.unresolved = []

    def scope(self, fi):
        s = self._scopes.get(id(fi))
        if s is None:
            s = self._scopes[id(fi)] = Scope(self.prog, fi)
        return s

    # ------------------------------------------------------------- names
    def resolve_name(self, fi, name):
        """-> ('local', FuncInfo owner) | FuncInfo | ClassInfo | Partial |
        Module | External | ('const', m, n) | ('builtin', n) | ('missing',..) | None"""
        f = fi
        while f is not None:
            sc = self.scope(f)
            if name in sc.locals:
                if name in f.nested:
                    return f.nested[name]
                if name in sc.imports:
                    return self.prog._resolve_import(sc.imports[name])
                return ("local", f)
            f = f.parent
        m = fi.module
        r = self.prog.resolve_global(m, name)
        if r is not None:
            return r
        # names assigned at module level in ways the const table misses
        if name in _module_level_names(m):
            return ("modvar", m, name)
        if name in BUILTINS:
            return ("builtin", name)
        return None

    def resolve_expr(self, fi, expr):
        """Resolve Name / Attribute chains inside function ``fi``."""
        if isinstance(expr, ast.Name):
            return self.resolve_name(fi, expr.id)
        if isinstance(expr, ast.Attribute):
            # self.method / self.attr
            if isinstance(expr.value, ast.Name) and expr.value.id == "self" and fi_class(fi) is not None \
                    and self.resolve_name(fi, "self") is not None and self.resolve_name(fi, "self")[0] == "local":
                ci = fi_class(fi)
                r = ci.find_method(expr.attr)
                if r is not None:
                    return r
                return ("selfattr", ci, expr.attr)
            base = self.resolve_expr(fi, expr.value)
            if isinstance(base, (Module, External, ClassInfo)):
                return self.prog.getattr_static(base, expr.attr)
            # receiver hints
            hint = self._hint_class(fi, expr.value)
            if hint is not None:
                r = hint.find_method(expr.attr)
                if r is not None:
                    return r
                return ("instattr", hint, expr.attr)
            return None
        return None

    def _hint_class(self, fi, recv):
        name = None
        if isinstance(recv, ast.Name):
            name = recv.id
        elif isinstance(recv, ast.Attribute):
            name = recv.attr
        if name in RECEIVER_HINTS:
            # a local *module* or function of that name is not an instance
            if isinstance(recv, ast.Name):
                r = self.resolve_name(fi, name)
                if not (isinstance(r, tuple) and r[0] == "local"):
                    return None
            return self.prog.cls(RECEIVER_HINTS[name])
        return None

    # ------------------------------------------------------------- calls
    def resolve_call(self, fi, call):
        """-> list of targets: FuncInfo | Partial | ClassInfo | External; [] if
        the callee is a local value / unknown."""
        r = self.resolve_expr(fi, call.func)
        if isinstance(r, (FuncInfo, Partial, ClassInfo, External)):
            return [r]
        return []

    def callee_funcs(self, fi, call):
        """In-repo FuncInfos that may run for this call (constructor ->
        __init__)."""
        out = []
        for t in self.resolve_call(fi, call):
            if isinstance(t, FuncInfo):
                out.append(t)
            elif isinstance(t, Partial):
                out.append(t.func)
            elif isinstance(t, ClassInfo):
                init = t.find_method("__init__")
                if isinstance(init, FuncInfo):
                    out.append(init)
        return out

    # -------------------------------------------------------- call graph
    def calls_in(self, fi, include_nested=False):
        """All ast.Call nodes lexically in fi (optionally in nested defs)."""
        out = []
        it = ast.walk(fi.node) if include_nested else walk_shallow(fi.node)
        for n in it:
            if isinstance(n, ast.Call):
                out.append(n)
        return out

    def edges(self, fi):
        """[(call node, FuncInfo callee)] for fi, nested functions included as
        separate edges fi -> nested (they run when fi calls them)."""
        out = []
        for c in self.calls_in(fi):
            for t in self.callee_funcs(fi, c):
                out.append((c, t))
        return out

    def slice(self, entries, extra_edges=None, stop=None):
        """Functions reachable from ``entries`` (FuncInfo list) through resolved
        calls; nested functions of a reached function are included; a class
        instantiated in a reached function contributes __init__, __enter__,
        __exit__, __call__ (objects used as context managers / callables)."""
        seen = {}
        work = list(entries)
        while work:
            f = work.pop()
            if f is None or id(f) in seen:
                continue
            if stop and f.qualname in stop:
                continue
            seen[id(f)] = f
            for n in f.nested.values():
                work.append(n)
            for c in self.calls_in(f):
                for t in self.resolve_call(f, c):
                    if isinstance(t, FuncInfo):
                        work.append(t)
                    elif isinstance(t, Partial):
                        work.append(t.func)
                    elif isinstance(t, ClassInfo):
                        for mname in ("__init__", "__enter__", "__exit__", "__call__"):
                            mm = t.find_method(mname)
                            if isinstance(mm, FuncInfo):
                                work.append(mm)
            # functions passed as values (e.g. combo_runner_core(grow, ...))
            for n in walk_shallow(f.node):
                if isinstance(n, ast.Call):
                    for a in list(n.args) + [k.value for k in n.keywords]:
                        if isinstance(a, (ast.Name, ast.Attribute)):
                            t = self.resolve_expr(f, a)
                            if isinstance(t, FuncInfo):
                                work.append(t)
                            elif isinstance(t, Partial):
                                work.append(t.func)
            if extra_edges and f.qualname in extra_edges:
                for q in extra_edges[f.qualname]:
                    work.append(self.prog.func(q))
        return list(seen.values())

    def callers_of(self, target, within=None):
        """[(caller FuncInfo, call node)] of every resolved call to target."""
        out = []
        funcs = within if within is not None else list(self.prog.all_funcs())
        for f in funcs:
            for c in self.calls_in(f):
                for t in self.resolve_call(f, c):
                    tf = t.func if isinstance(t, Partial) else t
                    if isinstance(tf, ClassInfo):
                        tf = tf.find_method("__init__")
                    if tf is target:
                        out.append((f, c))
        return out


def fi_class(fi):
    f = fi
    while f is not None:
        if f.cls is not None:
            return f.cls
        f = f.parent
    return None


_MODNAMES_CACHE = {}


def _module_level_names(m):
    r = _MODNAMES_CACHE.get(id(m))
    if r is None:
        r = set()
        stack = list(m.tree.body)
        while stack:
            n = stack.pop()
            if isinstance(n, (ast.FunctionDef, ast.AsyncFunctionDef, ast.ClassDef)):
                r.add(n.name)
                continue
            for sub in ast.walk(n):
                if isinstance(sub, ast.Name) and isinstance(sub.ctx, ast.Store):
                    r.add(sub.id)
                elif isinstance(sub, ast.alias):
                    r.add((sub.asname or sub.name).split(".")[0])
        _MODNAMES_CACHE[id(m)] = r
    return r


def bind_call(call, callee, partial_kws=None, is_method=None):
    """Bind actual -> formal for a resolved call.  Returns
    (binding: formal -> expr node, problems: [str], star: bool)

    ``star`` is true if the call uses ``*args`` / ``**kw`` whose content is
    not syntactically known (then missing-argument problems are not reported).
    """
    fi = callee
    problems = []
    binding = {}
    params = list(fi.positional)
    if is_method is None:
        is_method = fi.cls is not None and fi.parent is None and not _is_static(fi)
    if is_method and params:
        params = params[1:]
    star = False
    pos_actuals = []
    for a in call.args:
        if isinstance(a, ast.Starred):
            star = True
        else:
            pos_actuals.append(a)
    if len(pos_actuals) > len(params) and not fi.has_varargs:
        problems.append("too many positional arguments (%d > %d)" % (len(pos_actuals), len(params)))
    for p, a in zip(params, pos_actuals):
        binding[p] = a
    allowed = set(params) | set(fi.kwonly)
    for k in call.keywords:
        if k.arg is None:
            # **{...literal...} is expanded, otherwise unknown
            if isinstance(k.value, ast.Dict) and all(isinstance(x, ast.Constant) for x in k.value.keys if x is not None) \
                    and all(x is not None for x in k.value.keys):
                for kk, vv in zip(k.value.keys, k.value.values):
                    _bind_kw(kk.value, vv, allowed, fi, binding, problems)
            else:
                star = True
            continue
        _bind_kw(k.arg, k.value, allowed, fi, binding, problems)
    if partial_kws:
        for kname, v in partial_kws.items():
            binding.setdefault(kname, v)
    if not star:
        req = [p for p in fi.required() if p in allowed]
        for p in req:
            if p not in binding:
                problems.append("required parameter %r not supplied" % p)
    return binding, problems, star


def _bind_kw(name, value, allowed, fi, binding, problems):
    if name in binding:
        problems.append("parameter %r given twice" % name)
    if name not in allowed and not fi.has_kwargs:
        problems.append("unexpected keyword argument %r" % name)
    binding[name] = value


def _is_static(fi):
    for d in fi.node.decorator_list:
        if isinstance(d, ast.Name) and d.id == "staticmethod":
            return True
    return False
