"""Helpers shared by the property rule modules."""
import ast

from .loader import FuncInfo, ClassInfo, Partial, External, Module, norm, AnalysisError, walk_shallow
from .cfg import build_cfg, node_calls, node_exprs, walk_expr


def callee_name(ctx, fi, call):
    """A stable dotted description of what a call invokes:
    'os.replace', 'builtins.open', 'xyzpy.gen.cropping.write_to_disk',
    'xyzpy.gen.cropping.Crop' (constructor), '?.append' (method on a value),
    or '?' (unknown)."""
    r = ctx.res.resolve_expr(fi, call.func)
    if isinstance(r, FuncInfo):
        return r.qualname
    if isinstance(r, Partial):
        return r.func.qualname
    if isinstance(r, ClassInfo):
        return r.qualname
    if isinstance(r, External):
        return r.dotted
    if isinstance(r, tuple) and r[0] == "builtin":
        return "builtins." + r[1]
    if isinstance(call.func, ast.Attribute):
        return "?." + call.func.attr
    if isinstance(call.func, ast.Name):
        return "?" + call.func.id
    return "?"


def callee_func(ctx, fi, call):
    r = ctx.res.resolve_expr(fi, call.func)
    if isinstance(r, FuncInfo):
        return r
    if isinstance(r, Partial):
        return r.func
    return None


def calls_named(ctx, fi, names, cfg=None):
    """[(cfg node, call)] of calls in fi whose callee_name is in names."""
    cfg = cfg or build_cfg(fi.node)
    out = []
    for n in cfg.nodes:
        for c in node_calls(n):
            if callee_name(ctx, fi, c) in names:
                out.append((n, c))
    return out


def all_calls(ctx, fi, cfg=None):
    cfg = cfg or build_cfg(fi.node)
    out = []
    for n in cfg.nodes:
        for c in node_calls(n):
            out.append((n, c, callee_name(ctx, fi, c)))
    return out


def arg(call, pos=None, kw=None):
    """Actual argument expression by position and/or keyword, else None."""
    if kw is not None:
        for k in call.keywords:
            if k.arg == kw:
                return k.value
    if pos is not None and pos < len(call.args) and not any(isinstance(a, ast.Starred) for a in call.args[: pos + 1]):
        return call.args[pos]
    return None


def names_in(expr):
    return {n.id for n in ast.walk(expr) if isinstance(n, ast.Name)}


def attr_paths_in(expr):
    from .flow import path_key
    out = set()
    for n in ast.walk(expr):
        if isinstance(n, (ast.Name, ast.Attribute)):
            k = path_key(n)
            if k:
                out.add(k)
    return out


def assignments_to(fi, name, cfg=None):
    """[(node, value expr)] simple assignments ``name = value`` in fi."""
    cfg = cfg or build_cfg(fi.node)
    out = []
    for n in cfg.nodes:
        if n.kind == "stmt" and isinstance(n.ast, ast.Assign):
            for t in n.ast.targets:
                if isinstance(t, ast.Name) and t.id == name:
                    out.append((n, n.ast.value))
                elif isinstance(t, (ast.Tuple, ast.List)):
                    for i, el in enumerate(t.elts):
                        if isinstance(el, ast.Name) and el.id == name:
                            v = n.ast.value
                            if isinstance(v, (ast.Tuple, ast.List)) and len(v.elts) == len(t.elts):
                                out.append((n, v.elts[i]))
                            else:
                                out.append((n, None))
        elif n.kind == "with_enter" and n.ast.optional_vars is not None:
            if isinstance(n.ast.optional_vars, ast.Name) and n.ast.optional_vars.id == name:
                out.append((n, n.ast.context_expr))
        elif n.kind == "for":
            if name in names_in(n.ast.target):
                out.append((n, None))
        elif n.kind == "stmt" and isinstance(n.ast, ast.AugAssign):
            if isinstance(n.ast.target, ast.Name) and n.ast.target.id == name:
                out.append((n, None))
    return out


def single_def(fi, name, cfg=None):
    """The unique defining expression of local ``name`` in fi, or None."""
    d = assignments_to(fi, name, cfg)
    if len(d) == 1 and d[0][1] is not None:
        return d[0]
    return None


def open_mode(call):
    """Mode string of an ``open`` call, or None if not a literal."""
    m = arg(call, 1, "mode")
    if m is None:
        return "r"
    if isinstance(m, ast.Constant) and isinstance(m.value, str):
        return m.value
    return None


def is_write_mode(mode):
    return mode is None or any(c in mode for c in "wax+")


def node_of_call(cfg, call):
    for n in cfg.nodes:
        for c in node_calls(n):
            if c is call:
                return n
    return None


def with_exit_nodes(cfg, with_stmt, label="normal"):
    return [n for n in cfg.nodes if n.kind == "with_exit" and n.ast is with_stmt and n.label == label]


def enclosing_with(node_ast):
    """Innermost ast.With containing the given ast node (via _parent)."""
    p = getattr(node_ast, "_parent", None)
    while p is not None and not isinstance(p, (ast.FunctionDef, ast.AsyncFunctionDef, ast.Lambda)):
        if isinstance(p, ast.With):
            return p
        p = getattr(p, "_parent", None)
    return None


def stmt_of(node_ast):
    p = node_ast
    while p is not None and not isinstance(p, ast.stmt):
        p = getattr(p, "_parent", None)
    return p


def need(cond, msg):
    if not cond:
        raise AnalysisError(msg)


# ------------------------------------------------------------ constant folding
SAFE_STR_METHODS = {"format", "partition", "rpartition", "split", "rsplit", "replace", "strip", "lstrip", "rstrip",
                    "lower", "upper", "join", "startswith", "endswith", "removeprefix", "removesuffix", "zfill"}
LOCATION_STANDIN = "/scratch/.xyz-f"


class ConstFold:
    """Fold string / tuple building *syntax* on representative literals.

    Unknown runtime quantities are replaced by stand-ins (``env`` for names,
    ``<x>.location`` -> a stand-in crop directory, pid / uuid calls -> fixed
    tokens).  Only pure string / tuple operations are applied; nothing from the
    repository is executed.  Anything else raises AnalysisError."""

    UNKNOWN = "@"

    def __init__(self, ctx, fi, env=None, lenient=False):
        self.ctx, self.fi, self.env = ctx, fi, dict(env or {})
        self._depth = 0
        self.lenient = lenient

    def ev(self, e):
        import os
        self._depth += 1
        if self._depth > 200:
            raise AnalysisError("constant folding too deep")
        try:
            if not self.lenient:
                return self._ev(e)
            try:
                return self._ev(e)
            except (AnalysisError, TypeError, ValueError, IndexError, KeyError):
                return self.UNKNOWN
        finally:
            self._depth -= 1

    def _ev(self, e):
        import os
        if isinstance(e, ast.Constant):
            return e.value
        if not isinstance(e, ast.Name) and self.env and norm(e) in self.env:
            return self.env[norm(e)]
        if isinstance(e, ast.Name):
            if e.id in self.env:
                return self.env[e.id]
            d = single_def(self.fi, e.id)
            if d is not None:
                return self.ev(d[1])
            # several definitions that all fold to the same constant (e.g. the crop's directory taken from the crop or from the
            # working directory of a worker started inside it)
            defs_ = [v for _, v in assignments_to(self.fi, e.id)]
            if len(defs_) > 1 and all(v is not None for v in defs_) and not getattr(self, "_multi", False):
                self._multi = True
                try:
                    vals_ = []
                    for v in defs_:
                        try:
                            vals_.append(self.ev(v))
                        except AnalysisError:
                            vals_.append(NotImplemented)
                finally:
                    self._multi = False
                if vals_ and all(isinstance(x, str) for x in vals_) and len(set(vals_)) == 1:
                    return vals_[0]
            # a, b, c = helper(...)  : component of a folded tuple
            for n in walk_shallow(self.fi.node):
                if isinstance(n, ast.Assign) and len(n.targets) == 1 and isinstance(n.targets[0], (ast.Tuple, ast.List)):
                    names = [norm(x) for x in n.targets[0].elts]
                    if e.id in names and names.count(e.id) == 1 and len(assignments_to(self.fi, e.id)) == 1:
                        v = self.ev(n.value)
                        if isinstance(v, tuple) and len(v) == len(names):
                            return v[names.index(e.id)]
            f = self.fi.parent
            while f is not None:
                d = single_def(f, e.id)
                if d is not None:
                    return ConstFold(self.ctx, f, self.env, self.lenient).ev(d[1])
                f = f.parent
            s = self.ctx.prog.fold_str(self.fi.module, e)
            if s is not None:
                return s
            r = self.ctx.prog.resolve_global(self.fi.module, e.id)
            if isinstance(r, tuple) and r[0] == "const" and isinstance(r[1].consts[r[2]], (ast.Tuple, ast.List, ast.Constant)):
                return self.ev(r[1].consts[r[2]])
            raise AnalysisError("cannot fold name %r in %s" % (e.id, self.fi.qualname))
        if isinstance(e, ast.BinOp) and isinstance(e.op, ast.Add):
            return self.ev(e.left) + self.ev(e.right)
        if isinstance(e, ast.BinOp) and isinstance(e.op, ast.Mod):
            r = self.ev(e.right)
            return self.ev(e.left) % (r if isinstance(r, tuple) else (r,))
        if isinstance(e, (ast.Tuple, ast.List)):
            return tuple(self.ev(x) for x in e.elts)
        if isinstance(e, ast.JoinedStr):
            out = ""
            for v in e.values:
                if isinstance(v, ast.Constant):
                    out += v.value
                else:
                    val = self.ev(v.value)
                    if v.conversion == ord("r"):
                        val = repr(val)
                    elif v.conversion == ord("s"):
                        val = str(val)
                    out += format(val, self.ev(v.format_spec) if v.format_spec else "")
            return out
        if isinstance(e, ast.Subscript):
            base = self.ev(e.value)
            idx = self.ev(e.slice) if not isinstance(e.slice, ast.Slice) else slice(
                self.ev(e.slice.lower) if e.slice.lower else None,
                self.ev(e.slice.upper) if e.slice.upper else None,
                self.ev(e.slice.step) if e.slice.step else None)
            if isinstance(base, list):
                base = tuple(base)
            if isinstance(base, (str, tuple)) and isinstance(idx, (int, slice)):
                return base[idx]
            raise AnalysisError("cannot fold subscript %s" % norm(e))
        if isinstance(e, ast.UnaryOp) and isinstance(e.op, ast.USub):
            v = self.ev(e.operand)
            if isinstance(v, (int, float)):
                return -v
        if isinstance(e, ast.BoolOp):
            vals = [self.ev(x) for x in e.values]
            if all(isinstance(v, (str, int, tuple)) or v is None for v in vals):
                if isinstance(e.op, ast.Or):
                    for v in vals:
                        if v:
                            return v
                    return vals[-1]
                for v in vals:
                    if not v:
                        return v
                return vals[-1]
        if isinstance(e, ast.Attribute):
            if e.attr == "location":
                return LOCATION_STANDIN
            if norm(e) in ("os.curdir", "os.path.curdir"):
                return "."
            if e.attr == "hex" and isinstance(e.value, ast.Call) and callee_name(self.ctx, self.fi, e.value) in ("uuid.uuid4", "uuid.uuid1"):
                return "0123456789abcdef0123456789abcdef"
            if e.attr == "name":
                v = self.env.get("<entry>")
                if v is not None and isinstance(e.value, ast.Name):
                    return v
            s = self.ctx.prog.fold_str(self.fi.module, e)
            if s is not None:
                return s
            raise AnalysisError("cannot fold attribute %s" % norm(e))
        if isinstance(e, ast.Call):
            nm = callee_name(self.ctx, self.fi, e)
            if nm in ("os.getpid", "threading.get_ident"):
                return 4242
            if nm == "os.getcwd" and self.fi.qualname.endswith(".grow") and self.fi.cls is None:
                # a worker started inside the crop's folder (grow(batch) without a crop object): the working directory *is* the crop's location
                return LOCATION_STANDIN
            if nm in ("uuid.uuid4", "uuid.uuid1"):
                return "01234567-89ab-cdef-0123-456789abcdef"
            if nm == "secrets.token_hex":
                return "a1b2c3d4"
            if nm == "builtins.str":
                return str(self.ev(e.args[0]))
            if nm == "glob.escape" and len(e.args) == 1:
                return self.ev(e.args[0])          # the stand-in location has no magic characters
            if nm == "os.path.join":
                return os.path.join(*[self.ev(a) for a in e.args])
            if nm == "os.path.dirname":
                return os.path.dirname(self.ev(e.args[0]))
            if nm == "os.path.basename":
                return os.path.basename(self.ev(e.args[0]))
            if nm == "tempfile.mkstemp":
                # (descriptor, path): dir / prefix + random part + suffix  (documented naming of mkstemp)
                kw = {k.arg: self.ev(k.value) for k in e.keywords if k.arg}
                pos = [self.ev(a) for a in e.args]
                suffix = kw.get("suffix", pos[0] if len(pos) > 0 else "") or ""
                prefix = kw.get("prefix", pos[1] if len(pos) > 1 else "tmp") or "tmp"
                d = kw.get("dir", pos[2] if len(pos) > 2 else None) or "/tmp"
                return (7, os.path.join(d, prefix + "k3j2h1g0" + suffix))
            if nm == "os.path.split":
                return os.path.split(self.ev(e.args[0]))
            if nm == "os.path.splitext":
                return os.path.splitext(self.ev(e.args[0]))
            if nm == "re.escape":
                import re
                return re.escape(self.ev(e.args[0]))
            if isinstance(e.func, ast.Attribute) and e.func.attr in SAFE_STR_METHODS:
                base = self.ev(e.func.value)
                if isinstance(base, str):
                    args = []
                    for a in e.args:
                        if isinstance(a, ast.Starred):
                            sv_ = self.ev(a.value)
                            if not isinstance(sv_, (tuple, list)):
                                raise AnalysisError("cannot fold *%s" % norm(a.value))
                            args.extend(sv_)
                        else:
                            args.append(self.ev(a))
                    kw = {k.arg: self.ev(k.value) for k in e.keywords}
                    return getattr(base, e.func.attr)(*args, **kw)
            # an in-repo helper that just builds and returns a string / tuple:
            # fold its return expression with the parameters bound
            callee = callee_func(self.ctx, self.fi, e)
            if callee is not None and self._depth < 40:
                rets = [r for r in walk_shallow(callee.node) if isinstance(r, ast.Return) and r.value is not None]
                if len(rets) == 1:
                    from .callgraph import bind_call
                    binding, problems, star = bind_call(e, callee)
                    env = {}
                    for p_, a_ in binding.items():
                        try:
                            env[p_] = self.ev(a_)
                        except AnalysisError:
                            if not self.lenient:
                                raise
                            env[p_] = self.UNKNOWN
                    for p_, d_ in callee.defaults().items():
                        if p_ not in env:
                            try:
                                env[p_] = ConstFold(self.ctx, callee, {}, self.lenient).ev(d_)
                            except AnalysisError:
                                pass
                    sub = ConstFold(self.ctx, callee, env, self.lenient)
                    sub._depth = self._depth + 1
                    return sub.ev(rets[0].value)
            raise AnalysisError("cannot fold call %s" % norm(e))
        raise AnalysisError("cannot fold %s" % norm(e))


def call_site_envs(ctx, fi):
    """For a helper / nested function whose parameters feed a folded
    expression: one env (param -> folded actual) per resolved call site.
    Functions without parameters (besides self) get a single empty env."""
    params = [p for p in fi.params if p not in ("self", "cls")]
    if not params:
        return [({}, None)]
    envs = []
    from .callgraph import bind_call
    for caller, call in ctx.res.callers_of(fi, within=list(fi.module.all_funcs)):
        binding, problems, star = bind_call(call, fi)
        env = {}
        for p, a in binding.items():
            try:
                env[p] = ConstFold(ctx, caller).ev(a)
            except AnalysisError:
                pass
        envs.append((env, call))
    return envs


def is_memoised(fi):
    """the function's value is computed once and reused (functools.lru_cache /
    cache / cached_property or a hand-made module-level memo decorator name)"""
    for d in getattr(fi.node, "decorator_list", []):
        t = norm(d.func if isinstance(d, ast.Call) else d)
        if t.rsplit(".", 1)[-1] in ("lru_cache", "cache", "cached_property", "memoize", "memoise", "cached"):
            return True
    return False


def calls_transitive(ctx, fi, expr, depth=0, seen=None, skip_memoised=False):
    """callee names of every call in expr, descending into the single return
    expression of resolved in-repo helpers.  With skip_memoised the body of a
    memoised helper is not entered (its value is not recomputed per call)."""
    seen = seen if seen is not None else set()
    out = []
    # local names of the expression are followed to what they were assigned (a value gathered in a local first, or a tuple of parts)
    for nm_ in [x for x in ast.walk(expr) if isinstance(x, ast.Name) and isinstance(x.ctx, ast.Load)]:
        key_ = ("name", fi.qualname, nm_.id)
        if key_ in seen or nm_.id in fi.params:
            continue
        seen.add(key_)
        for st_ in ast.walk(fi.node):
            if isinstance(st_, ast.Assign) and any(isinstance(t_, ast.Name) and t_.id == nm_.id for tg_ in st_.targets for t_ in ([tg_] if isinstance(tg_, ast.Name) else tg_.elts if isinstance(tg_, (ast.Tuple, ast.List)) else [])):
                out += calls_transitive(ctx, fi, st_.value, depth, seen, skip_memoised)
    for c in ast.walk(expr):
        if isinstance(c, ast.Call):
            out.append(callee_name(ctx, fi, c))
            cf = callee_func(ctx, fi, c)
            if cf is not None and skip_memoised and is_memoised(cf):
                continue
            if cf is not None and cf.qualname not in seen and depth < 5:
                seen.add(cf.qualname)
                for r in walk_shallow(cf.node):
                    if isinstance(r, ast.Return) and r.value is not None:
                        out += calls_transitive(ctx, cf, r.value, depth + 1, seen, skip_memoised)
                    elif isinstance(r, ast.Assign):
                        out += calls_transitive(ctx, cf, r.value, depth + 1, seen, skip_memoised)
    return out


class IntEval:
    """Exhaustive evaluation of a small pure integer / boolean function body
    on concrete values of its symbols (finite window), by interpreting the
    syntax tree: Assign, AugAssign, If, Return, Expr, Raise.  Anything else is
    an AnalysisError.  ``symbols`` maps access-path text -> int.  Returns
    ('return', value) | ('raise', None) | ('fall', None)."""

    def __init__(self, symbols, on_call=None):
        self.sym = symbols
        self.on_call = on_call

    def ev(self, e, st):
        if isinstance(e, ast.Constant):
            return e.value
        k = norm(e)
        if k in st:
            return st[k]
        if k in self.sym:
            return self.sym[k]
        if isinstance(e, ast.Name):
            raise AnalysisError("IntEval: unknown name %s" % e.id)
        if isinstance(e, ast.UnaryOp):
            v = self.ev(e.operand, st)
            return (not v) if isinstance(e.op, ast.Not) else (-v if isinstance(e.op, ast.USub) else v)
        if isinstance(e, ast.BinOp):
            a, b = self.ev(e.left, st), self.ev(e.right, st)
            t = type(e.op)
            if t is ast.Add: return a + b
            if t is ast.Sub: return a - b
            if t is ast.Mult: return a * b
            if t is ast.FloorDiv: return a // b
            if t is ast.Div: return a / b
            if t is ast.Mod: return a % b
            raise AnalysisError("IntEval: operator in %s" % k)
        if isinstance(e, ast.BoolOp):
            if isinstance(e.op, ast.And):
                v = True
                for x in e.values:
                    v = self.ev(x, st)
                    if not v:
                        return v
                return v
            v = False
            for x in e.values:
                v = self.ev(x, st)
                if v:
                    return v
            return v
        if isinstance(e, ast.Compare):
            left = self.ev(e.left, st)
            for op, c in zip(e.ops, e.comparators):
                right = self.ev(c, st)
                t = type(op)
                ok = {ast.Lt: lambda a, b: a < b, ast.LtE: lambda a, b: a <= b, ast.Gt: lambda a, b: a > b, ast.GtE: lambda a, b: a >= b,
                      ast.Eq: lambda a, b: a == b, ast.NotEq: lambda a, b: a != b, ast.Is: lambda a, b: a is b, ast.IsNot: lambda a, b: a is not b,
                      ast.In: lambda a, b: a in b, ast.NotIn: lambda a, b: a not in b}.get(t)
                if ok is None:
                    raise AnalysisError("IntEval: comparison in %s" % k)
                if not ok(left, right):
                    return False
                left = right
            return True
        if isinstance(e, ast.IfExp):
            return self.ev(e.body, st) if self.ev(e.test, st) else self.ev(e.orelse, st)
        if isinstance(e, ast.Call):
            if self.on_call is not None:
                r = self.on_call(e, self, st)
                if r is not NotImplemented:
                    return r
            if isinstance(e.func, ast.Name) and e.func.id in ("bool", "int", "abs", "min", "max", "any", "all", "len", "str", "tuple", "list", "sorted", "range", "sum", "divmod", "round") and not e.keywords:
                return {"bool": bool, "int": int, "abs": abs, "min": min, "max": max, "any": any, "all": all, "len": len, "str": str, "tuple": tuple, "list": list, "sorted": sorted,
                        "range": range, "sum": sum, "divmod": divmod, "round": round}[e.func.id](*[self.ev(a, st) for a in e.args])
            if isinstance(e.func, ast.Attribute) and not e.keywords:
                recv = self.ev(e.func.value, st)
                args = [self.ev(a, st) for a in e.args]
                if isinstance(recv, dict) and e.func.attr in ("values", "keys", "items", "get"):
                    r_ = getattr(recv, e.func.attr)(*args)
                    return r_ if e.func.attr == "get" else list(r_)
                if isinstance(recv, str) and e.func.attr in SAFE_STR_METHODS:
                    return getattr(recv, e.func.attr)(*args)
            raise AnalysisError("IntEval: call %s" % k)
        if isinstance(e, ast.Tuple):
            return tuple(self.ev(x, st) for x in e.elts)
        if isinstance(e, ast.List):
            return [self.ev(x, st) for x in e.elts]
        if isinstance(e, ast.Set):
            return frozenset(self.ev(x, st) for x in e.elts)
        if isinstance(e, ast.Subscript) and isinstance(e.slice, ast.Slice):
            base = self.ev(e.value, st)
            if isinstance(base, (tuple, list, str, range)):
                lo = self.ev(e.slice.lower, st) if e.slice.lower is not None else None
                hi = self.ev(e.slice.upper, st) if e.slice.upper is not None else None
                sp_ = self.ev(e.slice.step, st) if e.slice.step is not None else None
                return base[lo:hi:sp_]
        if isinstance(e, ast.Subscript) and not isinstance(e.slice, ast.Slice):
            base, idx = self.ev(e.value, st), self.ev(e.slice, st)
            if isinstance(base, (tuple, list, str, range)) and isinstance(idx, int) and not isinstance(idx, bool):
                return base[idx]      # IndexError propagates to the caller
            if isinstance(base, dict):
                return base[idx]      # KeyError propagates
        if isinstance(e, (ast.GeneratorExp, ast.ListComp)) and len(e.generators) == 1 and isinstance(e.generators[0].target, ast.Name):
            out = []
            gen = e.generators[0]
            for item in self.ev(gen.iter, st):
                st2 = dict(st)
                st2[gen.target.id] = item
                if all(self.ev(c_, st2) for c_ in gen.ifs):
                    out.append(self.ev(e.elt, st2))
            return out
        raise AnalysisError("IntEval: expression %s" % k)

    def run(self, stmts, st=None):
        st = dict(st or {})
        for s in stmts:
            if isinstance(s, ast.Expr):
                if isinstance(s.value, ast.Constant):
                    continue
                if isinstance(s.value, ast.Call):
                    r_ = self.on_call(s.value, self, st) if self.on_call is not None else NotImplemented
                    fnm = norm(s.value.func)
                    if r_ is NotImplemented and not (fnm in ("print", "warnings.warn") or fnm.rsplit(".", 1)[-1] in ("warn", "debug", "info", "warning", "set_description")):
                        # a call made for its effect that the interpreter does not model: the state afterwards is unknown
                        raise AnalysisError("IntEval: call statement %s" % norm(s.value)[:60])
                    continue
                continue
            if isinstance(s, ast.Assign) and len(s.targets) == 1:
                v = self.ev(s.value, st)
                t = s.targets[0]
                if isinstance(t, (ast.Tuple, ast.List)):
                    for tt, vv in zip(t.elts, v):
                        st[norm(tt)] = vv
                else:
                    st[norm(t)] = v
                continue
            if isinstance(s, ast.AugAssign):
                cur, v = self.ev(s.target, st), self.ev(s.value, st)
                st[norm(s.target)] = cur + v if isinstance(s.op, ast.Add) else cur - v if isinstance(s.op, ast.Sub) else None
                continue
            if isinstance(s, ast.If):
                r = self.run(s.body if self.ev(s.test, st) else s.orelse, st)
                if r[0] != "fall":
                    return r
                st = r[1]
                continue
            if isinstance(s, ast.Return):
                self._last_state = dict(st)
                return ("return", self.ev(s.value, st) if s.value is not None else None)
            if isinstance(s, ast.For) and isinstance(s.target, ast.Name) and not s.orelse:
                done = None
                for item in self.ev(s.iter, st):
                    st[s.target.id] = item
                    r = self.run(s.body, st)
                    if r[0] == "break":
                        break
                    if r[0] == "continue":
                        st = r[1]
                        continue
                    if r[0] != "fall":
                        done = r
                        break
                    st = r[1]
                if done is not None:
                    return done
                continue
            if isinstance(s, ast.Break):
                return ("break", st)
            if isinstance(s, ast.Continue):
                return ("continue", st)
            if isinstance(s, ast.Raise):
                return ("raise", None)
            if isinstance(s, ast.Pass):
                continue
            raise AnalysisError("IntEval: statement %s" % norm(s)[:50])
        return ("fall", st)


def sym_expand(ctx, fi, expr, env=None, stop=(), depth=0, subst=None):
    """Expression `expr` (in function `fi`) rewritten to a normal form in
    which (a) a local name with exactly one definition among the statements
    feasible under the valuation `env` is replaced by that definition,
    (b) a conditional expression whose test is an identity test against None
    of a quantity fixed by `env` is replaced by the selected arm, and (c) a
    call of a method of the same class with a single feasible `return` is
    replaced by the returned expression with actuals substituted.  Returns
    the normalised source text.  Names in `stop` are kept."""
    from .flow import Flow, NONE, NOTNONE
    env = dict(env or {})
    subst = dict(subst or {})
    if depth > 4:
        raise AnalysisError("sym_expand: nesting too deep in %s" % fi.qualname)
    g = build_cfg(fi.node)
    fl = Flow(g, env).run()
    visited = fl.visited
    defs = {}
    for n in g.nodes:
        if n.id in visited and n.kind == "stmt" and isinstance(n.ast, ast.Assign) and len(n.ast.targets) == 1 and isinstance(n.ast.targets[0], ast.Name):
            defs.setdefault(n.ast.targets[0].id, []).append(n.ast.value)
        elif n.id in visited and n.kind == "stmt" and isinstance(n.ast, (ast.AugAssign, ast.For)):
            for t in ast.walk(n.ast.target):
                if isinstance(t, ast.Name):
                    defs.setdefault(t.id, []).append(None)
        elif n.id in visited and n.kind == "for":
            for t in ast.walk(n.ast.target):
                if isinstance(t, ast.Name):
                    defs.setdefault(t.id, []).append(None)

    def decide(test):
        if isinstance(test, ast.Compare) and len(test.ops) == 1 and isinstance(test.ops[0], (ast.Is, ast.IsNot)) and norm(test.comparators[0]) == "None":
            v = env.get(norm(test.left))
            if v in (NONE, NOTNONE):
                r = (v == NONE)
                return r if isinstance(test.ops[0], ast.Is) else not r
        return None

    active = set()

    def ex(e):
        if isinstance(e, ast.Name) and isinstance(e.ctx, ast.Load):
            if e.id in subst:
                return subst[e.id]
            if e.id in stop or e.id in active:
                return e
            d = defs.get(e.id)
            if d and len(d) == 1 and d[0] is not None:
                active.add(e.id)
                try:
                    return ex(d[0])
                finally:
                    active.discard(e.id)
            return e
        if isinstance(e, ast.IfExp):
            r = decide(e.test)
            if r is True:
                return ex(e.body)
            if r is False:
                return ex(e.orelse)
        if isinstance(e, ast.Call) and isinstance(e.func, ast.Attribute) and isinstance(e.func.value, ast.Name) and e.func.value.id == "self" and fi.cls is not None:
            m = fi.cls.methods.get(e.func.attr)
            if m is not None and not any(isinstance(a, ast.Starred) for a in e.args) and not any(k.arg is None for k in e.keywords):
                mg = build_cfg(m.node)
                mfl = Flow(mg, {k: v for k, v in env.items() if k.startswith("self.")}).run()
                rets = [n for n in mg.nodes if n.id in mfl.visited and n.kind == "stmt" and isinstance(n.ast, ast.Return) and n.ast.value is not None]
                if len(rets) == 1:
                    params = [p for p in m.positional if p != "self"]
                    sub = {}
                    for p, a in zip(params, e.args):
                        sub[p] = ex(a)
                    for k in e.keywords:
                        sub[k.arg] = ex(k.value)
                    ctx.touch(m)
                    return ast.parse(sym_expand(ctx, m, rets[0].ast.value, {k: v for k, v in env.items() if k.startswith("self.")}, stop, depth + 1, sub), mode="eval").body
        if isinstance(e, (ast.expr_context, ast.operator, ast.unaryop, ast.boolop, ast.cmpop)):
            return e
        kw = {}
        for field, val in ast.iter_fields(e):
            if isinstance(val, ast.AST):
                kw[field] = ex(val)
            elif isinstance(val, list):
                kw[field] = [ex(x) if isinstance(x, ast.AST) else x for x in val]
            else:
                kw[field] = val
        return type(e)(**kw)

    return norm(ex(expr))


def store_polarity(fi, param, target, cfg=None):
    """Under which None-ness of parameter `param` is `target` (a name or self.attr path) assigned in fi?
    -> (stored_when_none, stored_when_given) as booleans (a store that is reachable on the path counts)."""
    from .flow import Flow, NONE, NOTNONE, path_key
    g = cfg or build_cfg(fi.node)
    out = []
    for v in (NONE, NOTNONE):
        fl = Flow(g, {param: v}).run()
        hit = False
        for n in g.nodes:
            if n.id in fl.visited and n.kind == "stmt" and isinstance(n.ast, ast.Assign):
                for t in n.ast.targets:
                    for tt in (t.elts if isinstance(t, (ast.Tuple, ast.List)) else [t]):
                        if path_key(tt) == target:
                            hit = True
        out.append(hit)
    return tuple(out)



def role_rename(f, discovered, role):
    """Give the local that plays `role` its canonical name in the analysis' own copy of the tree (texts are then compared
    against canonical names); a clash with another use of the canonical name is an AnalysisError."""
    if discovered == role:
        return
    for x in ast.walk(f.node):
        if isinstance(x, ast.Name) and x.id == role:
            raise AnalysisError("idiom changed: `%s` names something else than the %s in %s" % (role, role, f.name))
    for x in ast.walk(f.node):
        if isinstance(x, ast.Name) and x.id == discovered:
            x.id = role


def inline_setter_calls(ctx, fi):
    """In the analysis' own tree of `fi`: a statement `self.m()` -- m a method of the same class with no parameter but
    self whose body is a straight line of plain stores / augmented stores (no control flow, no return value, no call
    statement) -- is replaced by copies of that body.  Behaviour preserving by construction; lets state-machine rules
    see stores that a class has gathered in a `_reset()`-like helper.  Returns the number of statements replaced."""
    from . import cfg as _cfgmod
    if fi.cls is None:
        return 0
    count = 0

    def simple_body(m):
        body = [b for b in m.node.body if not (isinstance(b, ast.Expr) and isinstance(b.value, ast.Constant))]
        if not body or not all(isinstance(b, (ast.Assign, ast.AugAssign, ast.AnnAssign)) for b in body):
            return None
        for b in body:
            tg = b.targets if isinstance(b, ast.Assign) else [b.target]
            if not all(isinstance(t, ast.Attribute) and isinstance(t.value, ast.Name) and t.value.id == "self" for t in tg):
                return None
            if any(isinstance(x, (ast.Call, ast.Yield, ast.Await, ast.NamedExpr)) for x in ast.walk(b.value if b.value is not None else ast.Constant(None))) and \
                    not all(isinstance(x.func, ast.Name) and x.func.id in ("list", "dict", "set", "tuple") and not x.args for x in ast.walk(b.value) if isinstance(x, ast.Call)):
                return None
        return body

    def rewrite(stmts, parent):
        nonlocal count
        out = []
        for st in stmts:
            c = st.value if isinstance(st, ast.Expr) else None
            if isinstance(c, ast.Call) and isinstance(c.func, ast.Attribute) and isinstance(c.func.value, ast.Name) and c.func.value.id == "self" and not c.args and not c.keywords:
                m = fi.cls.find_method(c.func.attr)
                if m is not None and hasattr(m, "node") and m is not fi and [p for p in m.params] == ["self"]:
                    body = simple_body(m)
                    if body is not None:
                        ctx.touch(m)
                        for b in body:
                            nb = ast.parse(ast.unparse(b)).body[0]
                            for x in ast.walk(nb):
                                x.lineno, x.col_offset, x.end_lineno, x.end_col_offset = st.lineno, st.col_offset, st.end_lineno, st.end_col_offset
                            for x in ast.walk(nb):
                                for ch in ast.iter_child_nodes(x):
                                    ch._parent = x
                            nb._parent = parent
                            out.append(nb)
                        count += 1
                        continue
            for fld in ("body", "orelse", "finalbody"):
                blk = getattr(st, fld, None)
                if isinstance(blk, list) and blk and isinstance(blk[0], ast.stmt) and not isinstance(st, (ast.FunctionDef, ast.ClassDef, ast.AsyncFunctionDef)):
                    setattr(st, fld, rewrite(blk, st))
            if isinstance(st, ast.Try):
                for h in st.handlers:
                    h.body = rewrite(h.body, h)
            out.append(st)
        return out
    fi.node.body = rewrite(fi.node.body, fi.node)
    if count:
        _cfgmod._CACHE.pop(id(fi.node), None)
    return count
