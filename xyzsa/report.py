"""L6: findings, known-findings matching, evidence files, exit codes."""
import json
import os
import time

VERIF = os.path.dirname(os.path.dirname(os.path.abspath(__file__)))
EVIDENCE_DIR = os.path.join(VERIF, "evidence")
FINDINGS_DIR = os.path.join(EVIDENCE_DIR, "findings")
KNOWN = os.path.join(VERIF, "known_findings.jsonl")


class Finding:
    def __init__(self, prop, rule, key, file, line, func, message, path=None):
        self.prop = prop
        self.rule = rule
        self.key = key            # rule id + function + normalised construct text
        self.file = file
        self.line = line
        self.func = func
        self.message = message
        self.path = path          # configuration / path description

    def as_dict(self):
        return {"property": self.prop, "rule": self.rule, "key": self.key,
                "file": self.file, "line": self.line, "function": self.func,
                "message": self.message, "path": self.path}

    def __repr__(self):
        return "%s %s:%s %s: %s" % (self.rule, self.file, self.line, self.func, self.message)


class RuleResult:
    """What one rule did: how many instances it examined (vacuity floor),
    the obligations it evaluated, and its findings."""

    def __init__(self, rule, title, floor=1):
        self.rule = rule
        self.title = title
        self.floor = floor
        self.instances = 0
        self.obligations = []   # short strings: what was checked, verdict
        self.findings = []
        self.notes = []
        self.nontrivial = set()

    def ok(self, what, nontrivial_key=None):
        self.instances += 1
        self.obligations.append("ok: " + what)
        self.nontrivial.add(nontrivial_key or what)

    def bad(self, finding, what=None):
        self.instances += 1
        self.findings.append(finding)
        self.obligations.append("VIOLATED: " + (what or finding.message))
        self.nontrivial.add(what or finding.message)

    def note(self, s):
        self.notes.append(s)


class Context:
    """Passed to every rule: program, resolver, tier, helper to make findings."""

    def __init__(self, prop, prog, resolver, tier, repo):
        self.prop = prop
        self.prog = prog
        self.res = resolver
        self.tier = tier
        self.repo = repo
        self.results = []
        self.analysed_funcs = set()
        self.cfg_nodes = 0
        self.extra = {}

    def rule(self, rid, title, floor=1):
        r = RuleResult(rid, title, floor)
        self.results.append(r)
        return r

    def finding(self, rule, fi, node, message, construct=None, path=None):
        from .loader import norm
        ln = getattr(node, "lineno", None)
        if ln is None and node is not None:
            ln = getattr(getattr(node, "context_expr", None), "lineno", 0)
        text = construct if construct is not None else (norm(node) if node is not None else "")
        text = " ".join(text.split())
        if len(text) > 200:
            text = text[:200]
        qn = fi.qualname if fi is not None else "<module>"
        key = "%s|%s|%s" % (rule, qn, text)
        return Finding(self.prop, rule, key, fi.file if fi is not None else "", ln or 0, qn, message, path)

    def touch(self, fi, cfg=None):
        self.analysed_funcs.add(fi.qualname)
        if cfg is not None:
            self.cfg_nodes += len(cfg.nodes)


def load_known():
    out = []
    if os.path.exists(KNOWN):
        with open(KNOWN) as f:
            for line in f:
                line = line.strip()
                if line and not line.startswith("#"):
                    out.append(json.loads(line))
    return out


def write_evidence(prop, tier, seed, ctx, wall, violations, level, extra_cov, assumptions, not_decided, explanation, evidence_path=None):
    cov = {
        "explanation": explanation,
        "units_parsed": len(ctx.prog.units),
        "functions_analysed": sorted(ctx.analysed_funcs),
        "cfg_nodes": ctx.cfg_nodes,
        "rules": [{"rule": r.rule, "title": r.title, "instances": r.instances,
                   "floor": r.floor, "findings": len(r.findings), "notes": r.notes}
                  for r in ctx.results],
        "evaluations": sum(r.instances for r in ctx.results),
        "distinct_nontrivial": len(set().union(*[r.nontrivial for r in ctx.results]) if ctx.results else set()),
        "rule": "one evaluation = one rule instance (call site, path obligation, configuration, table row) examined on the current tree; distinct = distinct obligation texts",
        "samples": [o for r in ctx.results for o in r.obligations[:6]][:60],
        "not_decided": not_decided,
    }
    cov.update(extra_cov or {})
    ev = {"property_id": prop, "tier": tier, "seed": seed, "level": level,
          "coverage": cov, "assumptions": assumptions, "wall_s": round(wall, 3),
          "violations": violations}
    path = evidence_path or os.path.join(EVIDENCE_DIR, prop + ".json")
    os.makedirs(os.path.dirname(path), exist_ok=True)
    tmp = path + ".tmp%d" % os.getpid()
    with open(tmp, "w") as f:
        json.dump(ev, f, indent=1, sort_keys=True)
    os.replace(tmp, path)
    return path


def write_finding(prop, n, finding):
    os.makedirs(FINDINGS_DIR, exist_ok=True)
    path = os.path.join(FINDINGS_DIR, "%s-%d.json" % (prop, n))
    with open(path, "w") as f:
        json.dump(finding.as_dict(), f, indent=1, sort_keys=True)
    return path
