"""Thorough tier: checker self-validation.

For the property under check, every committed seeded change / reverse fix that
this property's rules are recorded to catch (selftest_expect.json, produced by
tools/matrix.py from an actual run) is applied to a scratch copy of the
*current* repository tree; the check must report a violation on it.  Every
committed behaviour-preserving twin must leave the check silent.  Outcomes go
into the evidence file under coverage.selftest; they never produce a VIOLATION
line (they are about the checker, not the tree).  A control that no longer
fires is ANALYSIS-ERROR (exit 2).  A patch that no longer applies to the
current tree is skipped and listed.
"""
import glob
import json
import os
import shutil
import subprocess
import sys
import tempfile
from concurrent.futures import ProcessPoolExecutor

VERIF = os.path.dirname(os.path.dirname(os.path.abspath(__file__)))


def _one(args):
    prop, label, patch, repo, base_keys = args
    from .cli import run_property
    tmp = tempfile.mkdtemp(prefix="xyzsa-st-")
    try:
        shutil.copytree(os.path.join(repo, "xyzpy"), os.path.join(tmp, "xyzpy"))
        shutil.copy(os.path.join(repo, "setup.py"), tmp)
        r = subprocess.run(["git", "apply", "--unsafe-paths", "--directory=" + tmp, patch], capture_output=True, text=True, cwd="/")
        if r.returncode:
            # same fallback as tools/matrix.py: a hunk whose context moved by a few lines still applies with patch(1)
            r = subprocess.run(["patch", "-p1", "-s", "-i", patch], cwd=tmp, capture_output=True, text=True)
            if r.returncode:
                return label, "skipped (patch does not apply to the current tree)", []
        code, new, ctx, lines = run_property(prop, "quick", tmp, write=False, quiet=True)
        fresh = [f for f in new if f.key not in base_keys]
        if code == 1 and not fresh:
            code = 0          # nothing beyond what the tree under check reports itself
        return label, {0: "silent", 1: "reported", 2: "analysis-error"}[code], sorted({f.rule for f in fresh})
    finally:
        shutil.rmtree(tmp, ignore_errors=True)


def run(prop, repo, evidence_path=None, base_keys=frozenset()):
    exp_path = os.path.join(VERIF, "selftest_expect.json")
    expect = json.load(open(exp_path)) if os.path.exists(exp_path) else {}
    jobs = []
    for label, props in sorted(expect.get("mutants", {}).items()):
        if prop in props:
            p = os.path.join(VERIF, "seeded", label, "patch.diff")
            if not os.path.exists(p):
                p = os.path.join(VERIF, "regress", label + ".diff")
            if not os.path.exists(p):
                p = os.path.join(VERIF, "controls", label + ".diff")
            jobs.append((prop, label, p, repo, base_keys))
    twins = []
    for d in sorted(glob.glob(os.path.join(VERIF, "twins", "*", "patch.diff"))):
        twins.append((prop, os.path.basename(os.path.dirname(d)), d, repo, base_keys))
    seed = int(os.environ.get("VERIF_SEED", "0") or 0)
    import random
    random.Random(seed).shuffle(jobs)
    res_m, res_t = {}, {}
    with ProcessPoolExecutor(max_workers=min(16, max(1, len(jobs) + len(twins)))) as ex:
        for label, outcome, rules in ex.map(_one, jobs):
            res_m[label] = (outcome, rules)
        for label, outcome, rules in ex.map(_one, twins):
            res_t[label] = (outcome, rules)
    killed = [l for l, (o, _) in res_m.items() if o == "reported"]
    skipped = [l for l, (o, _) in res_m.items() if o.startswith("skipped")]
    lost = [l for l, (o, _) in res_m.items() if o in ("silent", "analysis-error")]
    noisy = [l for l, (o, _) in res_t.items() if o == "reported"]
    t_err = [l for l, (o, _) in res_t.items() if o == "analysis-error"]
    t_ok = [l for l, (o, _) in res_t.items() if o == "silent"]
    print("selftest %s: controls reported %d/%d (skipped %d), twins silent %d/%d (analysis-error %d)" % (
        prop, len(killed), len(res_m) - len(skipped), len(skipped), len(t_ok), len(res_t), len(t_err)))
    path = evidence_path or os.path.join(VERIF, "evidence", prop + ".json")
    try:
        ev = json.load(open(path))
        ev["coverage"]["selftest"] = {
            "controls": {l: {"outcome": o, "rules": r} for l, (o, r) in sorted(res_m.items())},
            "controls_reported": len(killed), "controls_total": len(res_m) - len(skipped), "controls_skipped": skipped,
            "twins": {l: o for l, (o, r) in sorted(res_t.items())},
            "twins_silent": len(t_ok), "twins_total": len(res_t), "twins_analysis_error": t_err,
        }
        with open(path, "w") as f:
            json.dump(ev, f, indent=1, sort_keys=True)
    except Exception as e:  # pragma: no cover
        print("selftest: could not extend the evidence file: %r" % e)
    code = 0
    for l in lost:
        print("ANALYSIS-ERROR property=%s selftest: control %s is no longer reported (%s): the check lost detection power" % (prop, l, res_m[l][0]))
        code = 2
    for l in noisy:
        print("ANALYSIS-ERROR property=%s selftest: behaviour-preserving twin %s is reported %s: false alarm in the checker" % (prop, l, res_t[l][1]))
        code = 2
    return code
