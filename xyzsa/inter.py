"""Interprocedural layer over Flow: callee summaries per abstract valuation.

``Inter.flow(fi, valuation)`` runs the truthiness-partitioned dataflow on one
function; calls to resolved in-repo functions are summarised by running the
callee under the abstract values of the actuals (memoised), which yields
 * the join of the callee's return values (tuples component-wise), and
 * the set of primitive *events* (e.g. DELETE_CROP) that may occur in it.
Events are attached to the calling CFG node, so path rules of the caller see a
call that may delete the crop as a delete event.
"""
import ast

from .flow import (Flow, Env, TOP, NONE, TRUE, FALSE, TRUTHY, FALSY, NOTNONE, const, is_const, truth, join_val, BOT)
from .cfg import build_cfg, node_calls
from .callgraph import bind_call
from .loader import FuncInfo, ClassInfo, Partial, norm, AnalysisError
from .util import callee_name


def join_any(a, b):
    if a == b:
        return a
    if isinstance(a, tuple) and isinstance(b, tuple) and a and b and a[0] == "tuple" and b[0] == "tuple" and len(a[1]) == len(b[1]):
        return ("tuple", tuple(join_any(x, y) for x, y in zip(a[1], b[1])))
    if isinstance(a, tuple) and isinstance(b, tuple) and a and b and a[0] == "dictlit" and b[0] == "dictlit":
        # keys present on one side only become "maybe" entries: the callee then
        # sees the join of the value and its own default
        da, db = dict(a[1]), dict(b[1])
        out = []
        for k in list(da) + [k for k in db if k not in da]:
            if k in da and k in db:
                va, vb = da[k], db[k]
                ma = isinstance(va, tuple) and va and va[0] == "maybe"
                mb = isinstance(vb, tuple) and vb and vb[0] == "maybe"
                j = join_any(va[1] if ma else va, vb[1] if mb else vb)
                out.append((k, ("maybe", j) if (ma or mb) else j))
            else:
                v = da.get(k, db.get(k))
                out.append((k, v if (isinstance(v, tuple) and v and v[0] == "maybe") else ("maybe", v)))
        return ("dictlit", tuple(out))
    return join_val(a, b)


class InterFlow(Flow):
    join = staticmethod(join_any)

    def __init__(self, inter, fi, init):
        super().__init__(build_cfg(fi.node), init)
        self.inter = inter
        self.fi = fi
        self.node_events = {}     # node id -> set of event kinds
        self.call_vals = {}       # id(call) -> (callee FuncInfo, valuation dict)
        self.returns = BOT
        self._cur = None

    def transfer(self, node, env):
        self._cur = node
        return super().transfer(node, env)

    def edge(self, node, label, env):
        self._cur = node
        return super().edge(node, label, env)

    def on_return(self, s, v, env):
        self.returns = self.join(self.returns, v)

    def eval_name(self, e, env):
        if e.id in env:
            return env[e.id]
        r = self.inter.ctx.res.resolve_name(self.fi, e.id)
        if isinstance(r, tuple) and r[0] in ("const", "modvar"):
            # a module-level object: identity is the global's name
            return ("obj", "g", e.id)
        return TOP

    def _add_events(self, kinds):
        if kinds and self._cur is not None:
            self.node_events.setdefault(self._cur.id, set()).update(kinds)

    def eval_other(self, e, env):
        if isinstance(e, ast.Tuple) and not any(isinstance(x, ast.Starred) for x in e.elts):
            return ("tuple", tuple(self.eval(x, env) for x in e.elts))
        if isinstance(e, ast.Dict) and e.keys and all(isinstance(k, ast.Constant) and isinstance(k.value, str) for k in e.keys):
            return ("dictlit", tuple((k.value, self.eval(v, env)) for k, v in zip(e.keys, e.values)))
        return super().eval_other(e, env)

    def store_subscript(self, target, v, env):
        from .flow import path_key
        b = path_key(target.value)
        if b is not None and isinstance(target.slice, ast.Constant) and isinstance(target.slice.value, str):
            cur = env.get(b)
            if isinstance(cur, tuple) and cur and cur[0] == "dictlit":
                d = dict(cur[1])
                d[target.slice.value] = v
                env[b] = ("dictlit", tuple(d.items()))

    def unpack(self, v, n, value_expr, env):
        if isinstance(v, tuple) and v and v[0] == "tuple" and len(v[1]) == n:
            return list(v[1])
        return super().unpack(v, n, value_expr, env)

    def eval_call(self, e, env):
        inter = self.inter
        name = callee_name(inter.ctx, self.fi, e)
        prim = inter.primitive(self.fi, e, name)
        if prim:
            self._add_events(prim)
        # evaluate arguments (side effects of nested calls)
        argvals = {}
        for a in e.args:
            self.eval(a.value if isinstance(a, ast.Starred) else a, env)
        for k in e.keywords:
            self.eval(k.value, env)
        hv = inter.call_hook(self, e, name, env)
        if hv is not None:
            return hv
        callee = inter.resolve(self.fi, e)
        if callee is None:
            if isinstance(inter.ctx.res.resolve_expr(self.fi, e.func), ClassInfo):
                return NOTNONE    # a constructor call yields an object
            return TOP
        binding, problems, star = bind_call(e, callee, *inter.partial_info(self.fi, e))
        val = {}
        for p in callee.params:
            if p in binding:
                v = self.eval(binding[p], env)
            elif p in callee.defaults():
                v = Flow(self.cfg).eval(callee.defaults()[p], Env())
                if star:
                    v = TOP   # may be supplied through ** pass-through
            else:
                v = TOP
            if inter.track is None or p in inter.track:
                if v != TOP:
                    val[p] = v
        # **opts with literal dict built locally: dict(clean_up=..., ...)
        if star:
            for k in e.keywords:
                if k.arg is None:
                    extra = inter.splat_values(self, k.value, env)
                    for p, v in extra.items():
                        if p in callee.params and (inter.track is None or p in inter.track):
                            if isinstance(v, tuple) and v and v[0] == "maybe":
                                d = callee.defaults().get(p)
                                v = join_any(v[1], Flow(self.cfg).eval(d, Env())) if d is not None else TOP
                            if v != TOP:
                                val[p] = v
                            else:
                                val.pop(p, None)
        events, ret = inter.summary(callee, val)
        self.call_vals[id(e)] = (callee, val)
        self._add_events(events)
        return ret


class Inter:
    def __init__(self, ctx, primitive=None, track=None, max_depth=12):
        self.ctx = ctx
        self._prim = primitive or (lambda fi, call, name: ())
        self.track = set(track) if track is not None else None
        self.memo = {}
        self.stack = []
        self.max_depth = max_depth

    # hooks -----------------------------------------------------------------
    def primitive(self, fi, call, name):
        return self._prim(fi, call, name)

    def call_hook(self, flow, call, name, env):
        """Return an abstract value to short-circuit a call, else None."""
        if name == "builtins.dict" and not call.args:
            return ("dictlit", tuple((k.arg, flow.eval(k.value, env)) for k in call.keywords if k.arg))
        if name == "builtins.isinstance":
            return TOP
        return None

    def splat_values(self, flow, expr, env):
        v = flow.eval(expr, env)
        if isinstance(v, tuple) and v and v[0] == "dictlit":
            return dict(v[1])
        return {}

    def resolve(self, fi, call):
        r = self.ctx.res.resolve_expr(fi, call.func)
        if isinstance(r, FuncInfo):
            return r
        if isinstance(r, Partial):
            return r.func
        if isinstance(r, ClassInfo):
            return None
        return None

    def partial_info(self, fi, call):
        r = self.ctx.res.resolve_expr(fi, call.func)
        if isinstance(r, Partial):
            pk = {}
            t = r
            while isinstance(t, Partial):
                for k, v in t.keywords.items():
                    pk.setdefault(k, v)
                t = t.target
            return (pk, None)
        return (None, None)

    # summaries ---------------------------------------------------------------
    def flow(self, fi, val):
        key = (fi.qualname, tuple(sorted((k, repr(v)) for k, v in val.items())))
        if key in self.memo:
            return self.memo[key]
        if key in self.stack or len(self.stack) >= self.max_depth:
            return None
        self.stack.append(key)
        try:
            fl = InterFlow(self, fi, val)
            fl.run()
            self.ctx.touch(fi, fl.cfg)
        finally:
            self.stack.pop()
        self.memo[key] = fl
        return fl

    def summary(self, fi, val):
        fl = self.flow(fi, val)
        if fl is None:
            return {"?RECURSION"}, TOP
        ev = set()
        for s in fl.node_events.values():
            ev |= s
        ret = fl.returns if fl.returns != BOT else NONE
        return ev, ret
