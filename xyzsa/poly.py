"""D-POLY: straight-line numeric code as rational functions over named symbols
(exact arithmetic on fractions.Fraction; equality by cross-multiplication)."""
import ast
from collections import defaultdict
from fractions import Fraction

from .loader import norm


class NotPoly(Exception):
    pass


class Poly(dict):
    @staticmethod
    def const(c):
        return Poly({(): Fraction(c)}) if c else Poly()

    @staticmethod
    def var(v):
        return Poly({((v, 1),): Fraction(1)})

    def __add__(a, b):
        r = Poly(a)
        for k, v in b.items():
            r[k] = r.get(k, 0) + v
            if r[k] == 0:
                del r[k]
        return r

    def __neg__(a):
        return Poly({k: -v for k, v in a.items()})

    def __sub__(a, b):
        return a + (-b)

    def __mul__(a, b):
        r = defaultdict(Fraction)
        for k1, v1 in a.items():
            for k2, v2 in b.items():
                d = dict(k1)
                for x, e in k2:
                    d[x] = d.get(x, 0) + e
                r[tuple(sorted(d.items()))] += v1 * v2
        return Poly({k: v for k, v in r.items() if v})


class Rat:
    def __init__(s, n, d=None):
        s.n = n
        s.d = d if d is not None else Poly.const(1)

    def __add__(a, b):
        return Rat(a.n * b.d + b.n * a.d, a.d * b.d)

    def __sub__(a, b):
        return Rat(a.n * b.d - b.n * a.d, a.d * b.d)

    def __mul__(a, b):
        return Rat(a.n * b.n, a.d * b.d)

    def __truediv__(a, b):
        if b.n == Poly():
            raise NotPoly("division by zero polynomial")
        return Rat(a.n * b.d, a.d * b.n)

    def __eq__(a, b):
        return (a.n * b.d - b.n * a.d) == Poly()

    def __ne__(a, b):
        return not a == b


def V(x):
    return Rat(Poly.var(x))


def K(c):
    return Rat(Poly.const(c))


def ev(e, env):
    if isinstance(e, ast.Name):
        if e.id not in env:
            raise NotPoly("unknown name " + e.id)
        return env[e.id]
    if isinstance(e, ast.Attribute) and isinstance(e.value, ast.Name) and e.value.id == "self":
        k = "self." + e.attr
        if k not in env:
            raise NotPoly("unknown attribute " + k)
        return env[k]
    if isinstance(e, ast.Constant) and isinstance(e.value, (int, float)) and not isinstance(e.value, bool):
        return K(Fraction(e.value).limit_denominator(10 ** 9))
    if isinstance(e, ast.UnaryOp) and isinstance(e.op, ast.USub):
        return K(0) - ev(e.operand, env)
    if isinstance(e, ast.BinOp):
        a, b = ev(e.left, env), ev(e.right, env)
        if isinstance(e.op, ast.Add):
            return a + b
        if isinstance(e.op, ast.Sub):
            return a - b
        if isinstance(e.op, ast.Mult):
            return a * b
        if isinstance(e.op, ast.Div):
            return a / b
        if isinstance(e.op, ast.Pow) and isinstance(e.right, ast.Constant) and e.right.value == 2:
            return a * a
    raise NotPoly("not a rational expression: " + norm(e))


def run_straight_line(fnode, env):
    """Execute assignments / augmented assignments of a straight-line body."""
    return run_stmts(fnode.body, env)


def _target_name(tgt):
    if isinstance(tgt, ast.Name):
        return tgt.id
    if isinstance(tgt, ast.Attribute) and isinstance(tgt.value, ast.Name) and tgt.value.id == "self":
        return "self." + tgt.attr
    raise NotPoly("target " + norm(tgt))


def run_stmts(stmts, env):
    env = dict(env)
    for s in stmts:
        if isinstance(s, ast.Expr) and isinstance(s.value, ast.Constant):
            continue
        if isinstance(s, ast.Return):
            env["<return>"] = ev(s.value, env)
            continue
        if isinstance(s, ast.If):
            raise NotPoly("branch in body: " + norm(s.test))
        if not isinstance(s, (ast.Assign, ast.AugAssign)):
            raise NotPoly("statement kind %s" % type(s).__name__)
        tgt = s.target if isinstance(s, ast.AugAssign) else s.targets[0]
        if isinstance(s, ast.Assign) and len(s.targets) != 1:
            raise NotPoly("chained assignment " + norm(s))
        if isinstance(tgt, (ast.Tuple, ast.List)):
            # a, b = c, d : all right-hand sides are evaluated first
            if isinstance(s, ast.Assign) and isinstance(s.value, (ast.Tuple, ast.List)) and len(s.value.elts) == len(tgt.elts):
                vals = [ev(x, env) for x in s.value.elts]
                for t, v in zip(tgt.elts, vals):
                    env[_target_name(t)] = v
                continue
            raise NotPoly("unpacking " + norm(s))
        name = _target_name(tgt)
        val = ev(s.value, env)
        if isinstance(s, ast.AugAssign):
            if name not in env:
                raise NotPoly("augmented assignment to unknown " + name)
            cur = env[name]
            if isinstance(s.op, ast.Add):
                val = cur + val
            elif isinstance(s.op, ast.Sub):
                val = cur - val
            elif isinstance(s.op, ast.Mult):
                val = cur * val
            elif isinstance(s.op, ast.Div):
                val = cur / val
            else:
                raise NotPoly("aug op")
        env[name] = val
    return env
