"""D-AFFINE: integer expressions as linear forms over named quantities, and
comparisons normalised to ``form >= 0``.

A linear form is (coeffs: {symbol: int}, const: int).  Symbols are access-path
texts (``self.num_batches``) or caller-chosen names.  Non-linear or unknown
sub-expressions raise NotAffine; callers turn that into an analysis error or
treat the expression as opaque, never into a verdict.
"""
import ast

from .flow import path_key
from .loader import norm


class NotAffine(Exception):
    pass


class Lin:
    __slots__ = ("c", "k")

    def __init__(self, c=None, k=0):
        self.c = {s: v for s, v in (c or {}).items() if v != 0}
        self.k = k

    def __add__(self, o):
        c = dict(self.c)
        for s, v in o.c.items():
            c[s] = c.get(s, 0) + v
        return Lin(c, self.k + o.k)

    def __neg__(self):
        return Lin({s: -v for s, v in self.c.items()}, -self.k)

    def __sub__(self, o):
        return self + (-o)

    def scale(self, n):
        return Lin({s: v * n for s, v in self.c.items()}, self.k * n)

    def is_const(self):
        return not self.c

    def key(self):
        return (tuple(sorted(self.c.items())), self.k)

    def __eq__(self, o):
        return isinstance(o, Lin) and self.key() == o.key()

    def __hash__(self):
        return hash(self.key())

    def __repr__(self):
        parts = []
        for s, v in sorted(self.c.items()):
            parts.append(("%s" % s) if v == 1 else ("-%s" % s if v == -1 else "%d*%s" % (v, s)))
        if self.k or not parts:
            parts.append(str(self.k))
        return " + ".join(parts).replace("+ -", "- ")


def sym(name):
    return Lin({name: 1}, 0)


def lin(e, subst=None, rename=None):
    """Linear form of expression ``e``.  ``subst(name) -> expr or Lin or None``
    expands local definitions; ``rename(path) -> symbol`` canonicalises."""
    if isinstance(e, ast.Constant) and isinstance(e.value, int) and not isinstance(e.value, bool):
        return Lin({}, e.value)
    if isinstance(e, ast.UnaryOp) and isinstance(e.op, ast.USub):
        return -lin(e.operand, subst, rename)
    if isinstance(e, ast.UnaryOp) and isinstance(e.op, ast.UAdd):
        return lin(e.operand, subst, rename)
    if isinstance(e, ast.BinOp):
        if isinstance(e.op, ast.Add):
            return lin(e.left, subst, rename) + lin(e.right, subst, rename)
        if isinstance(e.op, ast.Sub):
            return lin(e.left, subst, rename) - lin(e.right, subst, rename)
        if isinstance(e.op, ast.Mult):
            a, b = lin(e.left, subst, rename), lin(e.right, subst, rename)
            if a.is_const():
                return b.scale(a.k)
            if b.is_const():
                return a.scale(b.k)
            # product of two symbols: an opaque symbol, commutative
            n = "*".join(sorted([repr(a), repr(b)]))
            return sym("(" + n + ")")
        raise NotAffine(norm(e))
    if isinstance(e, ast.Call) and isinstance(e.func, ast.Name) and e.func.id == "int" and len(e.args) == 1:
        # int(<bool>) : indicator, kept as an opaque symbol of the predicate
        return sym("[" + norm(e.args[0]) + "]")
    if isinstance(e, ast.Call) and isinstance(e.func, ast.Name) and e.func.id == "len" and len(e.args) == 1:
        return sym("len(" + norm(e.args[0]) + ")")
    k = path_key(e)
    if k is not None:
        if subst is not None and isinstance(e, ast.Name):
            s = subst(e.id)
            if isinstance(s, Lin):
                return s
            if s is not None:
                return lin(s, subst, rename)
        return sym(rename(k) if rename else k)
    raise NotAffine(norm(e))


def constraints(cmp, subst=None, rename=None, negate=False):
    """A Compare (possibly chained) as a list of linear forms F with meaning
    ``F >= 0`` (conjunction).  ``negate`` is only supported for single links.
    Integer semantics: a < b  <=>  b - a - 1 >= 0."""
    if not isinstance(cmp, ast.Compare):
        raise NotAffine(norm(cmp))
    out = []
    left = cmp.left
    links = list(zip(cmp.ops, cmp.comparators))
    if negate and len(links) != 1:
        raise NotAffine("negated chain " + norm(cmp))
    for op, right in links:
        a, b = lin(left, subst, rename), lin(right, subst, rename)
        t = type(op)
        if negate:
            t = {ast.Lt: ast.GtE, ast.LtE: ast.Gt, ast.Gt: ast.LtE, ast.GtE: ast.Lt}.get(t)
            if t is None:
                raise NotAffine(norm(cmp))
        if t is ast.Lt:
            out.append(b - a - Lin({}, 1))
        elif t is ast.LtE:
            out.append(b - a)
        elif t is ast.Gt:
            out.append(a - b - Lin({}, 1))
        elif t is ast.GtE:
            out.append(a - b)
        elif t is ast.Eq:
            out.append(b - a)
            out.append(a - b)
        else:
            raise NotAffine(norm(cmp))
        left = right
    return out


def predicate(e, subst=None, rename=None):
    """Boolean expression -> list of forms (>= 0), handling ``not`` around a
    single comparison and names defined by one."""
    neg = False
    while isinstance(e, ast.UnaryOp) and isinstance(e.op, ast.Not):
        neg = not neg
        e = e.operand
    if isinstance(e, ast.Name) and subst is not None:
        s = subst(e.id)
        if s is not None and not isinstance(s, Lin):
            return predicate(ast.UnaryOp(op=ast.Not(), operand=s) if neg else s, subst, rename)
    if isinstance(e, ast.Call) and isinstance(e.func, ast.Name) and e.func.id in ("int", "bool") and len(e.args) == 1:
        return predicate(ast.UnaryOp(op=ast.Not(), operand=e.args[0]) if neg else e.args[0], subst, rename)
    return constraints(e, subst, rename, negate=neg)


def range_bounds(call, subst=None, rename=None):
    """range(a[, b]) -> (lo, hi) inclusive linear forms of the loop variable.
    A step argument is not supported."""
    if not (isinstance(call, ast.Call) and isinstance(call.func, ast.Name) and call.func.id == "range"):
        raise NotAffine(norm(call))
    if len(call.args) == 1:
        return Lin({}, 0), lin(call.args[0], subst, rename) - Lin({}, 1)
    if len(call.args) == 2:
        return lin(call.args[0], subst, rename), lin(call.args[1], subst, rename) - Lin({}, 1)
    raise NotAffine("range with step: " + norm(call))
