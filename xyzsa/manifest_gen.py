"""Regenerate /verif/MANIFEST.json from the property modules that exist.

A property whose module defines CLAIM (dict with text / note / technique /
design_ref) is registered as a check; every other property of
properties.jsonl stays under not_applicable with its reason from NA below.
"""
import importlib
import json
import os

VERIF = os.path.dirname(os.path.dirname(os.path.abspath(__file__)))

NA_DEFAULT = "check under construction (DESIGN.md section 4); not claimed yet"
NA = {}


def main():
    props = [json.loads(l) for l in open(os.path.join(VERIF, "properties.jsonl"))]
    checks, na, served = [], [], []
    for p in props:
        pid = p["id"]
        claim = None
        try:
            mod = importlib.import_module("xyzsa.props." + pid.lower())
            claim = getattr(mod, "CLAIM", None)
        except ImportError:
            mod = None
        if claim is None:
            reason = getattr(mod, "NOT_APPLICABLE", None) if mod else None
            na.append({"property_id": pid, "reason": reason or NA.get(pid, NA_DEFAULT)})
            continue
        served.append(pid)
        # the rule list is taken from what the check actually evaluated (last evidence file), so the claim cannot lag behind the rules
        rules_txt = ""
        try:
            ev = json.load(open(os.path.join(VERIF, "evidence", pid + ".json")))
            rl = [r for r in ev["coverage"].get("rules", []) if r.get("instances", 0) > 0 or r.get("floor", 0) > 0]
            rules_txt = " Rules evaluated on every run (generated from the check's own evidence): " + "; ".join("%s: %s" % (r["rule"], r["title"]) for r in rl) + "."
        except Exception:
            pass
        claim = dict(claim)
        claim["text"] = claim["text"] + rules_txt
        checks.append({
            "property_id": pid,
            "quick_cmd": "./check %s --tier quick" % pid,
            "thorough_cmd": "./check %s --tier thorough" % pid,
            "evidence_file": "evidence/%s.json" % pid,
            "replay_cmd_template": "./check %s --explain {path}" % pid,
            "engine": "xyzsa",
            "level_claimed": {"category": getattr(mod, "LEVEL", "other"), "text": claim["text"],
                              "design_ref": claim.get("design_ref", "DESIGN.md section 4, " + pid)},
            "level_note": claim["note"],
            "technique": claim["technique"],
        })
    m = {
        "version": 1,
        "setup_cmd": "/venv/bin/python -m compileall -q xyzsa",
        "hooks": {"guard": "XYZPY_VERIF",
                  "enable": "none: static analysis reads /repo's working tree; no source hooks exist and no commit uses the guard",
                  "baseline_off_cmd": "cd /repo && /venv/bin/python -m pytest -ra -q -p no:cacheprovider --timeout=900 --continue-on-collection-errors",
                  "source_commits": [], "add_only": True},
        "engines": [{"name": "xyzsa", "path": "xyzsa", "serves_properties": served,
                     "kind_free_text": "repository-specific static analyser: ast/symtable loader, resolved call graph, statement CFG with exception edges, truthiness-partitioned forward dataflow, per-property abstract domains and rules; nothing under /repo is imported or executed"}],
        "checks": checks,
        "notes": "Static analysis only (DESIGN.md). Every check parses /repo's current working tree on each run. Exit 2 + ANALYSIS-ERROR = the analysis could not be carried out (lost anchor / unknown idiom), never a verdict.",
        "not_applicable": na,
    }
    with open(os.path.join(VERIF, "MANIFEST.json"), "w") as f:
        json.dump(m, f, indent=1)
    print("claimed:", served)
    print("not applicable:", [x["property_id"] for x in na])


if __name__ == "__main__":
    main()
