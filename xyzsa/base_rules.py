"""Shared base rules B1..B6: "the program links".

Python has no link step, and large parts of the crop pipeline have no runnable
test in this environment, so a NameError / TypeError / AttributeError on a path
survives both "compiles" and "tests pass".  A hit is a finding for property P
only when the enclosing function lies in P's analysed-function slice.
"""
import ast
import importlib
import importlib.util
import inspect
import os
import re
import sys

from .loader import (FuncInfo, ClassInfo, Partial, External, Module, walk_shallow,
                     BUILTINS, norm, AnalysisError)
from .callgraph import bind_call, fi_class

OPTIONAL_DISTS = {"bokeh", "ray", "colorcet", "cmocean", "psutil", "uncertainties",
                  "IPython", "setuptools_scm", "zarr", "netCDF4", "mpi4py", "numba",
                  "cotengra", "autoray"}


def b1_names(ctx, rr, funcs):
    """B1: every Name load resolves in its scope chain, module or builtins."""
    for fi in funcs:
        n_checked = 0
        for n in walk_shallow(fi.node):
            if isinstance(n, ast.Name) and isinstance(n.ctx, ast.Load):
                n_checked += 1
                r = ctx.res.resolve_name(fi, n.id)
                if r is None:
                    rr.bad(ctx.finding(rr.rule, fi, n, "name %r is not defined in any enclosing scope, the module, or builtins (NameError on this path)" % n.id,
                                       construct="name " + n.id))
                elif isinstance(r, tuple) and r[0] == "missing":
                    rr.bad(ctx.finding(rr.rule, fi, n, "name %r is imported from %s which does not define it" % (n.id, r[1]),
                                       construct="name " + n.id))
        rr.ok("%s: %d name loads resolve" % (fi.qualname, n_checked))


def b2_internal_refs(ctx, rr, funcs):
    """B2: attribute chains rooted at an in-repo module / class resolve."""
    for fi in funcs:
        cnt = 0
        for n in walk_shallow(fi.node):
            if isinstance(n, ast.Attribute) and isinstance(n.ctx, ast.Load):
                r = ctx.res.resolve_expr(fi, n)
                if isinstance(r, tuple) and r[0] == "missing":
                    rr.bad(ctx.finding(rr.rule, fi, n, "%s does not exist: module %s defines no %r (AttributeError on this path)" % (norm(n), r[1], r[2])))
                elif r is not None:
                    cnt += 1
        if cnt:
            rr.ok("%s: %d internal references resolve" % (fi.qualname, cnt))


def b3_signatures(ctx, rr, funcs):
    """B3: every resolved intra-package call binds to its callee's signature."""
    for fi in funcs:
        for c in ctx.res.calls_in(fi):
            targets = ctx.res.resolve_call(fi, c)
            for t in targets:
                pk = None
                callee = t
                is_method = None
                if isinstance(t, Partial):
                    pk = {}
                    tt = t
                    while isinstance(tt, Partial):
                        for k, v in tt.keywords.items():
                            pk.setdefault(k, v)
                        tt = tt.target
                    callee = tt
                elif isinstance(t, ClassInfo):
                    callee = t.find_method("__init__")
                    if not isinstance(callee, FuncInfo):
                        continue
                    is_method = True
                if not isinstance(callee, FuncInfo):
                    continue
                # function stored on a class by monkey patching and called
                # through an instance / self: first parameter is the receiver
                if is_method is None and isinstance(c.func, ast.Attribute):
                    recv = ctx.res.resolve_expr(fi, c.func.value)
                    via_instance = not isinstance(recv, (Module, External, ClassInfo))
                    if callee.cls is None and via_instance:
                        is_method = True      # patched-in function called on an instance
                    elif callee.cls is not None and isinstance(recv, ClassInfo):
                        is_method = False     # Class.method(obj, ...) explicit receiver
                binding, problems, star = bind_call(c, callee, pk, is_method)
                what = "%s -> %s" % (fi.qualname, callee.qualname)
                if problems:
                    for p in problems:
                        rr.bad(ctx.finding(rr.rule, fi, c, "call %s does not match the signature of %s: %s" % (norm(c.func), callee.qualname, p),
                                           construct="%s :: %s" % (norm(c.func), p)), what + ": " + p)
                else:
                    rr.ok("call %s binds%s" % (what, " (**/* pass-through not expanded)" if star else ""), what + norm(c)[:80])


_spec_cache = {}


def module_available(dotted):
    """find_spec with parents; never imports the repository itself."""
    if dotted in _spec_cache:
        return _spec_cache[dotted]
    ok = False
    try:
        if dotted.split(".")[0] == "xyzpy":
            ok = None
        else:
            ok = importlib.util.find_spec(dotted) is not None
    except (ImportError, ValueError, AttributeError):
        ok = False
    _spec_cache[dotted] = ok
    return ok


def resolve_external(dotted):
    """Walk module / class attributes of an installed third-party or stdlib
    dotted path.  -> (status, detail) with status in
    ok | absent-dist | noattr | opaque."""
    parts = dotted.split(".")
    top = parts[0]
    if top in OPTIONAL_DISTS and not module_available(top):
        return "absent-dist", top
    if not module_available(top):
        return "absent-dist", top
    try:
        obj = importlib.import_module(top)
    except Exception as e:  # pragma: no cover
        return "absent-dist", "%s (%r)" % (top, e)
    path = top
    for a in parts[1:]:
        if not (inspect.ismodule(obj) or inspect.isclass(obj)):
            return "opaque", path
        if hasattr(obj, a):
            obj = getattr(obj, a)
            path += "." + a
            continue
        try:
            obj = importlib.import_module(path + "." + a)
            path += "." + a
        except Exception:
            return "noattr", "%s has no attribute %r" % (path, a)
    return "ok", path


def b4_external_refs(ctx, rr, funcs):
    """B4: attribute chains rooted at an installed external module resolve."""
    skipped = set()
    for fi in funcs:
        cnt = 0
        seen_here = set()
        for n in walk_shallow(fi.node):
            if not (isinstance(n, ast.Attribute) and isinstance(n.ctx, ast.Load)):
                continue
            # only maximal chains
            p = getattr(n, "_parent", None)
            if isinstance(p, ast.Attribute) and p.value is n:
                continue
            r = ctx.res.resolve_expr(fi, n)
            if not isinstance(r, External):
                # try progressively shorter prefixes (np.random.choice(...).x)
                continue
            if r.dotted in seen_here:
                continue
            seen_here.add(r.dotted)
            st, detail = resolve_external(r.dotted)
            if st == "noattr":
                rr.bad(ctx.finding(rr.rule, fi, n, "%s: %s in the installed distribution (AttributeError on this path)" % (norm(n), detail)))
            elif st == "absent-dist":
                skipped.add(detail)
            else:
                cnt += 1
        if cnt:
            rr.ok("%s: %d external references resolve against the installed packages" % (fi.qualname, cnt))
    if skipped:
        rr.note("optional distributions not installed, references skipped: %s" % ", ".join(sorted(skipped)))


# ------------------------------------------------------------------ B5
_WORD = re.compile(r"[A-Za-z_][A-Za-z0-9_]*")
_universe = {}


def _dist_words(top):
    if top in _universe:
        return _universe[top]
    words = set()
    try:
        spec = importlib.util.find_spec(top)
    except Exception:
        spec = None
    if spec is not None and spec.submodule_search_locations:
        for root in spec.submodule_search_locations:
            for dp, dn, fns in os.walk(root):
                dn[:] = [d for d in dn if d not in ("tests", "__pycache__", "testing")]
                for fn in fns:
                    if fn.endswith((".py", ".pyi")):
                        try:
                            with open(os.path.join(dp, fn), encoding="utf-8", errors="ignore") as f:
                                words.update(_WORD.findall(f.read()))
                        except OSError:
                            pass
    elif spec is not None and spec.origin and spec.origin.endswith(".py"):
        with open(spec.origin, encoding="utf-8", errors="ignore") as f:
            words.update(_WORD.findall(f.read()))
    _universe[top] = words
    return words


def _builtin_words():
    if "__builtin__" in _universe:
        return _universe["__builtin__"]
    import collections
    import functools
    import pathlib
    import re as _re
    import io
    import itertools
    w = set()
    for o in [str, bytes, list, dict, set, tuple, int, float, complex, object, type(None), range, slice,
              type, BaseException, frozenset, pathlib.Path, io.TextIOWrapper, io.BufferedWriter, io.BufferedReader,
              collections.OrderedDict, collections.defaultdict, _re.Match, _re.Pattern, functools.partial,
              itertools.count, type(_ for _ in ()), property, OSError]:
        w |= set(dir(o))
    try:
        import numpy as np
        w |= set(dir(np.ndarray)) | set(dir(np.float64)) | set(dir(np.ma.MaskedArray))
    except Exception:
        pass
    import argparse
    import subprocess
    import logging
    w |= set(dir(argparse.Namespace)) | set(dir(subprocess.CompletedProcess)) | set(dir(logging.Logger))
    _universe["__builtin__"] = w
    return w


def repo_defined_names(prog):
    if "__repo__" in _universe and _universe["__repo__"][0] is prog:
        return _universe["__repo__"][1]
    R = set()
    for m in prog.modules.values():
        for n in ast.walk(m.tree):
            if isinstance(n, (ast.FunctionDef, ast.ClassDef, ast.AsyncFunctionDef)):
                R.add(n.name)
            elif isinstance(n, ast.Attribute) and isinstance(n.ctx, ast.Store):
                R.add(n.attr)
            elif isinstance(n, ast.Name) and isinstance(n.ctx, ast.Store):
                R.add(n.id)
            elif isinstance(n, ast.Constant) and isinstance(n.value, str) and n.value.isidentifier():
                R.add(n.value)   # setattr(self, key, ...) over literal key tables
            elif isinstance(n, ast.keyword) and n.arg:
                R.add(n.arg)
            elif isinstance(n, ast.arg):
                R.add(n.arg)
    _universe["__repo__"] = (prog, R)
    return R


def module_external_tops(prog, m):
    tops = set()
    for n in ast.walk(m.tree):
        if isinstance(n, ast.Import):
            for a in n.names:
                tops.add(a.name.split(".")[0])
        elif isinstance(n, ast.ImportFrom) and n.level == 0 and n.module:
            tops.add(n.module.split(".")[0])
    tops.discard("xyzpy")
    return tops


# distributions whose objects flow through the repository's values without
# being imported by every module that touches them
AMBIENT_DISTS = ("numpy", "xarray", "pandas", "matplotlib", "joblib", "tqdm", "dask")


def b5_closed_world(ctx, rr, funcs):
    """B5: an attribute name loaded on a receiver of unknown type must be
    defined somewhere: in the repository, in the sources of the installed
    distributions (word set: a superset of the defined names, so this can only
    miss, never misreport), or on a builtin / stdlib class."""
    R = repo_defined_names(ctx.prog)
    B = _builtin_words()
    for fi in funcs:
        tops = set(module_external_tops(ctx.prog, fi.module)) | set(AMBIENT_DISTS)
        cnt = 0
        for n in walk_shallow(fi.node):
            if not (isinstance(n, ast.Attribute) and isinstance(n.ctx, ast.Load)):
                continue
            r = ctx.res.resolve_expr(fi, n)
            if r is not None and not (isinstance(r, tuple) and r[0] in ("selfattr", "instattr")):
                continue
            a = n.attr
            if a in R or a in B:
                cnt += 1
                continue
            found = False
            for t in sorted(tops):
                if module_available(t) and a in _dist_words(t):
                    found = True
                    break
            if found:
                cnt += 1
                continue
            # stdlib modules: attribute of any imported stdlib module object
            rr.bad(ctx.finding(rr.rule, fi, n, "attribute %r is defined nowhere: not in the repository, not in the installed %s, not on a builtin type (AttributeError on this path)"
                               % (a, "/".join(sorted(t for t in tops if module_available(t) and t in AMBIENT_DISTS))),
                               construct="." + a))
        if cnt:
            rr.ok("%s: %d attribute names on untyped receivers are defined somewhere" % (fi.qualname, cnt))


# ------------------------------------------------------------------ B6
_TYPE_NAMES = {"str", "int", "float", "bool", "complex", "bytes", "type", "object"}
_ITER_ARG = {"zip": None, "enumerate": 0, "sorted": 0, "list": 0, "tuple": 0, "set": 0, "frozenset": 0, "sum": 0, "any": 0, "all": 0, "iter": 0, "len": 0, "reversed": 0}


def b6_builtin_arg_kinds(ctx, rr, funcs):
    """B6: calls of builtins whose argument kinds are wrong on the face of it (TypeError on every execution):
    a bare builtin class (str, int, ...) where an iterable is required, a literal where a callable is required,
    `self` / a builtin class / a non-string literal as the attribute name of getattr / setattr / hasattr."""
    for fi in funcs:
        cnt = 0
        for c in walk_shallow(fi.node):
            if not (isinstance(c, ast.Call) and isinstance(c.func, ast.Name)) or any(isinstance(a, ast.Starred) for a in c.args):
                continue
            fn = c.func.id
            if not _is_plain_builtin(ctx, fi, fn):
                continue

            def bare_type(a):
                return isinstance(a, ast.Name) and a.id in _TYPE_NAMES and _is_plain_builtin(ctx, fi, a.id)
            bad = None
            if fn in ("map", "filter") and len(c.args) >= 2:
                cnt += 1
                if isinstance(c.args[0], (ast.List, ast.Tuple, ast.Dict, ast.Set)) or (isinstance(c.args[0], ast.Constant) and c.args[0].value is not None):
                    bad = "%s() is given the literal `%s` as its function" % (fn, norm(c.args[0])[:40])
                for a in c.args[1:]:
                    if bare_type(a):
                        bad = "%s() is given the class `%s` as an iterable" % (fn, a.id)
            elif fn in _ITER_ARG and c.args:
                cnt += 1
                idxs = range(len(c.args)) if _ITER_ARG[fn] is None else [0]
                for i in idxs:
                    if bare_type(c.args[i]):
                        bad = "%s() is given the class `%s` as an iterable" % (fn, c.args[i].id)
            elif fn in ("getattr", "setattr", "hasattr", "delattr") and len(c.args) >= 2:
                cnt += 1
                a = c.args[1]
                if (isinstance(a, ast.Name) and a.id == "self" and fi.cls is not None) or bare_type(a) or (isinstance(a, ast.Constant) and not isinstance(a.value, str)) or isinstance(a, (ast.List, ast.Dict, ast.Set, ast.Tuple)):
                    bad = "%s() is given `%s` as the attribute name (must be a string)" % (fn, norm(a)[:40])
            if bad:
                rr.bad(ctx.finding(rr.rule, fi, c, bad + " (TypeError on this path)", construct="builtin-arg " + fn))
        if cnt:
            rr.ok("%s: %d builtin calls with plausible argument kinds" % (fi.qualname, cnt))


def _is_plain_builtin(ctx, fi, name):
    """`name` is not bound in fi's scope chain or module: it denotes the builtin"""
    if name not in BUILTINS:
        return False
    f = fi
    while f is not None:
        for n in walk_shallow(f.node):
            if isinstance(n, ast.Name) and n.id == name and isinstance(n.ctx, ast.Store):
                return False
        a = f.node.args
        if name in [x.arg for x in a.args + a.kwonlyargs + a.posonlyargs] or (a.vararg and a.vararg.arg == name) or (a.kwarg and a.kwarg.arg == name):
            return False
        f = f.parent
    m = fi.module
    return name not in m.funcs and name not in m.classes and name not in m.imports and name not in m.consts


def run_link_rules(ctx, prefix, funcs, externals=True, closed_world=False):
    """Run B1..B3 (and optionally B4/B5) on a property's slice."""
    funcs = [f for f in funcs if f is not None]
    for f in funcs:
        ctx.touch(f)
    small = len(funcs) < 3
    r1 = ctx.rule(prefix + ".B1", "names resolve in the property's call-graph slice", floor=1)
    b1_names(ctx, r1, funcs)
    r2 = ctx.rule(prefix + ".B2", "references into the repository's own modules resolve", floor=0)
    b2_internal_refs(ctx, r2, funcs)
    r3 = ctx.rule(prefix + ".B3", "resolved intra-package calls match their callee's signature", floor=0 if small else 1)
    b3_signatures(ctx, r3, funcs)
    r6 = ctx.rule(prefix + ".B6", "builtin calls are given plausible argument kinds (iterables, callables, attribute names)", floor=0)
    b6_builtin_arg_kinds(ctx, r6, funcs)
    if externals:
        r4 = ctx.rule(prefix + ".B4", "references into installed third-party / stdlib modules resolve", floor=0)
        b4_external_refs(ctx, r4, funcs)
    if closed_world:
        r5 = ctx.rule(prefix + ".B5", "attribute names on untyped receivers are defined somewhere (closed world)", floor=0)
        b5_closed_world(ctx, r5, funcs)
