"""C04 -- sow, grow, reap returns exactly what running directly would have."""
import ast

from ..loader import AnalysisError, norm, walk_shallow
from ..cfg import build_cfg, node_calls
from ..flow import TOP, NONE, TRUE, FALSE, TRUTHY, FALSY, NOTNONE, valuations, truth, path_key, Flow
from ..order import OrderInter, is_seq, seq
from ..util import callee_name, all_calls, arg, need, single_def, assignments_to, names_in
from .. import base_rules
from . import shared, batching, sweep
from .shared import CROP
from .sweep import CORE, CR

LEVEL = "other"
CLAIM = {
    "text": ("Decides the structural clauses of C04: (R1) persist/replay agreement -- the settings record's key set covers every key read back, every replay parameter of the Reaper's enumeration (combos, cases, shuffle, num_batches) is "
             "fed from the like-named persisted key, and in each sow_* entry the combos/cases/shuffle handed to the enumeration are must-equal to what save_info persists; (R2) the stateful Sower/Reaper callables are never swept in parallel; "
             "(R3) D-ORDER interpretation of grow() shows the written tuple aligned with the loaded batch in the sequential and the pooled branch, for every completion order; (R4) the batch-id universe of Sower, Reaper and missing_results is "
             "[1, num_batches]; (R5) all 19 crop paths use their writer's directory and template; (R6) the default pickling library is importable on some path and to_pickle / from_pickle agree on it; (R7) the enumeration is replayable across processes "
             "(no set-order dependence, seed determined by the shuffle value alone, seed dominates shuffle); (R8) every crop file is published by write-temporary, close, rename, so no process loads a partly written file; (R9) Crop.load_info reads the settings file on every call (no memoised record survives a re-sow). The enumeration itself is C01. Not decided: cloudpickle fidelity for arbitrary functions."),
    "note": "Trusted base: pickle round trip of settings / batches; random.seed(k) + random.shuffle is deterministic across processes for equal k and equal list length; C01's rules for the enumeration order.",
    "technique": "static analysis: reader/writer key-table agreement, must-equality (reaching definitions) rules, D-ORDER abstract interpretation of grow(), linear-form id ranges, import feasibility by dataflow",
}
EXPLANATION = ("Key tables of save_info vs load_info readers; reaching-definition / must-equality checks in sow_*; D-ORDER interpretation of grow(); D-AFFINE id ranges; path template table; "
               "dataflow over get_picklelib with importlib.util.find_spec as feasibility oracle for literal module names.")
ASSUMPTIONS = ["pickle / cloudpickle round-trip settings and plain-data results faithfully", "random.seed(int) + random.shuffle is reproducible across processes of the same Python"]
NOT_DECIDED = ["(L) cloudpickle fidelity for arbitrary functions", "(V) the enumeration itself (C01)"]

REPLAY = {"combos": "combos", "cases": "cases", "shuffle": "shuffle"}


def _settings_vars(ctx, m):
    """locals of m bound to the settings record: `x = self.load_info()` or a component of the tuple returned by a helper that
    loads it (`a, x = self._begin(...)` with `return a, self.load_info()`)"""
    from ..util import callee_func
    LOAD = CROP + ".Crop.load_info"
    out = set()
    for st in ast.walk(m.node):
        if not (isinstance(st, ast.Assign) and len(st.targets) == 1 and isinstance(st.value, ast.Call)):
            continue
        t = st.targets[0]
        if callee_name(ctx, m, st.value) == LOAD and isinstance(t, ast.Name):
            out.add(t.id)
            continue
        h = callee_func(ctx, m, st.value)
        if h is None or not isinstance(t, ast.Tuple):
            continue
        rets = [r for r in walk_shallow(h.node) if isinstance(r, ast.Return) and isinstance(r.value, ast.Tuple)]
        if len(rets) != 1 or len(rets[0].value.elts) != len(t.elts):
            continue
        for i, e in enumerate(rets[0].value.elts):
            src = e
            if isinstance(e, ast.Name):
                d = single_def(h, e.id)
                src = d[1] if d and d[1] is not None else e
            if isinstance(src, ast.Call) and callee_name(ctx, h, src) == LOAD and isinstance(t.elts[i], ast.Name):
                ctx.touch(h)
                out.add(t.elts[i].id)
    return out


def persist_replay_rule(ctx, rid):
    rr = ctx.rule(rid, "persist / replay agreement: record keys, like-named replay parameters, sow-time must-equality", floor=14)
    prog = ctx.prog
    crop = prog.need_cls(CROP + ".Crop")
    si, rec, written_txt, restored = shared.record_table(ctx)
    ctx.touch(si)
    written = dict(written_txt)
    need(len(written) >= 7, "idiom changed: settings record has %d keys" % len(written))
    # record content: each key stores the like-named parameter / attribute
    for k, v in written.items():
        t = v
        if k in ("combos", "cases", "fn_args", "constants"):
            good = t == k
        elif k == "farmer":
            # by role: a local of save_info whose definitions are a pickle of the farmer (to_pickle(...)) or None, or the pickling expression itself
            good = "to_pickle(" in t
            try:
                e_ = ast.parse(t, mode="eval").body
            except SyntaxError:
                e_ = None
            if isinstance(e_, ast.Name):
                dfs = [v_ for _, v_ in assignments_to(si, e_.id) if v_ is not None]
                good = bool(dfs) and all(("to_pickle(" in norm(v_)) or (isinstance(v_, ast.Constant) and v_.value is None) or (isinstance(v_, ast.IfExp) and "to_pickle(" in norm(v_)) or
                                         (isinstance(v_, ast.Call) and (norm(v_.func).startswith("self.") or "farmer" in norm(v_))) for v_ in dfs) and any("to_pickle(" in norm(v_) or (isinstance(v_, ast.Call) and (norm(v_.func).startswith("self.") or "farmer" in norm(v_))) for v_ in dfs)
                if not good and dfs and not any(x in norm(v_) for v_ in dfs for x in ("pickle", "farmer")):
                    pass
                elif not good:
                    raise AnalysisError("idiom changed: the farmer entry of the settings record is `%s` = %s" % (t, [norm(v_)[:40] for v_ in dfs]))
        else:
            good = t == "self." + k
        if good:
            rr.ok("record[%r] = %s" % (k, t))
        else:
            rr.bad(ctx.finding(rid, si, rec, "the settings record stores %s under %r: what is replayed at reap time is not what was sown with" % (t, k), construct="record-content " + k), "record %s" % k)
    # readers
    n_reads = 0
    for m in crop.methods.values():
        g = build_cfg(m.node)
        svars = _settings_vars(ctx, m)
        if not svars:
            continue
        ctx.touch(m, g)
        for n in walk_shallow(m.node):
            key = None
            if isinstance(n, ast.Subscript) and isinstance(n.value, ast.Name) and n.value.id in svars and isinstance(n.slice, ast.Constant):
                key = n.slice.value
            elif isinstance(n, ast.Call) and isinstance(n.func, ast.Attribute) and n.func.attr == "get" and isinstance(n.func.value, ast.Name) and n.func.value.id in svars and n.args and isinstance(n.args[0], ast.Constant):
                key = n.args[0].value
            if key is None:
                continue
            n_reads += 1
            if key not in written:
                rr.bad(ctx.finding(rid, m, n, "%s reads settings[%r], which save_info never writes (KeyError / silent default at reap time)" % (m.name, key), construct="read-unwritten " + str(key)), "%s reads %s" % (m.name, key))
            else:
                rr.ok("%s reads settings[%r] (written)" % (m.name, key), "%s|%s|%d" % (m.qualname, key, n_reads))
        # replay parameters
        for nd, c, nm in all_calls(ctx, m, g):
            if nm in (CORE, CR + ".combo_runner_to_ds"):
                for pk, rk in REPLAY.items():
                    v = arg(c, None, pk)
                    if v is None:
                        if pk == "shuffle":
                            rr.bad(ctx.finding(rid, m, c, "%s replays the enumeration without the persisted shuffle setting: results of a shuffled sow land in the wrong slots" % m.name, construct="replay-no-shuffle"), "%s replay shuffle" % m.name)
                        continue
                    t = norm(v)
                    ok = any(t == "%s[%r]" % (sv_, rk) or t.startswith("%s.get(%r" % (sv_, rk)) for sv_ in svars)
                    if ok and pk == "shuffle" and t.startswith("settings.get("):
                        d = v.args[1] if len(v.args) > 1 else None
                        ok = d is not None and isinstance(d, ast.Constant) and d.value is False
                    if ok:
                        rr.ok("%s replays %s from settings[%r]" % (m.name, pk, rk))
                    else:
                        rr.bad(ctx.finding(rid, m, v, "%s replays the enumeration with %s=%s instead of the persisted settings[%r]: a Crop re-created from disk (whose attributes were not sown with) enumerates differently from the sower, so results land in the wrong slots"
                                           % (m.name, pk, t, rk), construct="replay-param %s=%s" % (pk, t)), "%s replay %s" % (m.name, pk))
            if nm == CROP + ".Reaper":
                v = arg(c, None, "num_batches")
                if v is not None and any(norm(v) == "%s['num_batches']" % sv_ for sv_ in svars):
                    rr.ok("%s: Reaper(num_batches=settings['num_batches'])" % m.name)
                else:
                    rr.bad(ctx.finding(rid, m, c, "%s builds the Reaper with num_batches=%s instead of the persisted number" % (m.name, norm(v) if v else None), construct="reaper-num_batches"), "%s reaper num_batches" % m.name)
    need(n_reads >= 8, "anchor lost: expected >= 8 reads of the loaded settings, found %d" % n_reads)

    # sow side: what is persisted == what is enumerated
    for name, enum in (("sow_combos", CORE), ("sow_cases", "xyzpy.gen.case_runner.case_runner")):
        m = crop.methods.get(name)
        need(m is not None, "anchor lost: Crop." + name)
        g = build_cfg(m.node)
        ctx.touch(m, g)
        prep = [(n, c) for n, c, nm in all_calls(ctx, m, g) if nm == CROP + ".Crop.prepare"]
        en = [(n, c) for n, c, nm in all_calls(ctx, m, g) if nm == enum]
        need(len(prep) == 1 and len(en) == 1, "anchor lost: %s prepare / enumeration calls" % name)
        (pn, pc), (en_n, ec) = prep[0], en[0]
        for key in ("combos", "cases", "fn_args"):
            pv, ev = arg(pc, None, key), arg(ec, None, key)
            if pv is None and ev is None:
                continue
            if pv is None or ev is None or norm(pv) != norm(ev) or not isinstance(pv, ast.Name):
                if key == "fn_args" and ev is None:
                    continue
                rr.bad(ctx.finding(rid, m, pc, "%s persists %s=%s but enumerates %s=%s" % (name, key, norm(pv) if pv else None, key, norm(ev) if ev else None), construct="sow-persist-vs-enum " + key), "%s %s" % (name, key))
                continue
            # same reaching definitions at both calls
            defs = [n for n, _ in assignments_to(m, pv.id, g)]
            between = [d for d in defs if g.can_reach(pn.id, d.id) and g.can_reach(d.id, en_n.id) and d.id not in (pn.id, en_n.id)]
            if between:
                rr.bad(ctx.finding(rid, m, between[0].ast, "%s re-assigns `%s` between persisting it and enumerating it" % (name, pv.id), construct="sow-reassign " + key), "%s %s stable" % (name, key))
            else:
                rr.ok("%s: the `%s` persisted is the `%s` enumerated" % (name, key, key))
        # shuffle: value enumerated must equal self.shuffle as read by save_info
        sv = arg(ec, None, "shuffle")
        stores = [n for n in g.nodes if n.kind == "stmt" and isinstance(n.ast, ast.Assign) and any(path_key(t) == "self.shuffle" for t in n.ast.targets)]
        late = [s for s in stores if g.can_reach(pn.id, s.id) and s.id != pn.id]
        # a local that was given `self.shuffle` once, after every store of self.shuffle (the temporary of a helper that was read
        # through) stands for self.shuffle
        if isinstance(sv, ast.Name) and sv.id not in m.params:
            d_ = single_def(m, sv.id, g)
            if d_ is not None and d_[1] is not None and norm(d_[1]) == "self.shuffle" and all(g.completes_before(s.id, d_[0].id) for s in stores):
                sv = d_[1]
        if sv is None:
            rr.bad(ctx.finding(rid, m, ec, "%s enumerates without a shuffle argument (unshuffled) while save_info persists self.shuffle: a Crop(shuffle=...) is sown unshuffled but reaped shuffled" % name, construct="sow-shuffle-missing"), "%s shuffle" % name)
        elif norm(sv) == "self.shuffle":
            if late:
                rr.bad(ctx.finding(rid, m, late[0].ast, "%s changes self.shuffle after it was persisted" % name, construct="sow-shuffle-late-store"), "%s shuffle stable" % name)
            else:
                rr.ok("%s enumerates with self.shuffle, the value save_info persists" % name)
        elif isinstance(sv, ast.Name):
            eq = [s for s in stores if norm(s.ast.value) == sv.id and g.completes_before(s.id, pn.id)]
            if eq and not late:
                rr.ok("%s: self.shuffle = %s on every path before persisting" % (name, sv.id))
            else:
                rr.bad(ctx.finding(rid, m, sv, "%s enumerates with the argument `%s` but persists self.shuffle, and `self.shuffle = %s` does not hold on every path (e.g. %s=None keeps the constructor's value): sower and reaper enumerate differently" % (name, sv.id, sv.id, sv.id),
                                   construct="sow-shuffle-not-equal"), "%s shuffle must-equal" % name)
        else:
            rr.bad(ctx.finding(rid, m, sv, "%s enumerates with shuffle=%s, not the persisted self.shuffle" % (name, norm(sv)), construct="sow-shuffle-other"), "%s shuffle" % name)
    # case_runner forwards shuffle to the core
    cr = prog.need_func("xyzpy.gen.case_runner.case_runner")
    ctx.touch(cr)
    for n, c, nm in all_calls(ctx, cr):
        if nm == CORE:
            for key in ("shuffle", "cases", "combos", "constants"):
                v = arg(c, None, key)
                if v is None or norm(v) != key:
                    rr.bad(ctx.finding(rid, cr, c, "case_runner does not forward %s to the core" % key, construct="case_runner-forward " + key), "case_runner %s" % key)
                else:
                    rr.ok("case_runner forwards %s" % key)
    return rr


def sequential_rule(ctx, rid):
    rr = ctx.rule(rid, "stateful Sower / Reaper callables are swept sequentially", floor=4)
    crop = ctx.prog.need_cls(CROP + ".Crop")
    n = 0
    for name in ("sow_combos", "sow_cases", "reap_combos", "reap_combos_to_ds"):
        m = crop.methods.get(name)
        need(m is not None, "anchor lost: Crop." + name)
        ctx.touch(m)
        for nd, c, nm in all_calls(ctx, m):
            if nm in (CORE, CR + ".combo_runner_to_ds", "xyzpy.gen.case_runner.case_runner"):
                n += 1
                par = [k for k in c.keywords if k.arg in ("parallel", "num_workers", "executor") and not (isinstance(k.value, ast.Constant) and not k.value.value)]
                star = [k for k in c.keywords if k.arg is None]
                if par or star:
                    rr.bad(ctx.finding(rid, m, c, "%s sweeps its stateful %s with %s: calls may run concurrently / out of order, so batches are cut or results consumed in the wrong order"
                                       % (name, "Sower" if name.startswith("sow") else "Reaper", ", ".join(k.arg or "**opts" for k in par + star)), construct="stateful-parallel"), "%s sequential" % name)
                else:
                    rr.ok("%s: enumerator called without parallel / num_workers / executor" % name)
    return rr


def grow_order_rule(ctx, rid):
    rr = ctx.rule(rid, "grow(): the written tuple is aligned with the loaded batch (sequential and pooled)", floor=2)
    grow = ctx.prog.need_func(CROP + ".grow")
    g = build_cfg(grow.node)
    wr = [(n, c) for n, c, nm in all_calls(ctx, grow, g) if nm == CROP + ".write_to_disk"]
    need(len(wr) == 1, "anchor lost: grow() writes %d files" % len(wr))
    wn, wc = wr[0]
    data = wc.args[0]
    for nw, label in ((NONE, "sequential"), (NOTNONE, "pooled")):
        class GInter(OrderInter):
            def call_hook(self, flow, call, name, env):
                if name == CROP + ".read_from_disk" and call.args and "cases_file" in norm(call.args[0]):
                    return seq(("E", "batch"), "case")
                return super().call_hook(flow, call, name, env)
        inter = GInter(ctx)
        fl = inter.flow(grow, {"num_workers": nw, "fn": ("obj", "fn"), "crop": ("obj", "crop"), "verbosity": ("c", 1), "check_mpi": FALSE})
        env = fl.IN.get(wn.id)
        need(env is not None, "grow(): result write unreachable in the %s configuration" % label)
        sub = Flow(fl.cfg)
        from ..order import OrderFlow
        v = OrderFlow(inter, grow, {}).eval(data, env.copy())
        for (sfi, call, a, b, ok, st) in inter.sinks:
            if not ok:
                rr.bad(ctx.finding(rid, sfi, call, "`%s` pairs sequences in different orders in the %s branch" % (norm(call), label), construct="grow-misaligned " + norm(call)), "grow sinks %s" % label)
        if is_seq(v) and v[1] == ("E", "batch"):
            rr.ok("grow() %s: written %s is in batch order (%s)" % (label, norm(data), v[2]))
        elif is_seq(v) and v[1] == "UNK":
            raise AnalysisError("grow() %s: unrecognised transformation of the result sequence" % label)
        else:
            why = inter.destroyed[0][2] if inter.destroyed else "order not preserved"
            nd = inter.destroyed[0][1] if inter.destroyed else data
            rr.bad(ctx.finding(rid, grow, nd, "in the %s branch of grow() the results are written in %s, not in the order of the batch's cases (%s): the Reaper hands them to the wrong settings" % (label, sweep.describe_order(v[1]) if is_seq(v) else "an untracked order", why),
                               construct="grow-order " + label), "grow order %s" % label)
    return rr


def picklelib_rule(ctx, rid):
    rr = ctx.rule(rid, "pickling library: default importable on some path; to_pickle / from_pickle agree", floor=2)
    prog = ctx.prog
    gp = prog.need_func(CROP + ".get_picklelib")
    tp = prog.need_func(CROP + ".to_pickle")
    fp = prog.need_func(CROP + ".from_pickle")
    for f in (gp, tp, fp):
        ctx.touch(f)
    defaults = {}
    for f in (gp, tp, fp):
        d = f.defaults().get("picklelib")
        need(d is not None and isinstance(d, ast.Constant) and isinstance(d.value, str), "idiom changed: %s has no literal picklelib default" % f.name)
        defaults[f.name] = d.value
    if len(set(defaults.values())) != 1:
        rr.bad(ctx.finding(rid, tp, tp.node, "to_pickle / from_pickle / get_picklelib default to different libraries: %s" % defaults, construct="picklelib-defaults"), "same default")
    else:
        rr.ok("one default pickling library: %r" % defaults["to_pickle"])
    lib = defaults["get_picklelib"]

    class ImpFlow(Flow):
        def __init__(s, cfg, init):
            super().__init__(cfg, init)
            s.failed = set()
            s.imports = []

        def edge(s, node, label, env):
            if label != "exc":
                for c in node_calls(node):
                    if callee_name(ctx, gp, c) == "importlib.import_module" and c.args:
                        v = s.eval(c.args[0], env)
                        if v[0] == "c" and isinstance(v[1], str):
                            ok = base_rules.module_available(v[1])
                            s.imports.append((v[1], ok))
                            if not ok:
                                return None      # the call raises ImportError: no normal successor
            return super().edge(node, label, env)
    g = build_cfg(gp.node)
    fl = ImpFlow(g, {"picklelib": ("c", lib)})
    fl.run()
    if g.exit.id in fl.IN:
        rr.ok("get_picklelib(%r) reaches a normal return; imports tried: %s" % (lib, fl.imports))
    else:
        rr.bad(ctx.finding(rid, gp, gp.node, "no path through get_picklelib imports successfully for the default %r in this environment (tried %s): every sow / grow / reap raises ModuleNotFoundError" % (lib, fl.imports), construct="picklelib-unimportable"), "default importable")
    return rr


def replayable_rule(ctx, rid):
    rr = ctx.rule(rid, "the enumeration is replayable across processes: seeded by the shuffle value alone, no set-order dependence", floor=3)
    core = ctx.prog.need_func(CORE)
    g = build_cfg(core.node)
    ctx.touch(core, g)
    # the shuffle may live in the core or in a helper it calls
    cands = [core] + [f for f in ctx.res.slice([core]) if f.module is core.module and f is not core]
    found = 0
    for fn in cands:
        fg = build_cfg(fn.node)
        sh = [(n, c) for n, c, nm in all_calls(ctx, fn, fg) if nm == "random.shuffle"]
        sd = [(n, c) for n, c, nm in all_calls(ctx, fn, fg) if nm == "random.seed"]
        for n, c in sh:
            found += 1
            ctx.touch(fn, fg)
            seed_names = {"random", "int", "seed", "shuffle"} | set(fn.params)
            good = [s for s, sc in sd if fg.completes_before(s.id, n.id) and names_in(sc) <= seed_names and (names_in(sc) & (set(fn.params) | {"shuffle"}))]
            if not good:
                rr.bad(ctx.finding(rid, fn, c, "random.shuffle is not preceded on every path by random.seed(<function of the shuffle value only>): sower and reaper processes draw different permutations", construct="shuffle-unseeded"), "seed dominates shuffle")
                continue
            s = good[0]
            # the seed argument must be the caller's shuffle value when in a helper
            if fn is not core:
                sa = names_in(sd[0][1]) & set(fn.params)
                okp = False
                for cf, cc in ctx.res.callers_of(fn, within=[core]):
                    from ..callgraph import bind_call
                    b, _, _ = bind_call(cc, fn)
                    if all(p_ in b and norm(b[p_]) == "shuffle" for p_ in sa):
                        okp = True
                if not okp:
                    rr.bad(ctx.finding(rid, fn, sd[0][1], "the seed passed to %s is not the shuffle value" % fn.name, construct="seed-arg"), "seed from shuffle")
                    continue
            between = fg.reachable(start=s.id, blocked_nodes=[n.id]) - {s.id}
            other = [x for x in between for cc in node_calls(fg.nodes[x]) if callee_name(ctx, fn, cc).startswith("random.") or callee_name(ctx, fn, cc).startswith("numpy.random")]
            if other:
                rr.bad(ctx.finding(rid, fn, fg.nodes[other[0]].stmt, "the random generator is used between seeding and shuffling", construct="random-between"), "nothing between seed and shuffle")
            else:
                rr.ok("%s: random.seed(int(<shuffle value>)) completes before random.shuffle with no other draw in between" % fn.name)
    if not found:
        rr.ok("no shuffle in the core")
        return rr
    # no iteration over a set feeds settings / locs
    bad = []
    for n in g.nodes:
        if n.kind == "for":
            it = n.ast.iter
            if isinstance(it, ast.Call) and isinstance(it.func, ast.Name) and it.func.id in ("set", "frozenset"):
                body_txt = " ".join(norm(s) for s in n.ast.body)
                if "settings.append" in body_txt or "locs.append" in body_txt:
                    bad.append(n)
    for v in ("case_values", "combo_values", "cases"):
        for nd, e in assignments_to(core, v, g):
            if e is not None and isinstance(e, ast.Call) and isinstance(e.func, ast.Name) and e.func.id in ("set", "frozenset"):
                bad.append(nd)
    if bad:
        rr.bad(ctx.finding(rid, core, bad[0].stmt, "the settings are enumerated by iterating over a set: hash order differs between the sowing and the reaping process", construct="enumerate-set"), "no set order")
    else:
        rr.ok("settings / locations are not enumerated from a set")
    sc = ctx.prog.need_func(CROP + ".Crop.sow_combos")
    srt = [n for n in walk_shallow(sc.node) if isinstance(n, ast.Assign) and norm(n.targets[0]) == "combos" and isinstance(n.value, ast.Call) and norm(n.value.func) == "sorted"]
    if srt and norm(srt[0].value) == "sorted(combos, key=lambda x: x[0])":
        rr.ok("sow_combos sorts combos by argument name before persisting / enumerating")
    else:
        rr.note("sow_combos does not sort combos by name (order then relies on the persisted tuple)")
        rr.ok("sow_combos: persisted combos order is the enumerated order")
    return rr


def fresh_settings_rule(ctx, rid):
    """The settings record is read from disk in every call of load_info: the
    crop may have been re-sown (by this object or by another process) since
    the last read, and reaping replays the enumeration and labels the results
    from exactly this record."""
    rr = ctx.rule(rid, "Crop.load_info reads the settings file on every call (no memoised copy survives a re-sow)", floor=1)
    f = ctx.prog.need_cls(CROP + ".Crop").methods.get("load_info")
    need(f is not None, "anchor lost: Crop.load_info")
    g = build_cfg(f.node)
    ctx.touch(f, g)
    reads = [n for n, c, nm in all_calls(ctx, f, g) if nm == CROP + ".read_from_disk"]
    need(reads, "anchor lost: load_info does not read the settings file")
    rets = [n for n in g.nodes if n.kind == "stmt" and isinstance(n.ast, ast.Return) and n.ast.value is not None]
    need(rets, "anchor lost: load_info returns nothing")
    avoid = g.reachable(blocked_nodes=[r.id for r in reads])
    stale = [r for r in rets if r.id in avoid and r.id not in {x.id for x in reads}]
    if stale:
        rr.bad(ctx.finding(rid, f, stale[0].ast, "load_info can return `%s` without reading the settings file in this call: after a re-sow (or a sow by another process) the reap replays and labels with the previous sow's cases, constants and farmer" % norm(stale[0].ast.value),
                           construct="settings-memoised"), "fresh settings")
    else:
        rr.ok("every return of load_info is preceded by read_from_disk(settings file) in the same call")
    return rr


def fresh_function_rule(ctx, rid):
    """grow() takes the function of a crop from the crop's function file in every call: a per-process memo keyed by the
    path outlives the crop (same name, same folder, another function) and re-used workers grow the previous function."""
    from ..util import calls_transitive, is_memoised, callee_func
    rr = ctx.rule(rid, "grow(): the crop's function file is read in the call that uses it (no memoised copy survives a new crop at the same path)", floor=1)
    f = ctx.prog.need_func(CROP + ".grow")
    ctx.touch(f)
    cands = []
    for n in walk_shallow(f.node):
        if isinstance(n, ast.Assign) and isinstance(n.targets[0], ast.Name) and n.targets[0].id == f.positional[2] if len(f.positional) > 2 else False:
            cands.append(n)
    fnp = [p for p in f.params if p == "fn"]
    need(fnp, "idiom changed: grow() has no fn parameter")
    loads = [n for n in walk_shallow(f.node) if isinstance(n, ast.Assign) and isinstance(n.targets[0], ast.Name) and n.targets[0].id == "fn"]
    need(loads, "anchor lost: grow() never loads the function")
    for n in loads:
        allc = calls_transitive(ctx, f, n.value)
        fresh = calls_transitive(ctx, f, n.value, skip_memoised=True)
        if CROP + ".read_from_disk" in fresh:
            rr.ok("grow(): `%s` reads the function file in this call" % norm(n)[:60])
        elif CROP + ".read_from_disk" in allc:
            rr.bad(ctx.finding(rid, f, n, "grow() takes the function from a memoised loader (`%s`): the copy is keyed by the file path and kept for the life of the process, so after the crop is reaped and a new crop with another function is sown at the same "
                               "name and folder, a re-used worker (or the same session) grows the *previous* function and its results are reaped as the new crop's" % norm(n.value)[:60], construct="function-memoised"), "fresh function")
        elif "self" in norm(n.value) or "crop." in norm(n.value):
            rr.ok("grow(): function taken from the crop object (`%s`)" % norm(n.value)[:50])
        else:
            raise AnalysisError("idiom changed: how grow() obtains the function (`%s`)" % norm(n.value)[:60])
    # every evaluation in grow() runs that function: fn(**case) directly, or handed to the executor / a helper as `fn`
    subs = [c for c in walk_shallow(f.node) if isinstance(c, ast.Call) and isinstance(c.func, ast.Attribute) and c.func.attr in ("submit", "apply_async", "map") and c.args]
    for c in subs:
        first = c.args[0]
        if isinstance(first, ast.Name) and first.id == "fn":
            rr.ok("grow(): `%s` hands the resolved function to the executor" % norm(c)[:50])
        elif any(isinstance(a_, ast.Name) and a_.id == "fn" for a_ in list(c.args[1:]) + [k.value for k in c.keywords]):
            rr.ok("grow(): `%s` passes the resolved function on" % norm(c)[:50])
        else:
            rr.bad(ctx.finding(rid, f, c, "on the parallel path grow() submits `%s`, which does not receive the function grow() resolved (`fn`, given by the caller or loaded for this crop): an explicitly given function is ignored there and the workers run "
                               "whatever they load themselves, so parallel and sequential growing of one batch can record different results" % norm(c)[:60], construct="parallel-other-function"), "one function")
    return rr


def run(ctx):
    persist_replay_rule(ctx, "C04.R1")
    sequential_rule(ctx, "C04.R2")
    grow_order_rule(ctx, "C04.R3")
    rr1, f = batching.sower_machine_rule(ctx, "C04.R4a")
    rr1.title = "(= C07.R1) Sower writes ids 1..B, each setting once"
    batching.id_universe_rule(ctx, "C04.R4")
    shared.naming_rule(ctx, "C04.R5")
    picklelib_rule(ctx, "C04.R6")
    replayable_rule(ctx, "C04.R7")
    fresh_settings_rule(ctx, "C04.R9")
    fresh_function_rule(ctx, "C04.R10")
    from . import c11
    c11.publication_rule(ctx, "C04.R8", title="crop files (settings, function, batches, results) are published by write-temporary, close, rename: no process ever loads a partly written file")
    prog = ctx.prog
    crop = prog.need_cls(CROP + ".Crop")
    sl = [crop.methods[n] for n in ("__init__", "sow_combos", "sow_cases", "sow_samples", "prepare", "save_info", "load_info", "_sync_info_from_disk", "save_function_to_disk",
                                    "load_function", "grow", "grow_missing", "reap_combos", "reap_combos_to_ds", "is_prepared", "ensure_dirs_exists", "parse_constants") if n in crop.methods]
    sl += [prog.need_func(CROP + "." + n) for n in ("grow", "write_to_disk", "read_from_disk", "get_picklelib", "to_pickle", "from_pickle", "parse_crop_details", "parse_fn_farmer")]
    sl += list(prog.need_cls(CROP + ".Sower").methods.values()) + list(prog.need_cls(CROP + ".Reaper").methods.values())
    sl += list(prog.need_func(CROP + ".Reaper.__init__").nested.values())
    base_rules.run_link_rules(ctx, "C04", sl)
