"""C19 -- running statistics equal the statistics of the whole sample."""
import ast

from ..loader import AnalysisError, norm, walk_shallow
from ..cfg import build_cfg, node_calls
from ..affine import Lin, constraints, NotAffine
from ..poly import V, K, Rat, run_straight_line, run_stmts, NotPoly, ev as pev
from ..util import callee_name, all_calls, arg, need, single_def, names_in
from .. import base_rules

U = "xyzpy.utils"
LEVEL = "other"
CLAIM = {
    "text": ("(R1) Exactness over the reals by induction, as machine-checked polynomial identities: the straight-line bodies of RunningStatistics.update and RunningCovariance.update are translated to rational functions of "
             "(n, S1, S2, x) resp. (n, Sx, Sy, Sxy, x, y) under the invariant count = n, mean = S1/n, M2 = S2 - S1^2/n (C = Sxy - Sx*Sy/n) and must normalise to the invariant at n + 1; base case = initial state; var, covar, sample_covar "
             "normalise to their textbook forms; std / err are the stated roots; update_from_it calls update exactly once per element / pair in order (or, when written as a loop over local copies of the accumulators, that loop is verified by the same identities: locals start as the accumulators, one iteration maps the invariant at n to n + 1, every accumulator receives its own value back); the RunningCovarianceMatrix index bookkeeping is evaluated for n = 1..4 on symbolic data by the analyser's own interpreter: one accumulator per unordered pair, each fed exactly once per update / update_from_it with its own two series, every matrix entry read from the accumulator of its pair; the matrix fill is symmetric. Because the invariant is a function of the multiset of inputs this gives "
             "'any chunking, any order' over the reals. (R2) Conditioning: a translation-type system (LOC / INV / CNT) shows the data enter the second-moment accumulators only through differences from a running location -- a sum-of-raw-squares formulation is algebraically exact, "
             "passes R1 and the tests, and is rejected here; methods with their own arithmetic are also typed from the empty state, where the 'running location' is still the constant 0 (a first chunk must not be summed as raw squares). (R3) Stopping rule: every exit of the sampling loop is the convergence break (guarded by the sample floor and converged(rtol, tol_scale*rtol) with the arguments in the callee's order), the limit break in the "
             "linear normal form i + 1 >= max_samples, or the keyboard interrupt; each drawn value reaches rs.update exactly once before any exit test. (R4) instances share no mutable state. Not decided: floating-point error bounds as such."),
    "note": "Trusted base: the translation table ast -> rational functions (xyzsa/poly.py) and exact Fraction arithmetic; real-number semantics of + - * /; ** 0.5 is the square root.",
    "technique": "static analysis: value-numbering of straight-line code as rational functions with identity checking by cross-multiplication (no solver), a 4-point translation-type system, CFG path rules with linear-form normalisation",
}
EXPLANATION = "D-POLY induction obligations on update bodies and derived properties; D-SHIFT typing of every store to second-moment accumulators; CFG / linear-form rules on estimate_from_repeats; mutable-default rule on the statistics classes."
ASSUMPTIONS = ["inputs are finite reals; floating point only perturbs the exact identities (R2 is the structural surrogate for accuracy relative to the data scale)"]
NOT_DECIDED = ["(V) floating-point error bounds as such"]


def induction_rule(ctx, rid):
    rr = ctx.rule(rid, "Welford updates preserve the whole-sample invariant (polynomial identities); derived quantities are the textbook forms", floor=8)
    prog = ctx.prog
    rs = prog.need_cls(U + ".RunningStatistics")
    rc = prog.need_cls(U + ".RunningCovariance")
    n, S1, S2, x = V("n"), V("S1"), V("S2"), V("x")
    up = rs.methods.get("update")
    need(up is not None, "anchor lost: RunningStatistics.update")
    ctx.touch(up)
    need(len(up.positional) == 2, "idiom changed: RunningStatistics.update signature")
    xp = up.positional[1]

    def ob(rid_, fi, what, f):
        try:
            ok = f()
        except NotPoly as e:
            raise AnalysisError("%s: %s" % (what, e))
        except KeyError as e:
            raise AnalysisError("%s: state attribute %s not found" % (what, e))
        if ok:
            rr.ok(what)
        else:
            rr.bad(ctx.finding(rid_, fi, fi.node, "obligation fails as a polynomial identity: %s -- the running value is no longer the statistic of the whole sample" % what, construct="identity " + what[:60]), what)
    inv = {"self.count": n, "self.mean": S1 / n, "self.M2": S2 - S1 * S1 / n, xp: x}
    out = {}

    def step():
        out.update(run_straight_line(up.node, inv))
        return True
    ob(rid, up, "RunningStatistics.update is straight-line rational code", step)
    ob(rid, up, "count' = n + 1", lambda: out["self.count"] == n + K(1))
    ob(rid, up, "mean' = (S1 + x) / (n + 1)", lambda: out["self.mean"] == (S1 + x) / (n + K(1)))
    ob(rid, up, "M2' = (S2 + x^2) - (S1 + x)^2 / (n + 1)", lambda: out["self.M2"] == (S2 + x * x) - (S1 + x) * (S1 + x) / (n + K(1)))
    # base case from __init__
    init = rs.methods.get("__init__")
    i0 = run_straight_line(init.node, {})
    ob(rid, init, "initial state count=0, mean=0, M2=0", lambda: i0["self.count"] == K(0) and i0["self.mean"] == K(0) and i0["self.M2"] == K(0))
    b = {}
    ob(rid, up, "first update from the initial state: mean = x, M2 = 0, count = 1", lambda: (b.update(run_straight_line(up.node, {"self.count": K(0), "self.mean": K(0), "self.M2": K(0), xp: x})) or True)
       and b["self.mean"] == x and b["self.M2"] == K(0) and b["self.count"] == K(1))
    # derived
    def prop_expr(cls, name):
        m = cls.methods.get(name)
        need(m is not None, "anchor lost: %s.%s" % (cls.name, name))
        ctx.touch(m)
        rets = [s for s in ast.walk(m.node) if isinstance(s, ast.Return) and not (isinstance(s.value, ast.Attribute) and norm(s.value) == "np.inf")]
        need(len(rets) == 1, "idiom changed: %s.%s returns" % (cls.name, name))
        return m, rets[0].value
    # the 'no data yet' guard of a derived quantity holds for count == 0 only: for every count >= 1 the formula is returned
    from ..util import IntEval
    for pname_ in ("var", "std", "err"):
        pm_ = rs.methods.get(pname_)
        need(pm_ is not None, "anchor lost: RunningStatistics.%s" % pname_)
        for st_ in walk_shallow(pm_.node):
            if isinstance(st_, ast.If) and any(isinstance(b_, ast.Return) and norm(b_.value) in ("np.inf", "numpy.inf", "float('inf')", "math.inf") for b_ in st_.body):
                try:
                    vals_ = {c_: bool(IntEval({"self.count": c_}).ev(st_.test, {})) for c_ in (0, 1, 2, 3, 7)}
                except AnalysisError as ex_:
                    raise AnalysisError("RunningStatistics.%s: guard `%s` cannot be evaluated (%s)" % (pname_, norm(st_.test), ex_))
                if vals_ == {0: True, 1: False, 2: False, 3: False, 7: False}:
                    rr.ok("%s: `%s` answers inf for an empty accumulator only" % (pname_, norm(st_.test)))
                else:
                    rr.bad(ctx.finding(rid, pm_, st_.test, "RunningStatistics.%s returns inf when `%s`, which holds for count in %s: for those sample sizes the %s of the sample is not reported" % (
                        pname_, norm(st_.test), sorted(c_ for c_, v_ in vals_.items() if v_), pname_), construct="empty-guard " + pname_), "%s guard" % pname_)
    m, e = prop_expr(rs, "var")
    ob(rid, m, "var = M2 / count (population variance)", lambda: pev(e, {"self.M2": V("M2"), "self.count": n}) == V("M2") / n)
    m, e = prop_expr(rs, "std")
    if norm(e) in ("self.var ** 0.5", "np.sqrt(self.var)", "math.sqrt(self.var)"):
        rr.ok("std = sqrt(var)")
    else:
        rr.bad(ctx.finding(rid, m, e, "std is `%s`, not the square root of var" % norm(e), construct="std-form"), "std")
    m, e = prop_expr(rs, "err")
    if norm(e) in ("self.std / self.count ** 0.5", "self.std / np.sqrt(self.count)", "self.std / math.sqrt(self.count)"):
        rr.ok("err = std / sqrt(count)")
    else:
        rr.bad(ctx.finding(rid, m, e, "err is `%s`, not std / sqrt(count)" % norm(e), construct="err-form"), "err")
    # covariance
    upc = rc.methods.get("update")
    need(upc is not None and len(upc.positional) == 3, "anchor lost: RunningCovariance.update")
    ctx.touch(upc)
    Sx, Sy, Sxy, y = V("Sx"), V("Sy"), V("Sxy"), V("y")
    xq, yq = upc.positional[1], upc.positional[2]
    inv2 = {"self.count": n, "self.xmean": Sx / n, "self.ymean": Sy / n, "self.C": Sxy - Sx * Sy / n, xq: x, yq: y}
    o2 = {}
    ob(rid, upc, "RunningCovariance.update is straight-line rational code", lambda: (o2.update(run_straight_line(upc.node, inv2)) or True))
    ob(rid, upc, "xmean', ymean' = (Sx + x)/(n+1), (Sy + y)/(n+1); count' = n + 1", lambda: o2["self.xmean"] == (Sx + x) / (n + K(1)) and o2["self.ymean"] == (Sy + y) / (n + K(1)) and o2["self.count"] == n + K(1))
    ob(rid, upc, "C' = (Sxy + x*y) - (Sx + x)(Sy + y)/(n + 1)", lambda: o2["self.C"] == (Sxy + x * y) - (Sx + x) * (Sy + y) / (n + K(1)))
    ic = run_straight_line(rc.methods["__init__"].node, {})
    ob(rid, rc.methods["__init__"], "covariance initial state 0", lambda: ic["self.count"] == K(0) and ic["self.xmean"] == K(0) and ic["self.ymean"] == K(0) and ic["self.C"] == K(0))
    m, e = prop_expr(rc, "covar")
    ob(rid, m, "covar = C / count", lambda: pev(e, {"self.C": V("C"), "self.count": n}) == V("C") / n)
    m, e = prop_expr(rc, "sample_covar")
    ob(rid, m, "sample_covar = C / (count - 1)", lambda: pev(e, {"self.C": V("C"), "self.count": n}) == V("C") / (n - K(1)))
    # one update per element / pair
    for cls, mname, pat in ((rs, "update_from_it", None), (rc, "update_from_it", None)):
        m = cls.methods.get(mname)
        need(m is not None, "anchor lost: %s.%s" % (cls.name, mname))
        ctx.touch(m)
        body = [s for s in m.node.body if not (isinstance(s, ast.Expr) and isinstance(s.value, ast.Constant))]
        ok = False
        upd_names = {"self.update"}
        while body and isinstance(body[0], ast.Assign) and len(body[0].targets) == 1 and isinstance(body[0].targets[0], ast.Name) and norm(body[0].value) == "self.update":
            upd_names.add(body[0].targets[0].id)      # bound-method alias
            body = body[1:]
        if len(body) == 1 and isinstance(body[0], ast.For) and len(body[0].body) == 1 and isinstance(body[0].body[0], ast.Expr) and isinstance(body[0].body[0].value, ast.Call):
            c = body[0].body[0].value
            lp = body[0]
            if norm(c.func) in upd_names:
                if cls is rs and norm(lp.iter) == m.positional[1] and [norm(a) for a in c.args] == [norm(lp.target)]:
                    ok = True
                if cls is rc and norm(lp.iter) == "zip(%s, %s)" % (m.positional[1], m.positional[2]) and "(%s)" % ", ".join(norm(a) for a in c.args) == norm(lp.target):
                    ok = True
        if ok:
            rr.ok("%s.%s: self.update once per element, in order" % (cls.name, mname))
        elif _chunk_loop(ctx, rid, rr, cls, m, *( (inv, {"self.count": n + K(1), "self.mean": (S1 + x) / (n + K(1)), "self.M2": (S2 + x * x) - (S1 + x) * (S1 + x) / (n + K(1))}, [x]) if cls is rs else
                                                   (inv2, {"self.count": n + K(1), "self.xmean": (Sx + x) / (n + K(1)), "self.ymean": (Sy + y) / (n + K(1)), "self.C": (Sxy + x * y) - (Sx + x) * (Sy + y) / (n + K(1))}, [x, y]) )):
            pass
        else:
            # a different algorithm: its stores to the accumulators are typed by R2; here it is not the per-element loop
            rr.note("%s.%s is not the per-element loop over update(); its own stores are typed by R2 and, if well-conditioned, the run ends as analysis-incomplete (exactness of a chunk merge is not established by R1)" % (cls.name, mname))
            ctx.extra.setdefault("unverified_chunk_merge", []).append("%s.%s" % (cls.name, mname))
            rr.ok("%s.%s: not the per-element loop (deferred to R2)" % (cls.name, mname))
    # matrix: finite-window evaluation of the index bookkeeping (n = 1..4)
    mx = prog.need_cls(U + ".RunningCovarianceMatrix")
    from .c19_matrix import check_matrix
    check_matrix(ctx, rid, rr, mx)
    return rr


# ---------------------------------------------------------------- D-SHIFT
def _chunk_loop(ctx, rid, rr, cls, m, inv, nxt, elems):
    """update_from_it written as: copy the accumulators into locals, one loop
    over the elements with straight-line rational arithmetic, write the
    locals back.  Verified by the same polynomial identities as update():
    (a) the locals start as the accumulators, (b) one iteration takes the
    whole-sample invariant at n to the invariant at n + 1, (c) the write-back
    stores each accumulator's own invariant.  Returns False when the method
    does not have this shape (nothing is claimed then)."""
    body = [s for s in m.node.body if not (isinstance(s, ast.Expr) and isinstance(s.value, ast.Constant))]
    loops = [i for i, s in enumerate(body) if isinstance(s, ast.For)]
    if len(loops) != 1 or body[loops[0]].orelse:
        return False
    lp = body[loops[0]]
    pre, post = body[:loops[0]], body[loops[0] + 1:]
    params = m.positional[1:]
    if len(params) != len(elems):
        return False
    if len(elems) == 1:
        if norm(lp.iter) != params[0] or not isinstance(lp.target, ast.Name):
            return False
        tnames = [lp.target.id]
    else:
        if norm(lp.iter) != "zip(%s)" % ", ".join(params) or not isinstance(lp.target, ast.Tuple) or len(lp.target.elts) != len(elems) or not all(isinstance(t, ast.Name) for t in lp.target.elts):
            return False
        tnames = [t.id for t in lp.target.elts]
    attrs = [k for k in inv if k.startswith("self.")]
    what = "%s.%s" % (cls.name, m.name)
    try:
        env0 = {k: v for k, v in inv.items() if k.startswith("self.")}
        env1 = run_stmts(pre, env0)
        mirror = {}
        for name, val in env1.items():
            if not name.startswith("self."):
                for a in attrs:
                    if val == inv[a]:
                        mirror.setdefault(name, a)
        state = dict(mirror)
        state.update({a: a for a in attrs})
        env_in = dict(env1)
        for t, sym in zip(tnames, elems):
            env_in[t] = sym
        env2 = run_stmts(lp.body, env_in)
        written = {k for k in env2 if k in state and not (env2[k] == env_in.get(k))}
        if not written:
            return False
        bad = [k for k in written if not (env2[k] == nxt[state[k]])]
        if bad:
            rr.bad(ctx.finding(rid, m, lp, "%s: one iteration of the chunk loop does not take `%s` (the copy of %s) from the whole-sample value at n to the value at n + 1 (polynomial identity fails)" % (what, bad[0], state[bad[0]]), construct="chunk-step " + state[bad[0]]), "%s step" % what)
        else:
            rr.ok("%s: one loop iteration maps the whole-sample invariant at n to n + 1 for %s" % (what, sorted(written)))
        # write-back: accumulators not advanced inside the loop are stale until stored
        env3 = dict(env1)
        for a in attrs:
            if a not in written:
                env3[a] = V("stale_" + a.split(".")[1])
        env4 = run_stmts(post, env3)
        stale = [a for a in attrs if not (env4[a] == inv[a])]
        advanced = [k for k in written]
        covered = {state[k] for k in advanced}
        if covered != set(attrs):
            rr.bad(ctx.finding(rid, m, lp, "%s: the chunk loop advances %s but not %s" % (what, sorted(covered), sorted(set(attrs) - covered)), construct="chunk-missing " + sorted(set(attrs) - covered)[0]), "%s covers all accumulators" % what)
        elif stale:
            rr.bad(ctx.finding(rid, m, post[0] if post else lp, "%s: after the loop `%s` does not receive its own running value (it is stored from another quantity or left stale): every later update and the reported covariance / mean are wrong" % (what, stale[0]), construct="chunk-writeback " + stale[0]), "%s write-back" % what)
        else:
            rr.ok("%s: every accumulator receives its own running value after the loop" % what)
    except NotPoly as e:
        raise AnalysisError("%s: chunk loop is not straight-line rational code (%s)" % (what, e))
    except KeyError as e:
        raise AnalysisError("%s: chunk loop refers to unknown state %s" % (what, e))
    return True


def shift_type(e, env, ctx=None, fi=None):
    """LOC (moves with a common shift of the data), INV (invariant), CNT
    (counts / constants), RAW2 (quadratic in the shift), OTHER."""
    if isinstance(e, ast.Constant):
        return "CNT"
    k = norm(e)
    if k in env:
        return env[k]
    if isinstance(e, ast.Name):
        return env.get(e.id, "OTHER")
    if isinstance(e, ast.UnaryOp):
        return shift_type(e.operand, env, ctx, fi)
    if isinstance(e, ast.BinOp):
        a, b = shift_type(e.left, env, ctx, fi), shift_type(e.right, env, ctx, fi)
        if "CANCEL" in (a, b):
            return "CANCEL"
        if isinstance(e.op, ast.Sub):
            if a == "LOC" and b == "LOC":
                return "INV"
            if a == "LOC" and b in ("INV", "CNT"):
                return "LOC"
            if a == "CNT" and b == "LOC":
                return "LOC"
            if a == "INV" and b == "INV":
                return "INV"
            if a == "INV" and b == "CNT" or a == "CNT" and b == "INV":
                return "INV"
            if a == "CNT" and b == "CNT":
                return "CNT"
            if "RAW2" in (a, b):
                return "CANCEL"
            return "OTHER"
        if isinstance(e.op, ast.Add):
            if {a, b} == {"LOC", "INV"} or {a, b} == {"LOC", "CNT"}:
                return "LOC"
            if a == b and a in ("INV", "CNT"):
                return a
            if {a, b} == {"INV", "CNT"}:
                return "INV"
            if "RAW2" in (a, b):
                return "RAW2"
            return "OTHER"
        if isinstance(e.op, ast.Mult):
            if a == "LOC" and b == "LOC":
                return "RAW2"
            if {a, b} <= {"INV", "CNT"}:
                return "INV" if "INV" in (a, b) else "CNT"
            if "RAW2" in (a, b) or {a, b} == {"LOC", "CNT"}:
                return "RAW2" if "RAW2" in (a, b) else "NLOC"
            if {a, b} == {"NLOC", "LOC"} or (a == "NLOC" and b == "NLOC"):
                return "RAW2"
            return "OTHER"
        if isinstance(e.op, ast.Div):
            if b == "CNT":
                return a if a in ("INV", "LOC", "CNT", "RAW2") else ("LOC" if a == "NLOC" else "OTHER")
            return "OTHER"
        if isinstance(e.op, ast.Pow):
            if isinstance(e.right, ast.Constant) and e.right.value == 2:
                return {"LOC": "RAW2", "INV": "INV", "CNT": "CNT"}.get(a, "OTHER")
            return a if a in ("INV", "CNT") else "OTHER"
    if isinstance(e, ast.Call):
        f = norm(e.func)
        args = [shift_type(a, env, ctx, fi) for a in e.args]
        recv = shift_type(e.func.value, env, ctx, fi) if isinstance(e.func, ast.Attribute) else None
        base = f.rsplit(".", 1)[-1]
        if base in ("len", "size"):
            return "CNT"
        if base in ("sum", "nansum"):
            t = args[0] if args and f.startswith(("np.", "numpy.", "sum", "math.")) else recv
            return {"INV": "INV", "RAW2": "RAW2", "LOC": "NLOC", "CNT": "CNT"}.get(t, "OTHER")
        if base in ("mean", "nanmean", "average", "median"):
            t = args[0] if args and f.startswith(("np.", "numpy.", "statistics.")) else recv
            return t if t in ("LOC", "INV", "RAW2") else "OTHER"
        if base in ("asarray", "array", "float", "list", "tuple", "fromiter", "asanyarray"):
            return args[0] if args else "OTHER"
        if base in ("dot", "vdot", "inner") and len(args) == 2:
            return "RAW2" if args == ["LOC", "LOC"] else ("INV" if args == ["INV", "INV"] else "OTHER")
        if base in ("abs", "sqrt"):
            return args[0] if args else "OTHER"
        if base in ("ravel", "flatten", "astype", "copy", "reshape", "squeeze", "tolist", "item") and recv is not None:
            return recv
    if isinstance(e, ast.Attribute) and e.attr in ("size",):
        return "CNT"
    return "OTHER"


def conditioning_rule(ctx, rid):
    rr = ctx.rule(rid, "conditioning: data enter second-moment accumulators only as differences from a running location (no sum of raw squares)", floor=2)
    prog = ctx.prog
    for cname, accs, locs in (("RunningStatistics", {"self.M2"}, {"self.mean"}), ("RunningCovariance", {"self.C"}, {"self.xmean", "self.ymean"})):
        cls = prog.need_cls(U + "." + cname)
        for mname, m in cls.methods.items():
            stores = [s for s in ast.walk(m.node) if isinstance(s, (ast.Assign, ast.AugAssign)) and any(norm(t) in accs for t in (s.targets if isinstance(s, ast.Assign) else [s.target]))]
            if not stores or mname == "__init__":
                continue
            ctx.touch(m)
            passes = [("general state", {l: "LOC" for l in locs})]
            if mname != "update":
                # a method with its own arithmetic: also from the empty state, where the 'running location' is still the constant 0
                # (for update() itself the empty state is covered exactly by R1: M2 / C stay 0 after the first sample)
                passes.append(("empty accumulator (first chunk)", {l: "CNT" for l in locs}))
            for ptag, locenv in passes:
                env = {a: "INV" for a in accs}
                env.update(locenv)
                env["self.count"] = "CNT"
                for p in m.positional[1:]:
                    env[p] = "LOC"
                order = [s for s in ast.walk(m.node) if isinstance(s, (ast.Assign, ast.AugAssign, ast.For))]
                order.sort(key=lambda s: (s.lineno, s.col_offset))
                for s in order:
                    if isinstance(s, ast.For):
                        it = shift_type(s.iter, env)
                        for nm in names_in(s.target):
                            env[nm] = it if it in ("LOC", "INV") else "LOC"
                        continue
                    tg = s.targets[0] if isinstance(s, ast.Assign) else s.target
                    t = shift_type(s.value, env)
                    key = norm(tg)
                    if isinstance(s, ast.AugAssign):
                        cur = env.get(key, "OTHER")
                        if isinstance(s.op, (ast.Add, ast.Sub)):
                            if "CANCEL" in (cur, t):
                                t2 = "CANCEL"
                            elif {cur, t} == {"LOC", "INV"} or {cur, t} == {"LOC", "CNT"}:
                                t2 = "LOC"
                            elif cur == t and t in ("INV", "CNT"):
                                t2 = t
                            elif {cur, t} == {"INV", "CNT"}:
                                t2 = "INV"
                            elif "RAW2" in (cur, t) or "CANCEL" in (cur, t):
                                t2 = "CANCEL" if isinstance(s.op, ast.Sub) else "RAW2"
                            else:
                                t2 = "OTHER"
                        else:
                            t2 = "OTHER"
                        newt = t2
                    else:
                        newt = t
                    if key in accs:
                        if newt == "INV":
                            rr.ok("%s.%s [%s]: `%s` accumulates a shift-invariant quantity" % (cname, mname, ptag, norm(s)[:60]))
                        elif newt in ("RAW2", "CANCEL", "NLOC"):
                            rr.bad(ctx.finding(rid, m, s, "`%s` builds the second moment from raw squares / products of the data (type %s under a common shift of the data; %s) instead of from deviations from the running mean: algebraically exact, but for data with a large offset the subtraction cancels catastrophically and var / std / err are wrong"
                                               % (norm(s)[:80], newt, ptag), construct="raw-squares " + cname + "." + mname), "%s.%s conditioning" % (cname, mname))
                        else:
                            raise AnalysisError("%s.%s: cannot type `%s` under a shift of the data (%s, %s)" % (cname, mname, norm(s)[:60], newt, ptag))
                    env[key] = newt
    return rr


def stopping_rule(ctx, rid):
    rr = ctx.rule(rid, "estimate_from_repeats: exits are the convergence break, the limit break (i + 1 >= max_samples) or the interrupt; one update per draw before any test", floor=5)
    prog = ctx.prog
    f = prog.need_func(U + ".estimate_from_repeats")
    g = build_cfg(f.node)
    ctx.touch(f, g)
    _at = __import__("xyzsa.util", fromlist=["x"]).assignments_to
    counters = {n_.ast.targets[0].id for n_ in g.nodes if n_.kind == "stmt" and isinstance(n_.ast, ast.Assign) and isinstance(n_.ast.targets[0], ast.Name) and norm(n_.ast.value) == "itertools.count()"}
    heads = [n for n in g.nodes if n.kind == "for" and (norm(n.ast.iter) in counters or norm(n.ast.iter) == "itertools.count()")]
    need(len(heads) == 1, "anchor lost: sampling loop")
    H = heads[0]
    REP = norm(H.ast.iter)
    first = [v for _, v in _at(f, REP, g) if v is not None and norm(v) == "itertools.count()"] or ([H.ast.iter] if REP == "itertools.count()" else [])
    need(first, "idiom changed: repeats is not itertools.count()")
    ivar = norm(H.ast.target)
    lp = H.ast
    # per iteration: one draw, one update of it, before any break test
    draws = [(n, c) for n, c, nm in all_calls(ctx, f, g) if isinstance(c.func, ast.Name) and c.func.id == f.positional[0] and getattr(n.stmt, "_parent", None) is lp]
    # the statistics object / the sample list by role (the local bound to RunningStatistics(); the list the draws are appended to)
    rsn = [norm(st_.targets[0]) for st_ in ast.walk(f.node) if isinstance(st_, ast.Assign) and isinstance(st_.value, ast.Call) and norm(st_.value.func).endswith("RunningStatistics") and isinstance(st_.targets[0], ast.Name)]
    need(len(rsn) == 1, "anchor lost: the RunningStatistics object of estimate_from_repeats")
    RS = rsn[0]
    from ..util import callee_func
    for b_ in [n for n in g.nodes if n.kind == "stmt" and isinstance(n.ast, ast.Break)]:
        p_ = getattr(b_.ast, "_parent", None)
        while p_ is not None and p_ is not lp:
            if isinstance(p_, ast.If):
                for c_ in ast.walk(p_.test):
                    if isinstance(c_, ast.Call) and callee_func(ctx, f, c_) is not None and not norm(c_.func).startswith(RS + "."):
                        raise AnalysisError("idiom changed: the stopping test of estimate_from_repeats is delegated to `%s`" % norm(c_.func))
            p_ = getattr(p_, "_parent", None)
    ups = [(n, c) for n, c, nm in all_calls(ctx, f, g) if norm(c.func) == RS + ".update"]
    brks = [n for n in g.nodes if n.kind == "stmt" and isinstance(n.ast, ast.Break)]
    if len(draws) == 1 and len(ups) == 1 and isinstance(draws[0][0].ast, ast.Assign) and norm(ups[0][1].args[0]) == norm(draws[0][0].ast.targets[0]) \
            and g.completes_before(draws[0][0].id, ups[0][0].id) and all(g.dominates(ups[0][0].id, b.id) for b in brks) and getattr(ups[0][0].stmt, "_parent", None) is lp:
        rr.ok("each iteration draws once and feeds that value to rs.update once, before any exit test")
    else:
        rr.bad(ctx.finding(rid, f, ups[0][1] if ups else f.node, "a drawn value does not reach rs.update exactly once before the exit tests (the statistics are not those of exactly the samples drawn, or convergence is tested on stale statistics)", construct="update-per-draw"), "update per draw")
    # samples mode: appended exactly once
    dname = norm(draws[0][0].ast.targets[0]) if draws and isinstance(draws[0][0].ast, ast.Assign) else "x"
    apps = [n for n in g.nodes if n.kind == "stmt" and isinstance(n.ast, ast.Expr) and isinstance(n.ast.value, ast.Call) and isinstance(n.ast.value.func, ast.Attribute) and n.ast.value.func.attr == "append"
            and len(n.ast.value.args) == 1 and norm(n.ast.value.args[0]) == dname]
    def _samples_test(t):
        if isinstance(t, ast.Name):
            d = single_def(f, t.id, g)
            return d is not None and d[1] is not None and _samples_test(d[1])
        return norm(t) in ("get == 'samples'", "'samples' == get")
    if len(apps) == 1 and isinstance(getattr(apps[0].ast, "_parent", None), ast.If) and _samples_test(getattr(apps[0].ast, "_parent").test) and apps[0].ast in getattr(apps[0].ast, "_parent").body:
        rr.ok("samples mode: the drawn value is appended exactly once")
    elif len(apps) == 1 and isinstance(getattr(apps[0].ast, "_parent", None), ast.If) and not isinstance(getattr(apps[0].ast, "_parent").test, ast.Compare) and "get" not in norm(getattr(apps[0].ast, "_parent").test):
        raise AnalysisError("idiom changed: guard of xs.append in estimate_from_repeats: %s" % norm(getattr(apps[0].ast, "_parent").test))
    else:
        rr.bad(ctx.finding(rid, f, f.node, "in samples mode the drawn value is not recorded exactly once", construct="samples-append"), "samples append")
    # classify the breaks
    kinds = {}
    knode = {}
    for b in brks:
        conds = []
        p = getattr(b.ast, "_parent", None)
        while p is not None and p is not lp:
            if isinstance(p, ast.If):
                if isinstance(p.test, ast.BoolOp) and isinstance(p.test.op, ast.And):
                    conds.extend(p.test.values)
                else:
                    conds.append(p.test)
            p = getattr(p, "_parent", None)
        # a test that is a flag variable: read through a single definition, or through the `if` just before that sets it in
        # both arms (`if A: flag = True` / `else: flag = B`  ==  A or B: two exits); otherwise not a shape to classify
        def flag_alternatives(name, holder):
            """the alternatives (each a list of conjuncts) under which `name` is true, from the if-statement that precedes `holder`"""
            blk = None
            par = getattr(holder, "_parent", None)
            for fld in ("body", "orelse", "finalbody"):
                b_ = getattr(par, fld, None)
                if isinstance(b_, list) and holder in b_:
                    blk = b_
            if blk is None or blk.index(holder) == 0:
                return None
            prev = blk[blk.index(holder) - 1]

            def of(stmts):
                # -> list of alternatives, or None
                if len(stmts) == 1 and isinstance(stmts[0], ast.Assign) and norm(stmts[0].targets[0]) == name:
                    v_ = stmts[0].value
                    if isinstance(v_, ast.Constant) and v_.value is True:
                        return [[]]
                    if isinstance(v_, ast.Constant) and v_.value in (False, None):
                        return []
                    return [list(v_.values) if isinstance(v_, ast.BoolOp) and isinstance(v_.op, ast.And) else [v_]]
                if len(stmts) == 1 and isinstance(stmts[0], ast.If):
                    i_ = stmts[0]
                    a_, b2_ = of(i_.body), of(i_.orelse)
                    if a_ is None or b2_ is None:
                        return None
                    tc = list(i_.test.values) if isinstance(i_.test, ast.BoolOp) and isinstance(i_.test.op, ast.And) else [i_.test]
                    if b2_ and any(True for _ in b2_):
                        # the else arm holds under `not test`: only usable when the true arm is unconditional (A or B)
                        if a_ != [[]]:
                            return None
                    return [tc + alt for alt in a_] + b2_
                return None
            return of([prev])
        alts = [conds]
        for c_ in list(conds):
            inner_ = c_.operand if isinstance(c_, ast.UnaryOp) and isinstance(c_.op, ast.Not) else c_
            if isinstance(inner_, ast.Name) and inner_.id not in f.params:
                d_ = single_def(f, inner_.id, g)
                rest_ = [x for x in conds if x is not c_]
                if inner_ is c_ and d_ is not None and d_[1] is not None:
                    v_ = d_[1]
                    alts = [rest_ + (list(v_.values) if isinstance(v_, ast.BoolOp) and isinstance(v_.op, ast.And) else [v_])]
                else:
                    holder = getattr(b.ast, "_parent", None)
                    fa_ = flag_alternatives(inner_.id, holder) if inner_ is c_ and isinstance(holder, ast.If) and holder.test is c_ else None
                    if not fa_:
                        raise AnalysisError("idiom changed: an exit of the sampling loop is decided through the flag variable `%s`" % inner_.id)
                    alts = [rest_ + alt for alt in fa_]
                break
        for k_, alt in enumerate(alts):
            kinds[(b.id, k_)] = alt
            knode[(b.id, k_)] = b
    conv = [b for b, cs in kinds.items() if any("converged" in norm(c) for c in cs)]
    lim = [b for b, cs in kinds.items() if any("max_samples" in norm(c) for c in cs) and b not in conv]
    other = [b for b in kinds if b not in conv and b not in lim]
    if other:
        rr.bad(ctx.finding(rid, f, knode[other[0]].ast, "the sampling loop has an exit that is neither the convergence test nor the sample limit", construct="extra-break"), "exits classified")
    if len(conv) == 1:
        cs = kinds[conv[0]]
        cc = [c for c in cs if "converged" in norm(c)][0]
        floor_c = [c for c in cs if "min_samples" in norm(c)]
        call = [x for x in ast.walk(cc) if isinstance(x, ast.Call) and norm(x.func) == RS + ".converged"][0]
        cm = prog.need_cls(U + ".RunningStatistics").methods.get("converged")
        params = cm.positional[1:]
        def _through(x_, hops=0):
            # a local that was given the value once (a temporary of a helper that was read through) stands for that value
            if isinstance(x_, ast.Name) and x_.id not in f.params and hops < 4:
                d_ = single_def(f, x_.id, g)
                if d_ is not None and d_[1] is not None:
                    return _through(d_[1], hops + 1)
            return x_
        a = [norm(_through(x)) for x in call.args]
        if params == ["rtol", "atol"] and a == ["rtol", "tol_scale * rtol"] and not call.keywords:
            rr.ok("convergence break: rs.converged(rtol, tol_scale * rtol) matches converged(rtol, atol)")
        else:
            rr.bad(ctx.finding(rid, f, call, "converged(%s) is called with (%s): the relative and the absolute tolerance are not passed in the callee's order, so sampling stops before the requested relative error is met whenever tol_scale != 1" % (", ".join(params), ", ".join(a)),
                               construct="converged-args"), "converged args")
        rets = [s for s in ast.walk(cm.node) if isinstance(s, ast.Return)]
        if len(rets) == 1 and norm(rets[0].value) == "self.err < rtol * abs(self.mean) + atol":
            rr.ok("converged: err < rtol * |mean| + atol")
        else:
            rr.bad(ctx.finding(rid, cm, cm.node, "converged is `%s`, not err < rtol*|mean| + atol" % (norm(rets[0].value) if rets else None), construct="converged-formula"), "converged formula")
        if floor_c:
            try:
                fm = constraints(floor_c[0])
            except NotAffine:
                fm = None
            if fm is not None and len(fm) == 1 and fm[0].c.get(ivar) == 1 and fm[0].c.get("min_samples") == -1 and fm[0].k in (-1, 0):
                rr.ok("convergence is only tested after the sample floor (`%s`)" % norm(floor_c[0]))
            else:
                rr.bad(ctx.finding(rid, f, floor_c[0], "the sample floor `%s` lets convergence be tested before min_samples samples were drawn" % norm(floor_c[0]), construct="sample-floor"), "sample floor")
        else:
            rr.bad(ctx.finding(rid, f, cc, "convergence is tested without the min_samples floor", construct="no-sample-floor"), "sample floor")
    else:
        rr.bad(ctx.finding(rid, f, f.node, "the sampling loop has %d convergence exits" % len(conv), construct="conv-breaks"), "one convergence exit")
    if len(lim) == 1:
        c = [c for c in kinds[lim[0]] if "max_samples" in norm(c)][0]
        try:
            fm = constraints(c)
        except NotAffine as e:
            raise AnalysisError("limit test not linear: %s" % e)
        # i counts from 0: samples drawn = i + 1; break iff i + 1 >= max_samples  <=>  i - max_samples + 1 >= 0
        if len(fm) == 1 and fm[0] == Lin({ivar: 1, "max_samples": -1}, 1):
            rr.ok("limit break: `%s`  <=>  samples drawn (i + 1) >= max_samples; never exceeded" % norm(c))
        else:
            rr.bad(ctx.finding(rid, f, c, "the limit test `%s` normalises to %s >= 0 instead of i + 1 - max_samples >= 0 (i counts from 0): the sample limit is exceeded (or undershot)" % (norm(c), fm[0] if fm else None), construct="limit-form"), "limit form")
    else:
        rr.bad(ctx.finding(rid, f, f.node, "the sampling loop has %d sample-limit exits" % len(lim), construct="limit-breaks"), "one limit exit")
    # handlers: only KeyboardInterrupt is swallowed
    hs = [n for n in g.nodes if n.kind == "except"]
    if all(h.ast.type is not None and norm(h.ast.type) == "KeyboardInterrupt" for h in hs):
        rr.ok("only KeyboardInterrupt ends sampling early")
    else:
        rr.bad(ctx.finding(rid, f, hs[0].ast, "an exception other than KeyboardInterrupt silently ends sampling", construct="swallow"), "handlers")
    return rr


def isolation_rule(ctx, rid):
    rr = ctx.rule(rid, "statistics instances share no mutable state (no mutable default / module-level container stored on self)", floor=3)
    prog = ctx.prog
    for cname in ("RunningStatistics", "RunningCovariance", "RunningCovarianceMatrix"):
        cls = prog.need_cls(U + "." + cname)
        init = cls.methods.get("__init__")
        need(init is not None, "anchor lost: %s.__init__" % cname)
        ctx.touch(init)
        bad = []
        for p, d in init.defaults().items():
            if isinstance(d, (ast.Dict, ast.List, ast.Set)) or (isinstance(d, ast.Call) and norm(d.func) in ("dict", "list", "set", "defaultdict", "collections.defaultdict")):
                # stored on self or mutated?
                for s in ast.walk(init.node):
                    if isinstance(s, ast.Assign) and isinstance(s.value, ast.Name) and s.value.id == p:
                        bad.append((p, s))
                    if isinstance(s, ast.Call) and isinstance(s.func, ast.Attribute) and isinstance(s.func.value, ast.Name) and s.func.value.id == p and s.func.attr in ("setdefault", "update", "append", "add", "__setitem__"):
                        bad.append((p, s))
        for a, v in cls.attrs.items():
            if isinstance(v, (ast.Dict, ast.List, ast.Set)):
                bad.append((a, v))
        if bad:
            rr.bad(ctx.finding(rid, init, bad[0][1], "%s keeps its accumulators in the mutable default / class-level container `%s`, shared by every instance: a second instance starts non-empty and corrupts the first" % (cname, bad[0][0]), construct="shared-state " + cname), "%s isolation" % cname)
        else:
            rr.ok("%s.__init__ creates fresh state" % cname)
    return rr


def memo_rule(ctx, rid):
    """A value derived from the accumulators and kept on the object (a memo) must be reset by every method that feeds the
    accumulators: methods that feed the same state must agree on resetting the memo (sibling cross-check)."""
    rr = ctx.rule(rid, "a memo of derived statistics is reset by every method that feeds samples (update and update_from_it agree)", floor=0)
    prog = ctx.prog
    for cname in ("RunningStatistics", "RunningCovariance", "RunningCovarianceMatrix"):
        cls = prog.need_cls(U + "." + cname)
        feeders = [m for n_, m in cls.methods.items() if n_.startswith("update")]
        if len(feeders) < 2:
            continue
        # attributes some feeder resets (X.clear(), self.X = {} / None / [])
        def resets(m):
            out = set()
            for x in ast.walk(m.node):
                if isinstance(x, ast.Call) and isinstance(x.func, ast.Attribute) and x.func.attr == "clear" and isinstance(x.func.value, ast.Attribute) and norm(x.func.value.value) == "self":
                    out.add(x.func.value.attr)
                if isinstance(x, ast.Assign) and isinstance(x.targets[0], ast.Attribute) and norm(x.targets[0].value) == "self" and (isinstance(x.value, (ast.Dict, ast.List)) and not getattr(x.value, "keys", getattr(x.value, "elts", None)) or (isinstance(x.value, ast.Constant) and x.value.value is None)):
                    out.add(x.targets[0].attr)
            return out
        per = {m.name: resets(m) for m in feeders}
        # a memo: reset by a feeder and *read back* by a non-feeder method (getter / property)
        readers = {}
        for n_, m in cls.methods.items():
            if m in feeders or n_ == "__init__":
                continue
            for x in ast.walk(m.node):
                if isinstance(x, ast.Attribute) and norm(x.value) == "self" and isinstance(x.ctx, ast.Load):
                    readers.setdefault(x.attr, set()).add(n_)
        memos = {a for rs in per.values() for a in rs if a in readers}
        for a in sorted(memos):
            ctx.touch(cls.methods["__init__"]) if "__init__" in cls.methods else None
            missing = [m for m in feeders if a not in per[m.name] and not any(isinstance(c, ast.Call) and isinstance(c.func, ast.Attribute) and norm(c.func.value) == "self" and c.func.attr in per and a in per[c.func.attr] for c in ast.walk(m.node))]
            if missing:
                m = missing[0]
                rr.bad(ctx.finding(rid, m, m.node, "%s.%s feeds samples into the accumulators without resetting `self.%s`, which %s resets and %s read(s) back: after a chunk has been fed the derived statistics still describe the samples seen before it"
                                   % (cname, m.name, a, ", ".join(sorted(k for k, v in per.items() if a in v)), ", ".join(sorted(readers[a]))), construct="memo-not-reset " + a), "%s memo %s" % (cname, a))
            else:
                rr.ok("%s: every feeder resets the memo `%s`" % (cname, a))
    return rr


def run(ctx):
    memo_rule(ctx, "C19.R5")
    induction_rule(ctx, "C19.R1")
    conditioning_rule(ctx, "C19.R2")
    if ctx.extra.get("unverified_chunk_merge") and not [f for r in ctx.results for f in r.findings]:
        raise AnalysisError("update_from_it of %s merges a chunk with its own arithmetic; R1's induction covers update() only, so exactness of chunked feeding cannot be established" % ctx.extra["unverified_chunk_merge"])
    stopping_rule(ctx, "C19.R3")
    isolation_rule(ctx, "C19.R4")
    prog = ctx.prog
    sl = list(prog.need_cls(U + ".RunningStatistics").methods.values()) + list(prog.need_cls(U + ".RunningCovariance").methods.values()) + \
        list(prog.need_cls(U + ".RunningCovarianceMatrix").methods.values()) + [prog.need_func(U + ".estimate_from_repeats")]
    base_rules.run_link_rules(ctx, "C19", sl)
    ob = [o for r in ctx.results if r.rule == "C19.R1" for o in r.obligations]
    ctx.extra["obligations"] = len(ob)
    ctx.extra["discharged"] = len([o for o in ob if o.startswith("ok")])
    ctx.extra["checker_cmd"] = "./check C19 --tier quick"
    ctx.extra["trusted_base"] = ["translation ast -> rational functions (xyzsa/poly.py)", "fractions.Fraction exact arithmetic"]
