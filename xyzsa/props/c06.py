"""C06 -- a crop attached to a Runner, Harvester or Sampler reaps what a direct run gives."""
import ast

from ..loader import AnalysisError, norm, walk_shallow
from ..cfg import build_cfg, node_calls
from ..flow import Flow, NONE, NOTNONE, TRUE, FALSE, TRUTHY, FALSY, is_const, valuations
from ..inter import Inter
from ..util import callee_name, all_calls, arg, need, single_def, names_in, assignments_to
from .. import base_rules
from . import shared, sweep, harvest, c04
from .shared import CROP
from .sweep import TO_DS, LABEL_FIELDS, _field_words

FARM = "xyzpy.gen.farming"
LEVEL = "other"
CLAIM = {
    "text": ("Decides the structural clauses of C06: (R1) labelling parity -- every labelling parameter of combo_runner_to_ds (var_names, var_dims, var_coords, constants, attrs) is fed from the same runner field through Crop.reap_runner -> "
             "reap_combos_to_ds as through Runner.run_combos (differential over the composed keyword-forwarding chains); (R2) dict-merge precedence explicit > constants > resources is the same when sowing as in a direct run; "
             "(R3) every normal exit of reap_runner records the result as the runner's last Dataset / DataFrame according to to_df; (R4) the farmer is persisted as a copy with its function cleared, re-attached on load, the function file is "
             "rewritten on every sow when save_fn, and the three farmer factories forward all five crop options; (R5) Crop.reap forwards clean_up / wait / allow_incomplete / overwrite / sync unchanged for every value (incl. False) to the farmer-specific reap; "
             "(R6) the replayed enumeration uses the persisted settings (C04.R1), DataFrame rows pair correctly (C03.R1), harvester files use one physical name (C05.R1). (R7 also: the raw constants argument of sow_* is consumed once; R8: an omitted fn_args is resolved from the runner's declared order in sow_cases exactly as in Runner.run_cases; R9: load_info always reads the settings file.) Not decided: equality of the Datasets themselves (xarray semantics)."),
    "note": "Trusted base: as C03 / C04 / C05 for the shared rules; copy.deepcopy of the farmer; sow-time constants are not persisted by design (observation in DESIGN.md section 9).",
    "technique": "static analysis: differential comparison of composed keyword-forwarding chains, dict-merge layer comparison, truthiness-partitioned dataflow of option dictionaries, CFG must-complete-before rules",
}
EXPLANATION = "Composition of keyword forwarding tables along the direct and the reap chain; abstract evaluation of Crop.reap's option dict per flag value; typestate-like rules for farmer persistence."
ASSUMPTIONS = ["copy.deepcopy / cloudpickle preserve the farmer's description fields"]
NOT_DECIDED = ["(L) equality of the Datasets / DataFrames themselves"]

PARITY = ("var_names", "var_dims", "var_coords", "constants", "attrs")


def parity_rule(ctx, rid):
    rr = ctx.rule(rid, "labelling parity: direct run vs reap feed each to_ds labelling parameter from the same runner field", floor=5)
    prog = ctx.prog
    rc = prog.need_func(FARM + ".Runner.run_combos")
    rr_ = prog.need_func(CROP + ".Crop.reap_runner")
    rds = prog.need_func(CROP + ".Crop.reap_combos_to_ds")
    for f in (rc, rr_, rds):
        ctx.touch(f)
    def kw(f, callee):
        for n, c, nm in all_calls(ctx, f):
            if nm == callee:
                return {k.arg: k.value for k in c.keywords if k.arg}, c
        raise AnalysisError("anchor lost: %s -> %s" % (f.qualname, callee))
    direct, dcall = kw(rc, TO_DS)
    outer, ocall = kw(rr_, CROP + ".Crop.reap_combos_to_ds")
    inner, icall = kw(rds, TO_DS)
    for nm_, d_, c_ in (("Runner.run_combos", direct, dcall), ("Crop.reap_runner", outer, ocall), ("Crop.reap_combos_to_ds", inner, icall)):
        splats = [k for k in c_.keywords if k.arg is None]
        lacking = [p for p in PARITY if p not in d_]
        if splats and lacking:
            # labelling parameters travel in a keyword mapping: follow a local dict display, else give up
            for k in splats:
                dd = single_def(rc if c_ is dcall else rr_ if c_ is ocall else rds, k.value.id) if isinstance(k.value, ast.Name) else None
                lit = shared.dict_literal(dd[1]) if dd else None
                if isinstance(lit, ast.Dict):
                    for kk, vv in zip(lit.keys, lit.values):
                        if isinstance(kk, ast.Constant) and kk.value in PARITY and kk.value not in d_:
                            d_[kk.value] = vv
            if [p for p in PARITY if p not in d_]:
                raise AnalysisError("idiom changed: %s hands the labelling parameters %s on through a keyword mapping that is not a local dict display" % (nm_, [p for p in PARITY if p not in d_]))
    for p in PARITY:
        dw = _field_words(direct[p]) if p in direct else set()
        if p not in inner:
            rr.bad(ctx.finding(rid, rds, icall, "reap_combos_to_ds does not pass %s to combo_runner_to_ds" % p, construct="parity-missing " + p), "parity %s" % p)
            continue
        # compose: words of inner value, with reap_combos_to_ds parameters replaced by what reap_runner passes
        iw = set()
        e = inner[p]
        if isinstance(e, (ast.Dict,)) and not e.keys and not e.values:
            iw = set()
        else:
            for w in _field_words(e):
                if w in outer:
                    iw |= _field_words(outer[w])
                else:
                    iw.add(w)
        if iw == dw:
            rr.ok("%s: direct <- runner.%s ; reap <- runner.%s" % (p, sorted(dw), sorted(iw)))
        else:
            rr.bad(ctx.finding(rid, rds, e, "at reap time combo_runner_to_ds gets %s=%s, i.e. the runner's %s, while a direct Runner.run_combos feeds it from the runner's %s: the reaped Dataset labels these differently from a direct run (e.g. a constant naming an internal dimension becomes an attribute instead of a coordinate)"
                               % (p, norm(e), sorted(iw) or "nothing", sorted(dw)), construct="parity " + p), "parity %s" % p)
    return rr


def last_result_rule(ctx, rid):
    rr = ctx.rule(rid, "reap_runner records the result as the runner's last Dataset / DataFrame", floor=2)
    f = ctx.prog.need_func(CROP + ".Crop.reap_runner")
    g = build_cfg(f.node)
    ctx.touch(f, g)
    for val, attr in ((TRUE, "runner._last_df"), (FALSE, "runner._last_ds")):
        fl = Flow(g, {"to_df": val}).run()
        st = [n for n in g.nodes if n.id in fl.visited and n.kind == "stmt" and isinstance(n.ast, ast.Assign) and norm(n.ast.targets[0]) == attr]
        rets = [n for n in g.nodes if n.id in fl.visited and n.kind == "stmt" and isinstance(n.ast, ast.Return)]
        # setattr(runner, '_last_df' if to_df else '_last_ds', data)
        sa = None
        for n in g.nodes:
            if n.id in fl.visited and n.kind == "stmt" and isinstance(n.ast, ast.Expr) and isinstance(n.ast.value, ast.Call) and norm(n.ast.value.func) == "setattr" and len(n.ast.value.args) == 3:
                o, nm_e, v_e = n.ast.value.args
                sel = nm_e
                if isinstance(nm_e, ast.IfExp) and norm(nm_e.test) == "to_df":
                    sel = nm_e.body if val == TRUE else nm_e.orelse
                elif isinstance(nm_e, ast.IfExp) and norm(nm_e.test) == "not to_df":
                    sel = nm_e.orelse if val == TRUE else nm_e.body
                if isinstance(sel, ast.Constant) and "%s.%s" % (norm(o), sel.value) == attr:
                    sa = (n, v_e)
        if sa is not None and not st:
            if all(g.completes_before(sa[0].id, r.id, feasible=fl.feasible) for r in rets) and all(norm(r.ast.value) == norm(sa[1]) for r in rets):
                rr.ok("to_df=%s: setattr(..., %r, data) on every normal exit" % (val[1], attr))
            else:
                rr.bad(ctx.finding(rid, f, f.node, "with to_df=%s reap_runner does not record the reaped data as %s before returning it" % (val[1], attr), construct="last-result " + attr), "last result %s" % attr)
            continue
        if st and all(g.completes_before(st[0].id, r.id, feasible=fl.feasible) for r in rets) and all(norm(r.ast.value) == norm(st[0].ast.value) for r in rets):
            rr.ok("to_df=%s: %s = data on every normal exit" % (val[1], attr))
        else:
            rr.bad(ctx.finding(rid, f, f.node, "with to_df=%s reap_runner does not record the reaped data as %s before returning it" % (val[1], attr), construct="last-result " + attr), "last result %s" % attr)
    return rr


def persistence_rule(ctx, rid):
    rr = ctx.rule(rid, "farmer persistence: pickled copy without fn, function re-attached, function file rewritten on every sow, factories forward all options", floor=6)
    prog = ctx.prog
    crop = prog.need_cls(CROP + ".Crop")
    si = crop.methods["save_info"]
    g = build_cfg(si.node)
    ctx.touch(si, g)
    # by role: the function (save_info or a helper it calls) that pickles a farmer: V = deepcopy(farmer); V.fn = None; to_pickle(V)
    from ..util import callee_func
    cands = [si] + [h for h in {callee_func(ctx, si, c_) for _, c_, _n in all_calls(ctx, si)} if h is not None and h.module is si.module and h is not si]
    verdict = None
    for fn_ in cands:
        gg = build_cfg(fn_.node)
        pk = [(n, c_) for n, c_, nm_ in all_calls(ctx, fn_, gg) if nm_ == CROP + ".to_pickle" and c_.args and isinstance(c_.args[0], ast.Name)]
        if not pk:
            continue
        ctx.touch(fn_, gg)
        pn, pc_ = pk[0]
        v = pc_.args[0].id
        d = single_def(fn_, v, gg)
        is_copy = d is not None and isinstance(d[1], ast.Call) and norm(d[1].func) in ("copy.deepcopy", "deepcopy") and "farmer" in norm(d[1])
        clears = [n for n in gg.nodes if n.kind == "stmt" and isinstance(n.ast, ast.Assign) and norm(n.ast.targets[0]) == v + ".fn" and isinstance(n.ast.value, ast.Constant) and n.ast.value.value is None]
        # the persisted copy differs from the live farmer in nothing but the function: no other store on the copy, or on anything
        # reached from it (runner_copy = getattr(copy, "runner", copy); runner_copy.resources = {} ...)
        tainted = {v}
        changed_ = True
        while changed_:
            changed_ = False
            for n_ in gg.nodes:
                if n_.kind == "stmt" and isinstance(n_.ast, ast.Assign) and isinstance(n_.ast.targets[0], ast.Name) and n_.ast.targets[0].id not in tainted and names_in(n_.ast.value) & tainted \
                        and not (isinstance(n_.ast.value, ast.Call) and callee_name(ctx, fn_, n_.ast.value) == CROP + ".to_pickle"):
                    tainted.add(n_.ast.targets[0].id)
                    changed_ = True
        for n_ in gg.nodes:
            if n_.kind == "stmt" and isinstance(n_.ast, (ast.Assign, ast.AugAssign)):
                for t_ in (n_.ast.targets if isinstance(n_.ast, ast.Assign) else [n_.ast.target]):
                    root = t_
                    while isinstance(root, (ast.Attribute, ast.Subscript)):
                        root = root.value
                    if isinstance(t_, (ast.Attribute, ast.Subscript)) and isinstance(root, ast.Name) and root.id in tainted:
                        if norm(t_) == v + ".fn" and isinstance(n_.ast, ast.Assign) and isinstance(n_.ast.value, ast.Constant) and n_.ast.value.value is None:
                            continue
                        rr.bad(ctx.finding(rid, fn_, n_.ast, "the farmer persisted with the crop is altered before it is pickled (`%s`): a crop reloaded from its folder then works with another %s than the live farmer a direct run uses, so what it reaps / sows is not what the direct run gives"
                                           % (norm(n_.ast)[:70], norm(t_).split(".", 1)[-1]), construct="farmer-copy-altered " + norm(t_).split(".", 1)[-1]), "farmer copy unaltered")
            for c_ in node_calls(n_):
                if norm(c_.func) == "setattr" and c_.args and isinstance(c_.args[0], ast.Name) and c_.args[0].id in tainted:
                    raise AnalysisError("idiom changed: setattr on the farmer copy in %s" % fn_.qualname)
        if is_copy and clears and gg.completes_before(d[0].id, clears[0].id) and gg.completes_before(clears[0].id, pn.id):
            verdict = "ok"
        elif d is None or not is_copy or not clears:
            verdict = ("bad", fn_, pc_)
        break
    if verdict == "ok":
        # ... and does so in this very call, on every path to the write (a pickle memoised on the crop goes stale when the farmer changes between sows)
        from ..flow import Flow, NOTNONE
        fls = Flow(g, {"self.farmer": NOTNONE}).run()
        wr = [n for n, c_, nm_ in all_calls(ctx, si, g) if nm_ == CROP + ".write_to_disk" and n.id in fls.visited]
        need(wr, "anchor lost: save_info does not write the settings")
        if fn_ is si:
            xs = [pn]
        else:
            xs = [n for n, c_, nm_ in all_calls(ctx, si, g) if callee_func(ctx, si, c_) is fn_ and n.id in fls.visited]
        if xs and all(any(g.completes_before(x.id, w.id, feasible=fls.feasible) for x in xs) for w in wr):
            rr.ok("save_info pickles a deep copy of the farmer with fn cleared (the live farmer keeps its function), afresh on every call")
        else:
            rr.bad(ctx.finding(rid, si, pc_, "the farmer's pickle is not recomputed on every path to the settings write (it is memoised): a later sow of the same crop object persists the farmer as it was at the first sow, so a reloaded crop reaps with stale constants, "
                               "attributes or data name", construct="farmer-pickle-memoised"), "farmer pickled afresh")
    elif verdict == "OLD":
        rr.ok("save_info pickles a deep copy of the farmer with fn cleared (the live farmer keeps its function)")
    elif verdict is None:
        raise AnalysisError("idiom changed: save_info (and its helpers) never pickle the farmer with to_pickle")
    else:
        rr.bad(ctx.finding(rid, verdict[1], verdict[2], "save_info no longer pickles a *copy* of the farmer with its function cleared (the live farmer loses fn, or the function is pickled with plain pickle)", construct="farmer-copy"), "farmer copy")
    lf = crop.methods["load_function"]
    ctx.touch(lf)
    from .plots import method_text
    txt = method_text(ctx, lf, depth=2)
    stores_fn = [x for m_ in [lf] + [crop.methods[c_.func.attr] for c_ in ast.walk(lf.node) if isinstance(c_, ast.Call) and isinstance(c_.func, ast.Attribute) and norm(c_.func.value) == "self" and c_.func.attr in crop.methods]
                 for x in ast.walk(m_.node) if isinstance(x, ast.Assign) and norm(x.targets[0]).endswith("farmer.fn")]
    if stores_fn and all(norm(x.value) in ("self._fn", "self.fn") or (isinstance(x.value, ast.Name)) for x in stores_fn) and "from_pickle(read_from_disk(" in txt:
        rr.ok("load_function re-attaches the loaded function to the farmer")
    elif not stores_fn:
        rr.bad(ctx.finding(rid, lf, lf.node, "load_function no longer re-attaches the loaded function to the farmer", construct="reattach-fn"), "reattach")
    else:
        raise AnalysisError("idiom changed: how load_function re-attaches the function (%s)" % [norm(x)[:40] for x in stores_fn])
    sy = crop.methods["_sync_info_from_disk"]
    gs = build_cfg(sy.node)
    ctx.touch(sy, gs)
    lfc = [(n, c) for n, c, nm in all_calls(ctx, sy, gs) if nm == CROP + ".Crop.load_function"]
    fa = [n for n in gs.nodes if n.kind == "stmt" and isinstance(n.ast, ast.Assign) and norm(n.ast.targets[0]) == "self.farmer"]

    def _from_disk(e, depth=0):
        t = norm(e)
        if "from_pickle(" in t or "parse_fn_farmer(" in t:
            return True
        if depth < 3:
            for nm in names_in(e):
                for _, v in assignments_to(sy, nm, gs):
                    if v is not None and _from_disk(v, depth + 1):
                        return True
                # tuple targets: `fn, farmer = parse_fn_farmer(None, farmer)`
                for n_ in gs.nodes:
                    if n_.kind == "stmt" and isinstance(n_.ast, ast.Assign) and isinstance(n_.ast.targets[0], ast.Tuple) and nm in names_in(n_.ast.targets[0]) and ("parse_fn_farmer(" in norm(n_.ast.value) or "from_pickle(" in norm(n_.ast.value)):
                        return True
        return False
    if lfc and fa and all(_from_disk(n.ast.value) for n in fa) and gs.can_reach(fa[0].id, lfc[0][0].id):
        rr.ok("_sync_info_from_disk restores the farmer, then loads the function when none is set")
    elif not lfc or not fa or not gs.can_reach(fa[0].id, lfc[0][0].id):
        rr.bad(ctx.finding(rid, sy, sy.node, "_sync_info_from_disk no longer restores the farmer before loading the function", construct="sync-farmer"), "sync farmer")
    elif any(isinstance(n.ast.value, ast.Constant) for n in fa):
        rr.bad(ctx.finding(rid, sy, fa[0].ast, "_sync_info_from_disk sets the farmer to a constant instead of the one read from disk", construct="sync-farmer"), "sync farmer")
    else:
        raise AnalysisError("idiom changed: the farmer restored by _sync_info_from_disk is `%s`" % norm(fa[0].ast.value))
    # the function file is rewritten on every sow when save_fn (re-sowing with a tweaked function is documented)
    pr = crop.methods["prepare"]
    gp = build_cfg(pr.node)
    ctx.touch(pr, gp)
    fl = Flow(gp, {"self.save_fn": TRUTHY}).run()
    sv = [(n, c) for n, c, nm in all_calls(ctx, pr, gp) if nm == CROP + ".Crop.save_function_to_disk" and n.id in fl.visited]
    if sv and gp.completes_before(sv[0][0].id, gp.exit.id, feasible=fl.feasible):
        rr.ok("prepare: with save_fn the function file is (re)written on every sow")
    else:
        rr.bad(ctx.finding(rid, pr, pr.node, "with save_fn set, a path through prepare does not rewrite the function file: re-sowing after changing the function grows the *old* function and labels its results with the new description", construct="fn-file-stale"), "fn rewritten")
    ws = [(n, c) for n, c, nm in all_calls(ctx, crop.methods["save_function_to_disk"]) if nm == CROP + ".write_to_disk"]
    if ws and norm(ws[0][1].args[0]) == "to_pickle(self._fn)":
        rr.ok("save_function_to_disk pickles the crop's current function")
    else:
        rr.bad(ctx.finding(rid, crop.methods["save_function_to_disk"], crop.methods["save_function_to_disk"].node, "save_function_to_disk does not pickle self._fn", construct="fn-file-content"), "fn content")
    # factories
    opts = ("name", "parent_dir", "save_fn", "batchsize", "num_batches")
    for cname in ("Runner", "Harvester", "Sampler"):
        fac = prog.need_cls(FARM + "." + cname).methods.get("Crop")
        need(fac is not None, "anchor lost: %s.Crop" % cname)
        ctx.touch(fac)
        calls = [c for n, c, nm in all_calls(ctx, fac) if nm == CROP + ".Crop"]
        need(calls, "anchor lost: %s.Crop factory call" % cname)
        kws = {k.arg: norm(k.value) for k in calls[0].keywords}
        bad = [o for o in opts if kws.get(o) != o] + ([] if kws.get("farmer") == "self" else ["farmer"])
        if bad:
            rr.bad(ctx.finding(rid, fac, calls[0], "%s.Crop does not forward %s to the Crop constructor" % (cname, bad), construct="factory " + cname), "factory %s" % cname)
        else:
            rr.ok("%s.Crop forwards farmer=self and all five options" % cname)
    return rr


def reap_forwarding_rule(ctx, rid):
    """Crop.reap hands every option, unchanged for every value, to the
    farmer-specific reap."""
    rr = ctx.rule(rid, "Crop.reap forwards clean_up / wait / allow_incomplete / overwrite / sync unchanged, for every value", floor=20)
    f = ctx.prog.need_func(CROP + ".Crop.reap")
    targets = {CROP + ".Crop.reap_runner": ("clean_up", "wait", "allow_incomplete"),
               CROP + ".Crop.reap_harvest": ("clean_up", "wait", "allow_incomplete", "overwrite", "sync"),
               CROP + ".Crop.reap_samples": ("clean_up", "wait", "allow_incomplete", "sync"),
               CROP + ".Crop.reap_combos": ("clean_up", "wait", "allow_incomplete")}
    spec = {"clean_up": [NONE, TRUE, FALSE], "wait": [TRUE, FALSE], "allow_incomplete": [TRUE, FALSE], "overwrite": [NONE, TRUE, FALSE], "sync": [TRUE, FALSE]}
    seen = set()
    for val in valuations(spec):
        inter = Inter(ctx, None, track=set(spec))
        fl = inter.flow(f, val)
        for n in fl.cfg.nodes:
            if n.id not in fl.visited:
                continue
            from ..cfg import node_calls
            for c in node_calls(n):
                cv = fl.call_vals.get(id(c))
                if cv is None or cv[0].qualname not in targets:
                    continue
                callee, got = cv
                seen.add(callee.qualname)
                for p in targets[callee.qualname]:
                    want = val[p]
                    have = got.get(p)
                    if have is None:
                        d = callee.defaults().get(p)
                        have = Flow(fl.cfg).eval(d, {}) if d is not None else None
                    vt = "%s=%s" % (p, want[1])
                    if have != want:
                        rr.bad(ctx.finding(rid, f, c, "Crop.reap(%s) reaches %s with %s=%s: the option is dropped or altered on the way (e.g. a falsy value treated as 'not given')" % (vt, callee.name, p, have[1] if have and is_const(have) else have),
                                           construct="reap-forward %s %s" % (callee.name, p), path=vt), "%s %s" % (callee.name, vt))
                    else:
                        rr.ok("reap(%s) -> %s(%s)" % (vt, callee.name, vt))
    need(len(seen) == 4, "anchor lost: Crop.reap dispatches to %s" % sorted(seen))
    return rr


def fn_args_default_rule(ctx, rid):
    """C06.R8 (sibling cross-check): Runner.run_cases resolves an omitted
    fn_args from the runner's declared argument order; Crop.sow_cases must
    resolve it from the same source when a runner is attached, otherwise
    tuple cases are bound to other parameters than in the direct run."""
    from ..flow import Flow, NONE, NOTNONE
    rr = ctx.rule(rid, "an omitted fn_args is resolved from the runner's declared order in sow_cases exactly as in Runner.run_cases", floor=2)
    prog = ctx.prog
    rc = prog.need_func("xyzpy.gen.farming.Runner.run_cases")
    ctx.touch(rc)
    from . import sweep as _sw
    sub_rr = _sw.case_binding_rule(ctx, rid + "a")
    rr.ok("Runner.run_cases: fn_args defaults to the runner's declared order (decided by %sa)" % rid)
    sc = prog.need_cls(CROP + ".Crop").methods["sow_cases"]
    g = build_cfg(sc.node)
    ctx.touch(sc, g)
    fl = Flow(g, {"fn_args": NONE, "self.runner": NOTNONE, "self.farmer": NOTNONE, "batchsize": NONE, "num_batches": NONE}).run()
    defs = [n for n in g.nodes if n.id in fl.visited and n.kind == "stmt" and isinstance(n.ast, ast.Assign) and norm(n.ast.targets[0]) == "fn_args"]
    need(defs, "anchor lost: sow_cases does not normalise fn_args")
    vals = [norm(n.ast.value) for n in defs]
    if any(("runner._fn_args" in v or "runner.fn_args" in v or "farmer.fn_args" in v or "farmer._fn_args" in v) for v in vals):
        rr.ok("sow_cases: with a runner attached an omitted fn_args is taken from the runner (%s)" % "; ".join(vals))
        # ... and a given fn_args is not replaced by the runner's
        fl2 = Flow(g, {"fn_args": NOTNONE, "self.runner": NOTNONE, "self.farmer": NOTNONE, "batchsize": NONE, "num_batches": NONE}).run()
        over = [n for n in g.nodes if n.id in fl2.visited and n.kind == "stmt" and isinstance(n.ast, ast.Assign) and norm(n.ast.targets[0]) == "fn_args"
                and any(w in norm(n.ast.value) for w in ("runner._fn_args", "runner.fn_args", "farmer.fn_args", "farmer._fn_args"))]
        if over:
            rr.bad(ctx.finding(rid, sc, over[0].ast, "sow_cases replaces a *given* fn_args by the runner's declared order (`%s` runs although fn_args was passed): tuple cases are bound to other parameters than the caller named" % norm(over[0].ast),
                               construct="fn-args-given-overridden"), "given fn_args kept")
        else:
            rr.ok("sow_cases: a given fn_args is used as given")
    elif all(v.startswith("parse_fn_args(") and "_fn" in v for v in vals):
        rr.bad(ctx.finding(rid, sc, defs[0].ast, "with a runner attached sow_cases resolves an omitted fn_args from the function's signature (`%s`), while Runner.run_cases uses the runner's declared order: tuple cases of a runner "
                           "declared with another argument order are bound to different parameters than in the direct run" % vals[0], construct="fn-args-default"), "fn_args default")
    else:
        raise AnalysisError("idiom changed: fn_args normalisation in sow_cases: %s" % vals)
    return rr


def sow_constants_rule(ctx, rid):
    """Constants given at sowing are arguments of the evaluation just like a
    direct run's `constants=`: they must be persisted and label the reaped
    data, not only be passed to the function."""
    rr = ctx.rule(rid, "constants given to sow_* are persisted with the crop and label the reaped data as in a direct run", floor=4)
    prog = ctx.prog
    crop = prog.need_cls(CROP + ".Crop")
    si = crop.methods["save_info"]
    rec = None
    rec = shared.record_table(ctx)[1]
    need(rec is not None, "idiom changed: save_info record")
    keys = {k.value: norm(v) for k, v in zip(rec.keys, rec.values) if isinstance(k, ast.Constant)}
    for name in ("sow_combos", "sow_cases"):
        m = crop.methods[name]
        ctx.touch(m)
        if "constants" not in m.params:
            rr.ok("%s takes no constants" % name)
            continue
        # the raw argument may be a one-shot iterable of pairs: it can be handed to a consumer only once
        stmts = sorted((st for st in walk_shallow(m.node) if isinstance(st, ast.stmt) and st is not m.node), key=lambda st: (st.lineno, st.col_offset))
        raw_uses = []
        for st in stmts:
            if isinstance(st, (ast.FunctionDef, ast.AsyncFunctionDef, ast.ClassDef, ast.If, ast.For, ast.While, ast.With, ast.Try)):
                heads = [st.test] if isinstance(st, (ast.If, ast.While)) else [st.iter] if isinstance(st, ast.For) else []
            else:
                heads = [st]
            for h in heads:
                for c in ast.walk(h):
                    if isinstance(c, ast.Call):
                        for a in list(c.args) + [k.value for k in c.keywords]:
                            if isinstance(a, ast.Name) and a.id == "constants":
                                raw_uses.append(c)
            if isinstance(st, ast.Assign) and any(isinstance(t, ast.Name) and t.id == "constants" for t in st.targets):
                break
        if len(raw_uses) <= 1:
            rr.ok("%s hands the raw `constants` argument to one consumer only (%s)" % (name, norm(raw_uses[0])[:50] if raw_uses else "none"))
        else:
            rr.bad(ctx.finding(rid, m, raw_uses[1], "%s passes the raw `constants` argument to %d consumers (%s): given as a one-shot iterable of pairs (zip(...), a generator) the second consumer sees it exhausted, so the function runs with "
                               "other constants than the ones the reaped data is labelled with" % (name, len(raw_uses), "; ".join(norm(c)[:40] for c in raw_uses)), construct="constants-consumed-twice " + name), "%s consumes constants once" % name)
        prep = [c for nd, c, nm in all_calls(ctx, m) if nm == CROP + ".Crop.prepare"]
        need(prep, "anchor lost: %s prepare" % name)
        pk = arg(prep[0], None, "constants")
        if "constants" in keys and pk is not None:
            # must be the explicit constants, not the merge with the farmer's
            d = single_def(m, pk.id) if isinstance(pk, ast.Name) else None
            src = norm(d[1]) if d else norm(pk)
            if "self.parse_constants" in src or "runner" in src:
                rr.bad(ctx.finding(rid, m, prep[0], "%s persists the constants already merged with the farmer's (%s): resources would be recorded" % (name, src), construct="sow-constants-merged " + name), "%s persists explicit constants" % name)
            else:
                rr.ok("%s persists its explicit constants (%s)" % (name, src))
        else:
            rr.bad(ctx.finding(rid, m, prep[0], "%s(constants=...) hands its constants to the function but does not persist them with the crop: the reaped Dataset / DataFrame is labelled with the farmer's stored constants instead of the ones the values were computed with (a direct run records the call's constants)" % name,
                               construct="sow-constants-not-persisted " + name), "%s persists constants" % name)
    rrn = crop.methods["reap_runner"]
    ctx.touch(rrn)
    calls = [c for nd, c, nm in all_calls(ctx, rrn) if nm == CROP + ".Crop.reap_combos_to_ds"]
    need(calls, "anchor lost: reap_runner -> reap_combos_to_ds")
    cv = arg(calls[0], None, "constants")
    if cv is None and any(k.arg is None for k in calls[0].keywords):
        from .plots import _splat_value
        cv = _splat_value(rrn, calls[0], "constants")
        if cv is None:
            raise AnalysisError("idiom changed: reap_runner hands the labelling options on through a keyword mapping that is not a local dict display")
    txt = norm(cv) if cv is not None else ""
    expanded = txt
    todo, seen_n = list(names_in(cv)) if cv is not None else [], set()
    while todo:
        nmx = todo.pop()
        if nmx in seen_n or nmx in ("self", "runner"):
            continue
        seen_n.add(nmx)
        for _, dv_ in assignments_to(rrn, nmx):
            if dv_ is not None:
                expanded += " " + norm(dv_)
                todo += list(names_in(dv_))
        for st_ in ast.walk(rrn.node):
            if isinstance(st_, ast.Expr) and isinstance(st_.value, ast.Call) and isinstance(st_.value.func, ast.Attribute) and st_.value.func.attr == "update" and norm(st_.value.func.value) == nmx:
                for a_ in st_.value.args:
                    expanded += " " + norm(a_)
                    todo += list(names_in(a_))
    # the runner's own mapping must not be written to while labelling (parse_constants / dictify hand a dict back unchanged, i.e. the same object)
    for st_ in ast.walk(rrn.node):
        recv = None
        if isinstance(st_, ast.Expr) and isinstance(st_.value, ast.Call) and isinstance(st_.value.func, ast.Attribute) and st_.value.func.attr in ("update", "setdefault", "pop", "clear") and isinstance(st_.value.func.value, ast.Name):
            recv = st_.value.func.value.id
        elif isinstance(st_, ast.Assign) and isinstance(st_.targets[0], ast.Subscript) and isinstance(st_.targets[0].value, ast.Name):
            recv = st_.targets[0].value.id
        if recv is None:
            continue
        for _, dv_ in assignments_to(rrn, recv):
            if dv_ is None:
                continue
            fresh = isinstance(dv_, (ast.Dict, ast.DictComp)) or (isinstance(dv_, ast.Call) and (norm(dv_.func) in ("dict", "copy.copy", "copy.deepcopy") or (isinstance(dv_.func, ast.Attribute) and dv_.func.attr == "copy")))
            if not fresh and ("runner._constants" in norm(dv_) or "runner._resources" in norm(dv_) or "runner._attrs" in norm(dv_)):
                rr.bad(ctx.finding(rid, rrn, st_, "`%s` writes into `%s`, which is the runner's own stored mapping (`%s` hands a dict back unchanged): the constants of this one sow are left in the runner, so its next run or crop computes and labels with them"
                                   % (norm(st_)[:60], recv, norm(dv_)[:50]), construct="runner-mapping-mutated"), "reap_runner leaves the runner's mappings alone")
    for st_ in ast.walk(rrn.node):
        if isinstance(st_, ast.Assign) and isinstance(st_.value, ast.BoolOp) and isinstance(st_.value.op, ast.And) and "'constants'" in norm(st_.value) and isinstance(st_.value.values[-1], (ast.Dict, ast.Call)) \
                and norm(st_.value.values[-1]) in ("{}", "dict()"):
            rr.bad(ctx.finding(rid, rrn, st_, "`%s`: `and` with an empty mapping is empty (or None) whatever was persisted, so the constants given at sowing never label the reaped data" % norm(st_)[:70], construct="sown-constants-and-empty"), "sown constants default")
    if "constants" in keys:
        if "runner._constants" in expanded and ("load_info" in expanded or "settings" in expanded) and "'constants'" in expanded:
            rr.ok("reap_runner labels with the runner's constants overridden by the crop's persisted ones")
        else:
            rr.bad(ctx.finding(rid, rrn, calls[0], "reap_runner labels the data with `%s`, ignoring the constants persisted at sowing" % txt, construct="reap-ignores-sown-constants"), "reap uses sown constants")
    return rr


def run(ctx):
    parity_rule(ctx, "C06.R1")
    sow_constants_rule(ctx, "C06.R7")
    fn_args_default_rule(ctx, "C06.R8")
    from . import c04 as _c04
    _c04.fresh_settings_rule(ctx, "C06.R9")
    shared.precedence_rule(ctx, "C06.R2")
    last_result_rule(ctx, "C06.R3")
    persistence_rule(ctx, "C06.R4")
    reap_forwarding_rule(ctx, "C06.R5")
    c04.persist_replay_rule(ctx, "C06.R6a")
    sweep.row_pairing_rule(ctx, "C06.R6b")
    harvest.physical_name_rule(ctx, "C06.R6c", only_harvester=True)
    prog = ctx.prog
    crop = prog.need_cls(CROP + ".Crop")
    sl = [crop.methods[n] for n in ("reap", "reap_runner", "reap_harvest", "reap_samples", "reap_combos_to_ds", "parse_constants", "save_info", "load_function", "_sync_info_from_disk", "prepare", "runner", "sow_samples") if n in crop.methods]
    sl += [prog.need_cls(FARM + "." + c).methods["Crop"] for c in ("Runner", "Harvester", "Sampler")]
    base_rules.run_link_rules(ctx, "C06", sl)
