"""C01 -- a grid sweep evaluates every combination exactly once, in its own slot."""
from .. import base_rules
from . import sweep
from .sweep import CR, PREP

LEVEL = "other"
CLAIM = {
    "text": ("Decides the structural clauses of C01 for every execution configuration at once (shuffle x cases x flat x split x executor x parallel x info: enumerated exhaustively): "
             "(R1) an order/alignment abstract interpretation (D-ORDER) of combo_runner_core and its helpers shows every pairing of tracked sequences (locations with results, shuffle indices with results, "
             "settings with futures) aligned for every permutation, the flat result in enumeration order; (R2) the swept function is evaluated at exactly one site per helper, once per setting, unconditionally, by exactly "
             "one helper on every path, never by the core itself, futures resolved in submission order; (R3) each kwargs dict is names x location + constants and nothing else, locations and settings are appended in lock-step, "
             "case values are looked up by name, all concatenations are [case, combo]; (R4) the executor adapters follow the three documented APIs; (R5) user combos pass duplicate rejection and value-preserving "
             "normalisation on the way from every public entry; (R7) the nesting function _unflatten is interpreted by the analyser's own syntax-tree interpreter on a window of grids (1-3 arguments x 1-3 values each, 39 shapes) with one symbolic result per location: slot [i][j][k] of the returned tuple holds the result stored for (v_i, v_j, v_k) -- decided on the window, not for larger grids. Not decided: that a pool runs each submitted call once and pickles faithfully; nesting beyond the window."),
    "note": "Trusted base: concurrent.futures / multiprocessing contract (a future yields the value of its own call); CPython semantics of the parsed ast; order-preserving / destroying idiom tables in xyzsa/order.py; an unrecognised transformation reaching a sink ends as exit 2.",
    "technique": "static analysis: interprocedural abstract interpretation over CFGs with an order/alignment domain, partitioned by flag valuation; CFG path counting; adapter API table; finite-window interpretation of the nesting function's syntax tree (no repository code is executed)",
}
EXPLANATION = ("D-ORDER abstract interpretation (xyzsa/order.py) of combo_runner_core, _run_linear_*, process_results under every valuation of the configuration flags; "
               "syntactic/CFG rules for exactly-once evaluation, settings construction, executor adapters and the parse_combos path from each public entry.")
ASSUMPTIONS = ["a future returned by submit / apply_async yields the value of the call it was created for",
               "random.shuffle permutes its list argument in place and nothing else",
               "itertools.product enumerates in row-major order (order of the given value lists)"]
NOT_DECIDED = ["(L) that a pool actually runs each submitted call once and pickles arguments faithfully",
               "(V) nested placement by _unflatten for more than 3 arguments or more than 3 values per argument (C01.R7 decides the window below that by interpreting the function's syntax tree; an unmodelled statement is exit 2)"]


def run(ctx):
    sweep.order_rule(ctx, "C01.R1", check_info=False)
    sweep.exactly_once_rule(ctx, "C01.R2")
    sweep.settings_construction_rule(ctx, "C01.R3")
    sweep.adapter_rule(ctx, "C01.R4")
    sweep.duplicates_rule(ctx, "C01.R5")
    sweep.core_callers_rule(ctx, "C01.R6")
    sweep.nested_placement_rule(ctx, "C01.R7", missing=False)
    prog = ctx.prog
    names = [CR + "." + n for n in ("combo_runner_core", "_run_linear_sequential", "_run_linear_executor", "_submit", "_get_result", "_unflatten", "combo_runner", "nan_like_result", "infer_shape")]
    names += [PREP + "." + n for n in ("parse_combos", "check_for_duplicates", "parse_cases", "parse_fn_args", "dictify")]
    sl = [prog.need_func(q) for q in names]
    sl += list(prog.need_func(CR + ".combo_runner_core").nested.values())
    base_rules.run_link_rules(ctx, "C01", sl)
