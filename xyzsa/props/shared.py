"""Rules that are necessary conditions of more than one property.  Each
property module calls the rule under its own rule id; DESIGN.md section 4 says
for each where the rule is necessary (and where it is deliberately not
re-reported)."""
import ast

from ..loader import AnalysisError, norm, walk_shallow
from ..cfg import build_cfg, node_calls
from ..flow import TOP, NONE, TRUE, FALSE, valuations, truth, is_const, is_none
from ..inter import Inter, InterFlow
from ..util import callee_name, all_calls, arg, need, names_in, single_def, assignments_to

CROP = "xyzpy.gen.cropping"


def reaper_loaders(ctx):
    """The Reaper's loader functions, found by role (closures of __init__ or
    methods alike): -> (loader, waiter, init)
    loader = the function in the Reaper that reads a result from disk;
    waiter = the function that polls for existence in a while loop."""
    prog = ctx.prog
    reaper = prog.need_cls(CROP + ".Reaper")
    init = reaper.methods.get("__init__")
    need(init is not None, "anchor lost: Reaper.__init__")
    cands = list(reaper.methods.values())
    for m in list(reaper.methods.values()):
        cands += list(m.nested.values())
    loader = waiter = None

    def polls(fn):
        return any(isinstance(n, ast.While) for n in walk_shallow(fn.node)) and any(nm in ("os.path.exists", "os.path.isfile") for _, _, nm in all_calls(ctx, fn))
    # the loader reads the file whose name it is given (a helper that reads the *batch* file to size a stand-in is not it)
    for f in cands:
        if loader is None and not polls(f) and any(nm == CROP + ".read_from_disk" and c.args and isinstance(c.args[0], ast.Name) and c.args[0].id in f.params for _, c, nm in all_calls(ctx, f)):
            loader = f
    for f in cands:
        if any(nm == CROP + ".read_from_disk" for _, _, nm in all_calls(ctx, f)) and loader is None:
            loader = f
    for f in cands:
        if f is loader or loader is None:
            continue
        calls_loader = any(nm == loader.qualname for _, _, nm in all_calls(ctx, f))
        # ... or does the loader's work itself (the loader's body read through): polls, then reads the file it was given
        reads_itself = polls(f) and any(nm == CROP + ".read_from_disk" and c.args and isinstance(c.args[0], ast.Name) and c.args[0].id in f.params for _, c, nm in all_calls(ctx, f))
        if not calls_loader and not reads_itself:
            continue
        helper_poll = False
        for _, c, nm in all_calls(ctx, f):
            from ..util import callee_func
            cf = callee_func(ctx, f, c)
            if cf is not None and cf is not loader and polls(cf):
                helper_poll = True
        if (polls(f) or helper_poll) and waiter is None:
            waiter = f
    need(loader is not None, "anchor lost: no function of the Reaper reads a result from disk")
    return loader, waiter, init


# ---------------------------------------------------------------- decision table
class _TableInter(Inter):
    """is_ready_to_reap() is an input of the table, supplied by the valuation."""

    def __init__(self, ctx, ready):
        super().__init__(ctx, None, track=None)
        self.ready = ready

    def call_hook(self, flow, call, name, env):
        if name == CROP + ".Crop.is_ready_to_reap":
            return self.ready
        return super().call_hook(flow, call, name, env)


def decision_table_rule(ctx, rid):
    """clean_up defaults to ``not allow_incomplete``; a placeholder exists iff
    allow_incomplete; refuse iff none of allow_incomplete / wait / ready.
    Evaluated over the complete finite input space."""
    prog = ctx.prog
    rr = ctx.rule(rid, "decision table: clean_up default, placeholder iff allow_incomplete, refusal iff not (allow or wait or ready)", floor=14)
    calc = prog.need_func(CROP + ".calc_clean_up_default_res")
    chk = prog.need_func(CROP + ".check_ready_to_reap")
    need(len(calc.positional) == 3 and len(chk.positional) == 3, "signature of the decision functions changed")
    p_crop, p_cu, p_ai = calc.positional
    markers = set()
    for val in valuations({p_cu: [NONE, TRUE, FALSE], p_ai: [TRUE, FALSE]}):
        inter = _TableInter(ctx, TOP)
        fl = inter.flow(calc, val)
        ret = fl.returns
        vtxt = "clean_up=%s, allow_incomplete=%s" % (val[p_cu][1], val[p_ai][1])
        need(isinstance(ret, tuple) and ret and ret[0] == "tuple" and len(ret[1]) == 2,
             "calc_clean_up_default_res no longer returns a pair (%r)" % (ret,))
        eff = (not val[p_ai][1]) if val[p_cu][1] is None else val[p_cu][1]
        got = ret[1][0]
        if not (is_const(got) and got[1] is eff):
            rr.bad(ctx.finding(rid, calc, calc.node, "effective clean_up for (%s) is %s, documented: %s" % (vtxt, _show(got), eff),
                               construct="clean_up-table " + vtxt, path=vtxt), "clean_up table %s" % vtxt)
        else:
            rr.ok("clean_up table (%s) -> %s" % (vtxt, eff))
        dflt = ret[1][1]
        if val[p_ai][1]:
            # must be a real placeholder: not a constant, not the no-default marker
            if is_const(dflt) or (isinstance(dflt, tuple) and dflt[:2] == ("obj", "g")):
                rr.bad(ctx.finding(rid, calc, calc.node, "with allow_incomplete the placeholder is the fixed value %s, not the crop's all-nan result" % _show(dflt),
                                   construct="placeholder-const " + vtxt, path=vtxt), "placeholder exists %s" % vtxt)
            else:
                rr.ok("placeholder exists when allow_incomplete (%s)" % vtxt)
        else:
            markers.add(dflt)
            if dflt == TOP:
                rr.bad(ctx.finding(rid, calc, calc.node, "without allow_incomplete a placeholder may still be passed to the Reaper (%s)" % vtxt,
                                   construct="placeholder-without-allow " + vtxt, path=vtxt), "no placeholder %s" % vtxt)
            else:
                rr.ok("no placeholder without allow_incomplete (%s): marker %s" % (vtxt, _show(dflt)))
    ctx.extra.setdefault("no_default_markers", sorted(_show(m) for m in markers))

    p_crop, p_ai2, p_wait = chk.positional
    for val in valuations({p_ai2: [TRUE, FALSE], p_wait: [TRUE, FALSE], "<ready>": [TRUE, FALSE]}):
        ready = val.pop("<ready>")
        inter = _TableInter(ctx, ready)
        fl = inter.flow(chk, val)
        g = fl.cfg
        raises = [n for n in g.nodes if n.id in fl.visited and n.kind == "stmt" and isinstance(n.ast, ast.Raise)]
        normal = g.exit.id in fl.IN
        want_refuse = not (val[p_ai2][1] or val[p_wait][1] or ready[1])
        vtxt = "allow_incomplete=%s, wait=%s, ready=%s" % (val[p_ai2][1], val[p_wait][1], ready[1])
        if want_refuse and (normal or not raises):
            rr.bad(ctx.finding(rid, chk, chk.node, "an incomplete crop is not refused for (%s)" % vtxt, construct="gate-table " + vtxt, path=vtxt), "gate %s" % vtxt)
        elif (not want_refuse) and raises:
            rr.bad(ctx.finding(rid, chk, chk.node, "reaping is refused although allowed for (%s)" % vtxt, construct="gate-table " + vtxt, path=vtxt), "gate %s" % vtxt)
        else:
            rr.ok("gate (%s) -> %s" % (vtxt, "refuse" if want_refuse else "proceed"))
    return rr


def _show(v):
    if is_const(v):
        return repr(v[1])
    if isinstance(v, tuple) and v[:2] == ("obj", "g"):
        return v[2]
    return v[0] if isinstance(v, tuple) else repr(v)


# ---------------------------------------------------------------- gate
def gate_rule(ctx, rid):
    """check_ready_to_reap completes before the Reaper is constructed in every
    reap entry that constructs one, and before any file-system effect."""
    prog = ctx.prog
    rr = ctx.rule(rid, "readiness gate dominates the Reaper in every reap entry", floor=2)
    crop = prog.need_cls(CROP + ".Crop")
    direct = 0
    for name, f in crop.methods.items():
        g = build_cfg(f.node)
        reapers = [(n, c) for n, c, nm in all_calls(ctx, f, g) if nm == CROP + ".Reaper"]
        if not reapers:
            continue
        direct += 1
        ctx.touch(f, g)
        gates = [(n, c) for n, c, nm in all_calls(ctx, f, g) if nm == CROP + ".check_ready_to_reap"]
        for rn, rc in reapers:
            ok = [gn for gn, gc in gates if g.completes_before(gn.id, rn.id)]
            if not ok:
                rr.bad(ctx.finding(rid, f, rc, "the Reaper is constructed without the readiness check having completed first: an incomplete crop is reaped (and possibly cleaned up) instead of being refused",
                                   construct="reaper-without-gate"), "%s gate" % f.qualname)
                continue
            gn = ok[0]
            # arguments: (self, allow_incomplete, wait) forwarded verbatim
            gc = [c for n, c in gates if n is gn][0]
            fwd = [norm(a) for a in gc.args]
            if fwd[1:] != ["allow_incomplete", "wait"] and not (len(gc.args) == 1 and {k.arg: norm(k.value) for k in gc.keywords} == {"allow_incomplete": "allow_incomplete", "wait": "wait"}):
                rr.bad(ctx.finding(rid, f, gc, "the readiness check does not receive the entry's own allow_incomplete / wait: %s" % norm(gc)), "%s gate args" % f.qualname)
                continue
            # no effect before the gate
            effects = {"shutil.rmtree", "os.remove", "os.unlink", CROP + ".write_to_disk", CROP + ".Crop.delete_all"}
            before = [(n, c, nm) for n, c, nm in all_calls(ctx, f, g) if nm in effects and not g.completes_before(gn.id, n.id)]
            if before:
                rr.bad(ctx.finding(rid, f, before[0][1], "a file-system effect can happen before the readiness check: %s" % norm(before[0][1])), "%s effects before gate" % f.qualname)
            else:
                rr.ok("%s: check_ready_to_reap(self, allow_incomplete, wait) completes before Reaper(...) and before any file effect" % f.qualname)
    need(direct >= 2, "anchor lost: expected >= 2 reap entries constructing a Reaper, found %d" % direct)
    return rr


# ---------------------------------------------------------------- load errors
def load_errors_propagate_rule(ctx, rid):
    """An unreadable / short / empty result is refused, never papered over."""
    prog = ctx.prog
    rr = ctx.rule(rid, "result load failures propagate; empty results and leftovers raise", floor=5)
    ld, wl, init = reaper_loaders(ctx)
    need(wl is not None, "anchor lost: the Reaper's polling loader")
    rfd = prog.need_func(CROP + ".read_from_disk")
    crop = prog.need_cls(CROP + ".Crop")
    anr = crop.methods.get("all_nan_result")
    need(anr is not None, "anchor lost: Crop.all_nan_result")
    loaders = {rfd.qualname, ld.qualname}
    for f in (ld, wl, anr, rfd):
        g = build_cfg(f.node)
        ctx.touch(f, g)
        for n, c, nm in all_calls(ctx, f, g):
            if nm in loaders or nm in ("pickle.load", "joblib.load", "pickle.loads"):
                exc_t = [b for b, l in g.succ[n.id] if l == "exc"]
                swallowed = False
                for t in exc_t:
                    r = g.reachable(start=t)
                    if g.exit.id in r or t == g.exit.id:
                        swallowed = True
                if swallowed:
                    rr.bad(ctx.finding(rid, f, c, "a failure of `%s` (unreadable / truncated result) can be caught and execution continues to a normal return: the result is papered over instead of refused" % norm(c)[:60],
                                       construct="load-error-swallowed " + norm(c)[:60]), "%s: %s propagates" % (f.qualname, norm(c)[:40]))
                else:
                    rr.ok("%s: a failure of `%s` propagates to the caller" % (f.qualname, norm(c)[:50]))
    # the loaded value is validated: returning it is dominated by a test on it (in the loader, or in the
    # helper the loader hands the value to)
    from ..util import IntEval, callee_func

    def validate(fn, depth=0):
        g = build_cfg(fn.node)
        ctx.touch(fn, g)
        rets = [n for n in g.nodes if n.kind == "stmt" and isinstance(n.ast, ast.Return) and n.ast.value is not None]
        need(rets, "anchor lost: %s has no return" % fn.qualname)
        for rn in rets:
            rv = rn.ast.value
            if isinstance(rv, ast.Call):
                cf = callee_func(ctx, fn, rv)
                if cf is not None and cf.qualname == CROP + ".read_from_disk":
                    pass
                elif cf is not None and depth < 2 and any(isinstance(a_, ast.Name) for a_ in rv.args):
                    # the value goes through a helper: the helper's own returns are what is decided
                    validate(cf, depth + 1)
                    continue
                else:
                    raise AnalysisError("idiom changed: %s returns `%s`, a call the analysis cannot follow to the None / empty check" % (fn.qualname, norm(rv)[:60]))
            rname = names_in(rv)
            tests = [t for t in g.nodes if t.kind == "test" and (names_in(t.ast) & rname) and g.dominates(t.id, rn.id) and t.id != rn.id]
            good = False
            for t in tests:
                for b_, l in g.succ[t.id]:
                    if l in ("t", "f"):
                        reach = g.reachable(start=b_)
                        if g.exit.id not in reach and g.raise_exit.id in reach:
                            txt = norm(t.ast)
                            if "None" in txt and "len(" in txt:
                                good = True
            if good:
                # ... and the check holds exactly for None and for empty results (evaluated on representatives)
                for t in tests:
                    txt = norm(t.ast)
                    if "None" in txt and "len(" in txt:
                        rname_ = sorted(rname & names_in(t.ast))[0]
                        got = []
                        for rep in (None, (), (1,), (1, 2)):
                            def on_call(c_, ev_, st_, rep=rep):
                                if norm(c_.func) == "len" and len(c_.args) == 1:
                                    if rep is None:
                                        raise TypeError("len(None)")
                                    return len(ev_.ev(c_.args[0], st_))
                                return NotImplemented
                            try:
                                got.append(bool(IntEval({rname_: rep}, on_call).ev(t.ast, {})))
                            except TypeError:
                                got.append("TypeError")
                            except AnalysisError:
                                got = None
                                break
                        if got is not None and got != [True, True, False, False]:
                            rr.bad(ctx.finding(rid, fn, t.ast, "the refusal test `%s` answers %s for a result that is None / empty / of one / of two entries (expected refuse, refuse, accept, accept): an empty result file is accepted, or a good one refused" % (txt, got),
                                               construct="empty-check-form"), "_load empty check")
                            good = None
            if good is None:
                pass
            elif good:
                rr.ok("%s: returning `%s` is dominated by a None/empty check whose failing branch raises" % (fn.qualname, norm(rv)))
            elif not isinstance(rv, (ast.Name, ast.Call)):
                raise AnalysisError("idiom changed: %s returns `%s`; the analysis knows a returned name or a returned read" % (fn.qualname, norm(rv)[:60]))
            else:
                rr.bad(ctx.finding(rid, fn, rn.ast, "the loaded result is returned without the None / empty check that refuses a result file containing no data",
                                   construct="no-empty-check"), "_load validates result")
    validate(ld)
    # leftovers raise, exhaustion propagates
    reaper = prog.need_cls(CROP + ".Reaper")
    ex = reaper.methods.get("__exit__")
    call = reaper.methods.get("__call__")
    need(ex is not None and call is not None, "anchor lost: Reaper.__exit__/__call__")
    g = build_cfg(ex.node)
    ctx.touch(ex, g)
    raised = False
    for t in g.nodes:
        if t.kind == "test" and "results" in norm(t.ast):
            for b, l in g.succ[t.id]:
                if l == "t":
                    reach = g.reachable(start=b)
                    if g.exit.id not in reach and g.raise_exit.id in reach:
                        raised = True
    if raised:
        rr.ok("Reaper.__exit__ raises when results are left over")
    else:
        rr.bad(ctx.finding(rid, ex, ex.node, "Reaper.__exit__ no longer raises when results are left unconsumed (a length mismatch between sown settings and loaded results goes unnoticed)",
                           construct="exit-no-leftover-check"), "leftovers raise")
    g = build_cfg(call.node)
    ctx.touch(call, g)
    nx = [(n, c) for n, c, nm in all_calls(ctx, call, g) if nm == "builtins.next"]
    need(nx, "anchor lost: Reaper.__call__ does not use next()")
    for n, c in nx:
        if len(c.args) != 1 or c.keywords:
            rr.bad(ctx.finding(rid, call, c, "next() with a default hides exhaustion of the loaded results: %s" % norm(c)), "exhaustion propagates")
        else:
            exc_t = [b for b, l in g.succ[n.id] if l == "exc"]
            if any(g.exit.id in g.reachable(start=t) for t in exc_t):
                rr.bad(ctx.finding(rid, call, c, "exhaustion of the loaded results (StopIteration) is caught in Reaper.__call__"), "exhaustion propagates")
            else:
                rr.ok("Reaper.__call__: next(self.results) without default, exhaustion propagates")
    # ... and through the sweep that calls the Reaper once per setting: a StopIteration raised by a function that builtin
    # map() / filter() / itertools.starmap() applies is taken for the end of that iterator, whoever consumes it
    CRM = "xyzpy.gen.combo_runner"
    seqh = [f for f in prog.need_func(CRM + ".combo_runner_core").module.all_funcs if f.parent is None and f.cls is None and "fn" in f.params]
    need(any(f.qualname == CRM + "._run_linear_sequential" for f in seqh), "anchor lost: the sequential run-linear helper")
    n_sites = 0
    for f in seqh:
        ctx.touch(f)
        carriers = {"fn"}
        for nf in f.nested.values():
            if any(isinstance(c, ast.Call) and isinstance(c.func, ast.Name) and c.func.id == "fn" for c in ast.walk(nf.node)):
                if any(isinstance(h_, ast.ExceptHandler) for h_ in ast.walk(nf.node)):
                    raise AnalysisError("idiom changed: %s calls the swept function inside a try statement of the closure `%s`; which exceptions leave it is not analysed" % (f.name, nf.name))
                carriers.add(nf.name)
        for c in ast.walk(f.node):
            if isinstance(c, ast.Call) and isinstance(c.func, ast.Name) and c.func.id == "fn":
                n_sites += 1
            if not (isinstance(c, ast.Call) and c.args and (callee_name(ctx, f, c) in ("builtins.map", "builtins.filter", "itertools.starmap"))):
                continue
            a0 = c.args[0]
            inner = isinstance(a0, ast.Lambda) and any(isinstance(x, ast.Call) and isinstance(x.func, ast.Name) and x.func.id == "fn" for x in ast.walk(a0))
            part = isinstance(a0, ast.Call) and norm(a0.func).endswith("partial") and a0.args and isinstance(a0.args[0], ast.Name) and a0.args[0].id in carriers
            if (isinstance(a0, ast.Name) and a0.id in carriers) or inner or part:
                rr.bad(ctx.finding(rid, f, c, "`%s` applies the swept function inside an iterator: when that function is the Reaper and the loaded results run out, its StopIteration is taken for the end of the iteration, the sweep returns short and the reap completes (and deletes the crop) instead of raising" % norm(c)[:60],
                                   construct="exhaustion-swallowed-by-map " + f.name), "%s: exhaustion propagates through the sweep" % f.name)
    need(n_sites >= 1, "anchor lost: no call of `fn` in the run-linear helpers")
    if not any("exhaustion-swallowed" in (getattr(x, "construct", "") or "") for x in rr.findings):
        rr.ok("no run-linear helper applies the swept function through map() / filter() / starmap() (%d direct call sites)" % n_sites)
    return rr


# ---------------------------------------------------------------- crop file naming
def crop_paths(ctx):
    """Every path built under the crop location in the cropping module:
    -> [(fi, join call, rel components tuple with '@' for runtime parts)]"""
    from ..util import ConstFold, LOCATION_STANDIN
    m = ctx.prog.modules.get(CROP)
    need(m is not None, "anchor lost: module " + CROP)
    out = []
    for fi in m.all_funcs:
        for n, c, nm in all_calls(ctx, fi):
            if nm != "os.path.join":
                continue
            from ..util import call_site_envs
            envs = [{}]
            if any(isinstance(x, ast.Name) and x.id in fi.params and x.id not in ("self", "crop") for x in ast.walk(c)):
                envs = [e for e, _ in call_site_envs(ctx, fi)] or [{}]
            for env in envs:
                env = dict(env)
                env.setdefault("crop_location", LOCATION_STANDIN)
                v = ConstFold(ctx, fi, env, lenient=True).ev(c)
                if isinstance(v, str) and v.startswith(LOCATION_STANDIN + "/"):
                    rel = tuple(v[len(LOCATION_STANDIN) + 1:].split("/"))
                    out.append((fi, c, rel))
    return out


def templates(ctx):
    m = ctx.prog.modules[CROP]
    t = {}
    for k in ("BTCH_NM", "RSLT_NM", "FNCT_NM", "INFO_NM"):
        need(k in m.consts, "anchor lost: template constant %s" % k)
        s = ctx.prog.fold_str(m, m.consts[k])
        need(s is not None, "template %s is not a foldable string" % k)
        t[k] = s
    return t


def naming_rule(ctx, rid):
    """Writers and readers of batch / result / settings / function files use
    the same directory and the same template."""
    import fnmatch
    rr = ctx.rule(rid, "every crop path uses the directory and template of its writer", floor=14)
    t = templates(ctx)
    need("{}" in t["RSLT_NM"] and "{}" in t["BTCH_NM"], "batch / result templates lost their id field")
    if t["RSLT_NM"].format("7") == t["BTCH_NM"].format("7"):
        rr.bad(ctx.finding(rid, None, None, "batch and result templates are identical", construct="templates-equal"))
    shape = {
        ("results", t["RSLT_NM"].format("@")): "result",
        ("batches", t["BTCH_NM"].format("@")): "batch",
        (t["INFO_NM"],): "settings",
        (t["FNCT_NM"],): "function",
        ("batches",): "batches dir", ("results",): "results dir",
        ("__qsub_script__.sh",): "private submission script",
    }
    res_pat = t["RSLT_NM"].format("*")
    bat_pat = t["BTCH_NM"].format("*")
    for fi, c, rel in crop_paths(ctx):
        ctx.touch(fi)
        # globs use '*' as id
        rel_n = tuple(x.replace("*", "@") for x in rel)
        kind = shape.get(rel_n)
        if kind is not None:
            rr.ok("%s: %s -> %s" % (fi.qualname, "/".join(rel), kind), "%s|%s" % (fi.qualname, norm(c)))
            continue
        last = rel[-1]
        if fnmatch.fnmatchcase(last.replace("@", "0"), res_pat) or fnmatch.fnmatchcase(last.replace("@", "0"), bat_pat) or rel[0] in ("results", "batches"):
            rr.bad(ctx.finding(rid, fi, c, "the path %s pairs a directory and a file template that no writer uses (writers: results/%s, batches/%s): this reader / writer looks at files that are never produced" % ("/".join(rel), t["RSLT_NM"], t["BTCH_NM"])),
                   "%s: %s" % (fi.qualname, "/".join(rel)))
        elif "data_name" in norm(c) or "data_name" in " ".join(norm(v_) for nm_ in names_in(c) for _, v_ in assignments_to(fi, nm_) if v_ is not None):
            rr.bad(ctx.finding(rid, fi, c, "`%s` places the farmer's data file inside the crop's own folder: that folder is what delete_all removes after a reap, so the data saved by the reap is deleted with the crop" % norm(c)[:60],
                               construct="data-file-inside-crop"), "%s: data file location" % fi.qualname)
        else:
            raise AnalysisError("unrecognised crop path %s in %s" % ("/".join(rel), fi.qualname))
    return rr


# ---------------------------------------------------------------- dict-merge precedence
def _merge_layers(expr, fi, depth=0):
    """A dict display built only from ** splats -> ordered list of layer
    texts (later wins), following single local definitions."""
    from ..util import single_def
    if isinstance(expr, ast.Dict) and all(k is None for k in expr.keys):
        out = []
        for v in expr.values:
            sub = _merge_layers(v, fi, depth + 1)
            out += sub if sub is not None else [norm(v)]
        return out
    if isinstance(expr, ast.Call) and isinstance(expr.func, ast.Name) and expr.func.id == "dict" and len(expr.args) == 1 and not expr.keywords:
        return _merge_layers(expr.args[0], fi, depth + 1) or [norm(expr.args[0])]
    return None


class _MergeVal:
    """An abstract mapping: the ordered layers it was merged from (later wins) and the object it may BE
    (alias) rather than a copy of."""

    def __init__(self, layers, alias=None):
        self.layers = list(layers)
        self.alias = alias


def _identity_like(fn):
    """A one-argument repo function that returns its argument or a plain copy of it (prepare.dictify):
    -> 'alias' when a path returns the argument itself, 'copy' when every return is dict(arg) / {} / dict(),
    None when it is anything else."""
    if fn is None or not hasattr(fn, "node") or len(fn.positional) != 1:
        return None
    par = fn.positional[0]
    kinds = set()
    for n in walk_shallow(fn.node):
        if isinstance(n, ast.Return):
            t = norm(n.value) if n.value is not None else "None"
            if t == par:
                kinds.add("alias")
            elif t in ("dict(%s)" % par, "{**%s}" % par, "dict()", "{}"):
                kinds.add("copy")
            else:
                return None
        elif isinstance(n, (ast.Assign, ast.AugAssign, ast.For, ast.While, ast.With, ast.Try)):
            return None
    return "alias" if "alias" in kinds else ("copy" if kinds else None)


def _merge_value(ctx, expr, fi, env, effects, depth=0):
    """Abstract value of a mapping expression in `fi` (env: local name -> _MergeVal), following same-class
    helpers; mutations of a value that may be a stored / passed-in object are recorded in `effects`.
    -> _MergeVal or None (unrecognised)."""
    from ..util import single_def, callee_func
    if depth > 6 or expr is None:
        return None
    e = expr
    if isinstance(e, ast.Name):
        if e.id in env:
            return env[e.id]
        if e.id in fi.params:
            return _MergeVal([e.id], alias=e.id)
        d = single_def(fi, e.id)
        if d is not None:
            return _merge_value(ctx, d[1], fi, env, effects, depth + 1)
        return None
    if isinstance(e, ast.Attribute) and norm(e.value) == "self":
        return _MergeVal([norm(e)], alias=norm(e))
    if isinstance(e, ast.Dict) and all(k is None for k in e.keys):
        out = []
        for v in e.values:
            sub = _merge_value(ctx, v, fi, env, effects, depth + 1)
            if sub is None:
                return None
            out += sub.layers
        return _MergeVal(out)
    if isinstance(e, ast.BinOp) and isinstance(e.op, ast.BitOr):
        a_ = _merge_value(ctx, e.left, fi, env, effects, depth + 1)
        b_ = _merge_value(ctx, e.right, fi, env, effects, depth + 1)
        return _MergeVal(a_.layers + b_.layers) if a_ is not None and b_ is not None else None
    if isinstance(e, ast.Call):
        if isinstance(e.func, ast.Name) and e.func.id == "dict" and len(e.args) <= 1 and not e.keywords:
            if not e.args:
                return _MergeVal([])
            sub = _merge_value(ctx, e.args[0], fi, env, effects, depth + 1)
            return _MergeVal(sub.layers) if sub is not None else None
        if isinstance(e.func, ast.Attribute) and e.func.attr == "copy" and not e.args:
            sub = _merge_value(ctx, e.func.value, fi, env, effects, depth + 1)
            return _MergeVal(sub.layers) if sub is not None else None
        cf = callee_func(ctx, fi, e)
        if cf is None or not hasattr(cf, "node"):
            return None
        kind = _identity_like(cf)
        if kind is not None and len(e.args) == 1 and not e.keywords:
            sub = _merge_value(ctx, e.args[0], fi, env, effects, depth + 1)
            if sub is None:
                return None
            return _MergeVal(sub.layers, alias=sub.alias if kind == "alias" else None)
        if isinstance(e.func, ast.Attribute) and norm(e.func.value) == "self" and cf.cls is not None and fi.cls is not None:
            # a helper method: straight-line interpretation with the arguments bound
            pars = [p_ for p_ in cf.positional if p_ != "self"]
            if any(isinstance(a_, ast.Starred) for a_ in e.args) or any(k.arg is None for k in e.keywords) or len(e.args) > len(pars):
                return None
            env2 = {}
            for p_, a_ in list(zip(pars, e.args)) + [(k.arg, k.value) for k in e.keywords]:
                v_ = _merge_value(ctx, a_, fi, env, effects, depth + 1)
                if v_ is None:
                    return None
                env2[p_] = v_
            for p_ in pars:
                if p_ not in env2:
                    dflt = cf.defaults().get(p_)
                    if dflt is not None and norm(dflt) in ("()", "None", "{}"):
                        env2[p_] = _MergeVal([])
                    else:
                        return None
            ctx.touch(cf)
            for st in cf.node.body:
                if isinstance(st, ast.Expr) and isinstance(st.value, ast.Constant):
                    continue
                if isinstance(st, ast.Assign) and len(st.targets) == 1 and isinstance(st.targets[0], ast.Name):
                    v_ = _merge_value(ctx, st.value, cf, env2, effects, depth + 1)
                    if v_ is None:
                        return None
                    env2[st.targets[0].id] = v_
                elif isinstance(st, ast.Expr) and isinstance(st.value, ast.Call) and isinstance(st.value.func, ast.Attribute) and st.value.func.attr == "update" \
                        and isinstance(st.value.func.value, ast.Name) and st.value.func.value.id in env2 and len(st.value.args) == 1 and not st.value.keywords:
                    tgt = env2[st.value.func.value.id]
                    add = _merge_value(ctx, st.value.args[0], cf, env2, effects, depth + 1)
                    if add is None:
                        return None
                    if tgt.alias is not None:
                        effects.append((cf, st, tgt.alias))
                    tgt.layers = tgt.layers + add.layers
                elif isinstance(st, ast.Return) and st.value is not None:
                    return _merge_value(ctx, st.value, cf, env2, effects, depth + 1)
                else:
                    return None
            return None
    return None


def precedence_rule(ctx, rid):
    """Explicit constants > runner constants > runner resources, the same at
    sow time (Crop.parse_constants) as in a direct run
    (Runner.run_combos -> combo_runner_to_ds)."""
    from ..flow import path_key
    rr = ctx.rule(rid, "kwargs precedence explicit constants > runner constants > runner resources, same in sowing and direct runs", floor=3)
    prog = ctx.prog
    pc = prog.need_func(CROP + ".Crop.parse_constants")
    g = build_cfg(pc.node)
    ctx.touch(pc, g)
    # symbolic evaluation of the successive dict merges of the variable returned
    order = None
    from ..flow import Flow, NOTNONE
    flp = Flow(g, {"self.runner": NOTNONE, "runner": NOTNONE}).run()
    rets = [n for n in g.nodes if n.id in flp.visited and n.kind == "stmt" and isinstance(n.ast, ast.Return) and n.ast.value is not None]
    need(len(rets) == 1, "idiom changed: parse_constants return")
    rv = rets[0].ast.value
    var = rv.id if isinstance(rv, ast.Name) else (pc.positional[1] if len(pc.positional) > 1 else "constants")
    layers = ["<explicit>"]
    # walk the straight-line assignments to var (on the path with a runner attached) in source order
    assigns = [n for n in g.nodes if n.id in flp.visited and n.kind == "stmt" and isinstance(n.ast, ast.Assign) and len(n.ast.targets) == 1 and norm(n.ast.targets[0]) == var]
    assigns.sort(key=lambda n: n.lineno)
    for a in assigns:
        v = a.ast.value
        ml = _merge_layers(v, pc)
        if ml is None:
            if isinstance(v, ast.Call) and norm(v.func) == "parse_constants":
                layers = ["<explicit>"]
                continue
            raise AnalysisError("parse_constants: unrecognised update of %s: %s" % (var, norm(v)))
        new = []
        for l in ml:
            if l == var:
                new += layers
            else:
                new.append(l)
        layers = new
    if not isinstance(rv, ast.Name):
        ml = _merge_layers(rv, pc)
        if ml is None:
            raise AnalysisError("idiom changed: parse_constants returns `%s`" % norm(rv)[:80])
        new = []
        for l in ml:
            new += layers if l == var else [l]
        layers = new
    def cls(l):
        if l == "<explicit>":
            return "explicit"
        if l.endswith("._constants"):
            return "constants"
        if l.endswith("._resources"):
            return "resources"
        return l
    got = [cls(l) for l in layers]
    want = ["resources", "constants", "explicit"]
    if got != want:
        rr.bad(ctx.finding(rid, pc, rets[0].ast, "sown keyword arguments are merged in the order %s (later wins) but a direct run uses %s: a key present in two of them gets a different value when sown" % (got, want),
                           construct="sow-precedence " + ">".join(got)), "sow precedence")
    else:
        rr.ok("Crop.parse_constants merges %s (later wins)" % " < ".join(got))
    # direct run: Runner.run_combos/run_cases constants={**self._constants, **dict(constants)}; combo_runner_to_ds {**resources, **constants}
    runner = prog.need_cls("xyzpy.gen.farming.Runner")
    for mname in ("run_combos", "run_cases"):
        m = runner.methods.get(mname)
        need(m is not None, "anchor lost: Runner." + mname)
        ctx.touch(m)
        found = False
        for n, c, nm in all_calls(ctx, m):
            if nm in ("xyzpy.gen.combo_runner.combo_runner_to_ds", "xyzpy.gen.case_runner.case_runner_to_ds"):
                cexp = arg(c, None, "constants")
                rexp = arg(c, None, "resources")
                effects = []
                mv = _merge_value(ctx, cexp, m, {}, effects) if cexp is not None else None
                ml = mv.layers if mv is not None else None
                found = True
                stored_hit = [(f_, st_, al_) for f_, st_, al_ in effects if al_.startswith("self.")]
                if stored_hit:
                    f_, st_, al_ = stored_hit[0]
                    rr.bad(ctx.finding(rid, f_, st_, "`%s` updates an object that may be `%s` itself (the value it was taken from is returned unchanged when it already is a dict): the constants given for this run only are written into the runner and supplied to every later run" % (norm(st_)[:60], al_),
                                       construct="runner-stored-constants-mutated " + mname), "runner %s stored constants" % mname)
                    continue
                if effects:
                    raise AnalysisError("idiom changed: Runner.%s builds its constants by updating `%s` in place" % (mname, effects[0][2]))
                if cexp is None and rexp is None and any(k.arg is None for k in c.keywords):
                    raise AnalysisError("idiom changed: Runner.%s hands constants / resources to the runner through a keyword mapping (`**%s`)" % (mname, ", **".join(norm(k.value) for k in c.keywords if k.arg is None)))
                mln = [x.replace("dict(constants)", "constants") for x in ml] if ml is not None else None
                recognised_wrong = (mln is not None and sorted(mln) == ["constants", "self._constants"] and mln != ["self._constants", "constants"]) or (mln is not None and len(mln) == 1) or \
                    (rexp is not None and norm(rexp) != "self._resources" and (norm(rexp) in ("None", "{}") or "self._constants" in norm(rexp)))
                if (mln != ["self._constants", "constants"] or rexp is None or norm(rexp) != "self._resources") and not recognised_wrong:
                    raise AnalysisError("idiom changed: Runner.%s passes constants=%s, resources=%s" % (mname, norm(cexp) if cexp else None, norm(rexp) if rexp else None))
                if ml is None or mln != ["self._constants", "constants"] or norm(rexp) != "self._resources":
                    rr.bad(ctx.finding(rid, m, c, "Runner.%s passes constants=%s, resources=%s; expected stored constants overridden by the call's constants, and the stored resources" % (mname, norm(cexp) if cexp else None, norm(rexp) if rexp else None),
                                       construct="runner-precedence " + mname), "runner %s precedence" % mname)
                else:
                    rr.ok("Runner.%s: constants = stored < explicit; resources = stored" % mname)
        need(found, "anchor lost: Runner.%s does not call the to_ds runner" % mname)
    ctd = prog.need_func("xyzpy.gen.combo_runner.combo_runner_to_ds")
    ctx.touch(ctd)
    okc = False
    for n, c, nm in all_calls(ctx, ctd):
        if nm == "xyzpy.gen.combo_runner.combo_runner_core":
            cexp = arg(c, None, "constants")
            ml = _merge_layers(cexp, ctd) if cexp is not None else None
            if ml == ["resources", "constants"]:
                okc = True
                rr.ok("combo_runner_to_ds: function kwargs = resources < constants")
            else:
                rr.bad(ctx.finding(rid, ctd, c, "combo_runner_to_ds passes constants=%s to the sweep; expected {**resources, **constants}" % (norm(cexp) if cexp else None), construct="to_ds-precedence"), "to_ds precedence")
                okc = True
    need(okc, "anchor lost: combo_runner_to_ds -> combo_runner_core")
    return rr


# ---------------------------------------------------------------- settings record
def dict_literal(e):
    """`dict(a=1, b=2)` / `dict(a=1, **m)` as the equivalent dict display"""
    if isinstance(e, ast.Call) and isinstance(e.func, ast.Name) and e.func.id == "dict" and not e.args:
        return ast.Dict(keys=[ast.Constant(k.arg) if k.arg is not None else None for k in e.keywords], values=[k.value for k in e.keywords])
    return e


def record_table(ctx):
    """The settings record written by Crop.save_info as {key: value text},
    expanding ``**{a: getattr(self, a) for a in CONSTANT_TUPLE}``; and the
    restore table of _sync_info_from_disk as {attribute: key}.
    -> (save_info FuncInfo, dict node, written, restored)"""
    from ..util import ConstFold
    prog = ctx.prog
    crop = prog.need_cls(CROP + ".Crop")
    si = crop.methods.get("save_info")
    sy = crop.methods.get("_sync_info_from_disk")
    need(si is not None and sy is not None, "anchor lost: Crop.save_info / _sync_info_from_disk")
    rec = None
    for nd, c, nm in all_calls(ctx, si):
        if nm == CROP + ".write_to_disk" and c.args:
            a0 = c.args[0]
            if isinstance(a0, ast.Name):
                d = single_def(si, a0.id)
                a0 = d[1] if d else a0
            a0 = dict_literal(a0)
            if isinstance(a0, ast.Dict):
                rec = a0
    need(rec is not None, "idiom changed: save_info does not write a dict display")
    # the record may be completed after the display: rec_name[<const>] = v, and `for a in CONSTANTS: rec_name[a] = getattr(self, a)`
    rec_name = None
    for nd, c, nm in all_calls(ctx, si):
        if nm == CROP + ".write_to_disk" and c.args and isinstance(c.args[0], ast.Name):
            rec_name = c.args[0].id
    later = {}
    if rec_name is not None:
        for st_ in walk_shallow(si.node):
            if isinstance(st_, ast.Assign) and isinstance(st_.targets[0], ast.Subscript) and norm(st_.targets[0].value) == rec_name:
                sl_ = st_.targets[0].slice
                par_ = getattr(st_, "_parent", None)
                if isinstance(sl_, ast.Constant) and not isinstance(par_, (ast.For, ast.While, ast.If)):
                    later[sl_.value] = norm(st_.value)
                elif isinstance(sl_, ast.Name) and isinstance(par_, ast.For) and norm(par_.target) == sl_.id and norm(st_.value) == "getattr(self, %s)" % sl_.id:
                    try:
                        for it in ConstFold(ctx, si).ev(par_.iter):
                            later[it] = "self." + it
                    except AnalysisError:
                        raise AnalysisError("idiom changed: settings record filled in a loop over a non-constant sequence: %s" % norm(par_.iter))
                else:
                    raise AnalysisError("idiom changed: settings record entry `%s`" % norm(st_)[:60])
            elif isinstance(st_, ast.Expr) and isinstance(st_.value, ast.Call) and isinstance(st_.value.func, ast.Attribute) and norm(st_.value.func.value) == rec_name and st_.value.func.attr in ("update", "setdefault", "pop"):
                raise AnalysisError("idiom changed: settings record modified by `%s`" % norm(st_.value)[:60])
    written = {}
    for k, v in zip(rec.keys, rec.values):
        if isinstance(k, ast.Constant):
            written[k.value] = norm(v)
        elif k is None:
            if isinstance(v, ast.DictComp) and len(v.generators) == 1 and isinstance(v.generators[0].target, ast.Name):
                var = v.generators[0].target.id
                try:
                    items = ConstFold(ctx, si).ev(v.generators[0].iter)
                except AnalysisError:
                    raise AnalysisError("idiom changed: settings record splat over a non-constant sequence: %s" % norm(v))
                for it in items:
                    if norm(v.key) == var and norm(v.value) == "getattr(self, %s)" % var:
                        written[it] = "self." + it
                    else:
                        raise AnalysisError("idiom changed: settings record comprehension %s" % norm(v))
            else:
                raise AnalysisError("idiom changed: settings record splat %s" % norm(v))
    written.update(later)
    restored = {}
    g = build_cfg(sy.node)
    setts = [nd.ast.targets[0].id for nd in g.nodes if nd.kind == "stmt" and isinstance(nd.ast, ast.Assign) and isinstance(nd.ast.targets[0], ast.Name) and isinstance(nd.ast.value, ast.Call)
             and norm(nd.ast.value.func) in ("self.load_info", "read_from_disk") ]
    need(len(setts) == 1, "idiom changed: _sync_info_from_disk does not bind the loaded settings record to one name")
    SETT = setts[0]
    for nd in g.nodes:
        if nd.kind == "stmt" and isinstance(nd.ast, ast.Assign) and isinstance(nd.ast.value, ast.Subscript) and norm(nd.ast.value.value) == SETT \
                and isinstance(nd.ast.value.slice, ast.Constant) and norm(nd.ast.targets[0]).startswith("self."):
            restored[norm(nd.ast.targets[0])] = nd.ast.value.slice.value
        if nd.kind == "for" and isinstance(nd.ast.target, ast.Name):
            var = nd.ast.target.id
            body = nd.ast.body
            if len(body) == 1 and isinstance(body[0], ast.Expr) and norm(body[0].value) == "setattr(self, %s, %s[%s])" % (var, SETT, var):
                try:
                    for it in ConstFold(ctx, sy).ev(nd.ast.iter):
                        restored["self." + it] = it
                except AnalysisError:
                    raise AnalysisError("idiom changed: restore loop over a non-constant sequence")
    return si, rec, written, restored
